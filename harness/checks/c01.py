"""C01 — the exported model computes the same function as the JAX callable.

A. spec-exact kernel: J2O_OpSem (TLC) enumerates (primitive, parameters, input) on the exact lattice
   with algebraic laws as invariants; every case runs on a real export of that primitive (ORT) and is
   compared three ways: specification = JAX eager = ORT (rounding modes, float->int truncation,
   integer division / remainder signs, clamp, negative and out-of-range one_hot indices, argmax ties,
   cumulative sums, sort).
B. corpus differential: every sampled registered testcase (quick) / every one (thorough) is exported
   and executed in ORT on the author's inputs and, for testcases declared by input_shapes, on further
   exact-lattice draws; compared with JAX eager under the property's rule (integers/bools bit-exact;
   floats within the testcase's own tolerance or within 8x JAX's own float32 error against its x64
   evaluation); draws on which JAX itself is non-finite / ill-conditioned are outside the domain.
"""

from __future__ import annotations

import json
import random
from typing import Any

from harness.common import Ctx, MachineryError, cleanup_tlc, parse_tlc_values, run_tlc, tlc_must_pass
from harness.pool import run_tasks

LEVEL = "exploration"


def _kernel_job(cases):
    from harness.kerneljobs import run_cases

    return run_cases(cases)


def _axis_job(cases, loop_ops, exact):
    from harness.batchjobs import run_task

    return run_task(cases, loop_ops, exact)


def axis_operator_replay(ctx: Ctx, kind: str, engine: str) -> int:
    """J2O_Batching: axis-parameterised operators, `direct` (C01) or under `vmap` (C10)."""
    from harness import batchjobs as B

    for cfg in ("MC_Batching_front.cfg", "MC_Batching_inplace.cfg"):
        rb = run_tlc("MC_Batching", cfg, timeout=1200, workers=8)
        tlc_must_pass(rb, "J2O_Batching")
        ctx.add_tlc(rb, f"J2O_Batching {cfg[12:-4]}")
        if rb.violated:
            raise MachineryError(f"J2O_Batching: {rb.violated} violated by a sound rule ({cfg})")
        cleanup_tlc(rb)
    if not ctx.quick:
        for cfg in ("MC_BatchingDev_keep.cfg", "MC_BatchingDev_canon_batch.cfg"):
            rd = run_tlc("MC_Batching", cfg, timeout=600, coverage=False)
            if not rd.violated:
                raise MachineryError(f"self test: deviating batching rule {cfg} is not rejected")
            cleanup_tlc(rd)
        ctx.extra["selftest_deviating_batching_rules_rejected"] = True
    re_ = run_tlc("MC_Batching", "MC_BatchingEmit.cfg", timeout=1200, workers=1, coverage=False)
    cases = parse_tlc_values(re_.output.splitlines())
    cleanup_tlc(re_)
    if not cases:
        raise MachineryError("J2O_Batching emitted no cases")
    tasks = B.plan(cases, kind, 12)
    res = run_tasks([{"fn": "harness.checks.c01:_axis_job", "args": t, "timeout": 1500} for t in tasks], nworkers=14, timeout=3000)
    outs = []
    for task, out in res:
        if out.get("status") != "ok":
            if out.get("status") in ("timeout", "crash"):
                ctx.extra.setdefault("axis_tasks_timed_out", 0)
                ctx.extra["axis_tasks_timed_out"] += 1
                continue
            raise MachineryError(f"axis-operator worker failed: {str(out)[:700]}")
        outs.append(out["result"])
    n = B.fold(ctx, outs, ctx.pid, engine)
    ctx.extra[f"{engine}_cases_run"] = n
    ctx.cov["evaluations"] += n
    return n


def _index_job(cases):
    from harness.indexjobs import run_cases

    return run_cases(cases)


def index_replay(ctx: Ctx) -> int:
    """J2O_Index: index-driven primitives at the edges of the index domain (clamping, wrapping, modes)."""
    ri = run_tlc("MC_Index", "MC_Index.cfg", timeout=900, workers=1)
    tlc_must_pass(ri, "J2O_Index")
    ctx.add_tlc(ri, "J2O_Index")
    if ri.violated:
        raise MachineryError(f"J2O_Index: {ri.violated} violated (operator definitions inconsistent)")
    cases = parse_tlc_values(ri.output.splitlines())
    cleanup_tlc(ri)
    if not cases:
        raise MachineryError("J2O_Index emitted no cases")
    # static configurations (pad / slice) cost one export each: chunked; dynamic ones share one export per template
    dyn = [c for c in cases if c["c"]["k"] not in ("pad", "slice")]
    sta = [c for c in cases if c["c"]["k"] in ("pad", "slice")]
    if ctx.quick:
        rng = random.Random(ctx.seed)
        rng.shuffle(sta)
        sta = sta[:120]
    tasks = [{"fn": "harness.checks.c01:_index_job", "args": {"cases": dyn}, "timeout": 1500}]
    tasks += [{"fn": "harness.checks.c01:_index_job", "args": {"cases": sta[i::6]}, "timeout": 1500} for i in range(6) if sta[i::6]]
    res = run_tasks(tasks, nworkers=7, timeout=3000)
    n = 0
    per: dict[str, dict[str, int]] = {}
    for task, out in res:
        if out.get("status") != "ok":
            raise MachineryError(f"index replay worker failed: {str(out)[:700]}")
        o = out["result"]
        n += o["n"]
        if o["spec_vs_jax"]:
            raise MachineryError("J2O_Index disagrees with JAX eager (specification bug): " + json.dumps(o["spec_vs_jax"][:2])[:600])
        for k, v in o["per_template"].items():
            d = per.setdefault(k, {"ok": 0, "bad": 0})
            d["ok"] += v["ok"]
            d["bad"] += v["bad"]
        for ef in o["export_failed"]:
            ctx.extra.setdefault("index_templates_rejected_at_export", {})[ef["template"]] = ef["error"][:140]
        for mm in o["mismatch"]:
            c = mm["case"]
            ctx.violation({"engine": "index_kernel", "template": mm["template"], "case": c}, f"{mm['template']} on {c}: exported model {mm['ort']} but JAX (and the specification) {mm['jax']}", mm)
        for c in task["args"]["cases"][:400]:
            ctx.count(("index", json.dumps(c["c"], sort_keys=True)), nontrivial=True, n=0)
    ctx.extra["index_cases_run"] = n
    ctx.extra["index_per_template"] = per
    ctx.cov["evaluations"] += n
    return n


def _conv_job(cases):
    from harness.convjobs import run_cases

    return run_cases(cases)


def conv_replay(ctx: Ctx) -> int:
    """J2O_Conv: window stride / input dilation / kernel dilation / padding along one axis; Conv vs ConvTranspose lowering."""
    r = run_tlc("MC_Conv", "MC_Conv.cfg", timeout=900, workers=4)
    tlc_must_pass(r, "J2O_Conv")
    ctx.add_tlc(r, "J2O_Conv (LoweringSound, LengthLaw)")
    if r.violated:
        raise MachineryError(f"J2O_Conv: {r.violated} violated")
    cleanup_tlc(r)
    for dev in ("transpose_stride_one", "pads_not_converted", "kernel_not_flipped"):
        rd = run_tlc("MC_Conv", f"MC_ConvDev_{dev}.cfg", timeout=600, workers=2, coverage=False)
        if rd.violated != "LoweringSound":
            raise MachineryError(f"J2O_Conv deviation {dev} should violate LoweringSound (non-vacuity), got {rd.violated!r}")
        cleanup_tlc(rd)
    re_ = run_tlc("MC_Conv", "MC_ConvEmit.cfg", timeout=600, workers=1, coverage=False)
    cases = parse_tlc_values(re_.output.splitlines())
    cleanup_tlc(re_)
    if len(cases) < 100:
        raise MachineryError("J2O_Conv emitted too few cases")
    k = 4
    res = run_tasks([{"fn": "harness.checks.c01:_conv_job", "args": {"cases": cases[i::k]}, "timeout": 1500} for i in range(k)], nworkers=k, timeout=3000)
    n = 0
    refused = {"supported": 0, "unsupported": 0}
    for task, out in res:
        if out.get("status") != "ok":
            raise MachineryError(f"conv replay worker failed: {str(out)[:700]}")
        o = out["result"]
        n += o["n"]
        if o["spec_vs_jax"]:
            raise MachineryError("J2O_Conv disagrees with JAX eager (specification bug): " + json.dumps(o["spec_vs_jax"][:2])[:600])
        for ef in o["export_failed"]:
            refused["supported" if ef["supported"] else "unsupported"] += 1
            if ef["supported"]:
                ctx.extra.setdefault("conv_supported_cases_refused", []).append({"case": ef["case"], "error": ef["error"][:140]})
        for pb in o["problems"]:
            c = pb["case"]
            ctx.violation({"engine": "conv_kernel", "stride": c["stride"], "ldil": c["ldil"], "rdil": c["rdil"], "plo": c["plo"], "phi": c["phi"], "k": len(c["w"]), "layout": pb["layout"], "what": pb["what"]},
                          f"conv_general_dilated(window_stride={c['stride']}, lhs_dilation={c['ldil']}, rhs_dilation={c['rdil']}, padding=({c['plo']},{c['phi']}), kernel {c['w']}, {pb['layout']}): {pb['detail'][:260]}", pb)
        for c in task["args"]["cases"]:
            ctx.count(("conv", json.dumps(c["c"], sort_keys=True)), nontrivial=True, n=0)
    ctx.extra["conv_cases_run"] = n
    ctx.extra["conv_refused_loudly"] = refused
    ctx.cov["evaluations"] += n
    return n


def _fusion_job(cases):
    from harness.fusionjobs import run_cases

    return run_cases(cases)


def fusion_replay(ctx: Ctx) -> int:
    """J2O_Fusion: reductions at the boundary of the lowering-time fusions and order operations on ties."""
    r = run_tlc("MC_Fusion", "MC_Fusion.cfg", timeout=900, workers=2)
    tlc_must_pass(r, "J2O_Fusion")
    ctx.add_tlc(r, "J2O_Fusion (FusionSound, DigitizeLaws)")
    if r.violated:
        raise MachineryError(f"J2O_Fusion: {r.violated} violated")
    cleanup_tlc(r)
    for dev, inv in (("pow_exponent_truncated", "FusionSound"), ("mul_any_operands", "FusionSound"), ("digitize_strict", "DigitizeLaws"), ("lpnorm_ignores_layout", "LpNormSound"), ("mean_on_integers", "MeanSound")):
        rd = run_tlc("MC_Fusion", f"MC_FusionDev_{dev}.cfg", timeout=600, workers=2, coverage=False)
        if rd.violated != inv:
            raise MachineryError(f"J2O_Fusion deviation {dev} should violate {inv} (non-vacuity), got {rd.violated!r}")
        cleanup_tlc(rd)
    re_ = run_tlc("MC_Fusion", "MC_FusionEmit.cfg", timeout=600, workers=1, coverage=False)
    cases = parse_tlc_values(re_.output.splitlines())
    cleanup_tlc(re_)
    if len(cases) < 80:
        raise MachineryError("J2O_Fusion emitted too few cases")
    k = 4
    res = run_tasks([{"fn": "harness.checks.c01:_fusion_job", "args": {"cases": cases[i::k]}, "timeout": 1500} for i in range(k)], nworkers=k, timeout=3000)
    n = 0
    for task, out in res:
        if out.get("status") != "ok":
            raise MachineryError(f"fusion replay worker failed: {str(out)[:700]}")
        o = out["result"]
        n += o["n"]
        if o["spec_vs_jax"]:
            raise MachineryError("J2O_Fusion disagrees with JAX eager (specification bug): " + json.dumps(o["spec_vs_jax"][:2])[:600])
        for ef in o["export_failed"]:
            ctx.extra.setdefault("fusion_cases_rejected_at_export", []).append({"case": ef["case"], "error": ef["error"][:140]})
        for pb in o["problems"]:
            c = pb["case"]
            ctx.violation({"engine": "fusion_boundary", "case": c, "dtype": pb["dtype"], "what": pb["what"]},
                          f"{c} ({pb['dtype']}): {pb['detail'][:260]} (model ops {pb.get('ops')})", pb)
        for c in task["args"]["cases"]:
            ctx.count(("fusion", json.dumps(c["c"], sort_keys=True)), nontrivial=True, n=0)
    ctx.extra["fusion_cases_run"] = n
    ctx.cov["evaluations"] += n
    return n


def run(ctx: Ctx) -> None:
    rng = random.Random(ctx.seed)
    r = run_tlc("MC_OpSem", "MC_OpSem.cfg", timeout=900, workers=1)
    tlc_must_pass(r, "J2O_OpSem")
    ctx.add_tlc(r, "J2O_OpSem")
    if r.violated:
        raise MachineryError(f"J2O_OpSem: {r.violated} violated (operator definitions inconsistent)")
    cases = parse_tlc_values(r.output.splitlines())
    cleanup_tlc(r)
    if not cases:
        raise MachineryError("no kernel cases emitted")
    idx = run_tasks([{"fn": "harness.checks.c02:_corpus_index_job", "args": {}, "timeout": 600}], nworkers=1, timeout=600)[0][1]
    if idx.get("status") != "ok":
        raise MachineryError(f"corpus index failed: {str(idx)[:300]}")
    items = [it for it in idx["result"] if not it["skip_numeric"]]
    if ctx.quick:
        items = [it for it in items if not it["key"].startswith("examples")]
    alli = [it["i"] for it in items]
    rng.shuffle(alli)
    sel = sorted(alli[: (420 if ctx.quick else 10**9)])
    n = 14
    tasks = [{"fn": "harness.checks.c01:_kernel_job", "args": {"cases": cases}, "timeout": 1800}]
    tasks += [{"fn": "harness.diffjobs:corpus_diff_job", "args": {"indices": c, "ndraws": 3 if ctx.quick else 6}, "timeout": 360} for c in [sel[i:i + 4] for i in range(0, len(sel), 4)]]
    res = run_tasks(tasks, nworkers=n, timeout=3500)
    stats: dict[str, int] = {}
    draws = 0
    discarded = 0
    for task, out in res:
        if out.get("status") != "ok":
            if out.get("status") in ("timeout", "crash"):
                ctx.extra.setdefault("items_timed_out_or_crashed", []).append(task["args"].get("indices"))
                continue
            raise MachineryError(f"C01 worker failed: {str(out)[:700]}")
        if task["fn"].endswith("_kernel_job"):
            kr = out["result"]
            ctx.extra["kernel_cases_run"] = kr["n"]
            ctx.cov["evaluations"] += kr["n"]
            for c in cases[:: max(1, len(cases) // 400)]:
                ctx.count(("kernel", json.dumps(c["c"], sort_keys=True)), n=0)
            if kr["spec_vs_jax"]:
                raise MachineryError("J2O_OpSem disagrees with JAX eager (specification bug): " + json.dumps(kr["spec_vs_jax"][:3])[:600])
            for ef in kr["export_failed"]:
                ctx.violation({"engine": "kernel", "template": ef["template"], "what": "export_failed"}, f"kernel primitive {ef['template']} failed to export: {ef['error']}", ef)
            for mm in kr["mismatch"]:
                c = mm["case"]
                ctx.violation({"engine": "kernel", "template": mm["template"], "case": c}, f"{mm['template']} on {c}: ORT {mm['ort']} but JAX (and the specification) {mm['jax']}", mm)
            for c in cases[:3]:
                ctx.sample({"kind": "kernel_case", **c})
            continue
        for rec in out["result"]:
            stats[rec["status"]] = stats.get(rec["status"], 0) + 1
            if rec["status"] == "ort_load_failed":
                ctx.extra.setdefault("ort_load_failed", []).append({rec["key"]: rec.get("why", "")[:120]})
            if rec["status"] != "ok":
                continue
            draws += rec["draws"]
            discarded += rec["discarded"]
            ctx.count(("corpus", rec["key"]), nontrivial=rec["draws"] > 0, n=max(1, rec["draws"]))
            seen = set()
            for p in rec["problems"]:
                k = (p["what"], p.get("output"))
                if k in seen:
                    continue
                seen.add(k)
                ctx.violation({"engine": "corpus_diff", "testcase": rec["key"], "what": p["what"], "lattice_draw": p["draw"] > 0}, f"{rec['key']} (draw {p['draw']}{', lattice' if p['draw'] > 0 else ', author inputs'}): {p['what']}: {p['detail']}", rec)
            if len(ctx.cov["samples"]) < 9 and rec["draws"] > 1:
                ctx.sample({"kind": "corpus", "testcase": rec["key"], "input_vectors_compared": rec["draws"], "draws_outside_domain": rec["discarded"], "problems": rec["problems"][:2]})
    axis_operator_replay(ctx, "direct", "axis_direct")
    index_replay(ctx)
    fusion_replay(ctx)
    conv_replay(ctx)
    ctx.extra["corpus_status"] = stats
    ctx.extra["input_vectors_compared"] = draws
    ctx.extra["lattice_draws_outside_domain"] = discarded
    ctx.extra["ort_load_failed"] = ctx.extra.get("ort_load_failed", [])[:10]
    ctx.cov["traces_validated_against_impl"] = stats.get("ok", 0)
    ctx.cov["rule"] = "one evaluation = one input vector through one real export in ORT vs JAX eager (or one spec-exact kernel case); distinct = distinct testcases / kernel cases; non-trivial = at least one vector compared"
    ctx.assumptions += ["JAX eager (plugins inactive) is the reference the property names", "float comparisons: the testcase's own tolerance (default rtol=atol=1e-5 single, 1e-7 double) or 8x JAX's own float32 error vs its x64 evaluation",
                        "testcases declared by input_values are run on the author's values only (they encode domain constraints)", "testcases the project marks skip_numeric_validation are excluded"]
