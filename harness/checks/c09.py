"""C09 — the precision flag is honoured end to end.

A. TLC: J2O_Host (FlagInBody: the traced body sees the requested x64 mode; Quiescent: the flag is
   restored on every path, failures included).
B. code -> spec: dtype census of real corpus exports in both precisions (recursively: tensors,
   constants, Cast targets, bodies, functions) + the antecedent of the double clause decided from the
   jaxpr traced in 64-bit mode; the events are validated by J2O_Precision with TLC.
C. spec-exact probes: programs whose float64 arithmetic is exact but invisible in float32
   (1 + 2^-30, 2^-40) through constants of every origin, loops, scan, cond, function bodies, module
   parameters; the double export must reproduce JAX x64 BIT-exactly; the single export must contain
   no DOUBLE; the flag must be as before.
"""

from __future__ import annotations

import json
import random
from typing import Any

from harness.common import parse_tlc_values, WORK, Ctx, MachineryError, cleanup_tlc, run_tlc, tlc_must_pass
from harness.pool import run_tasks

LEVEL = "model_checking"
STANDINS: dict[str, str] = {}


def _probe_job():
    from harness.precjobs import probes

    return probes()


def _promo_job(cases):
    from harness.promojobs import run_cases

    return run_cases(cases)


def run(ctx: Ctx) -> None:
    from harness.checks.c13 import unwind_discipline

    unwind_discipline(ctx)          # the precision-flag managers restore the flag on every exit path
    rng = random.Random(ctx.seed)
    facts = {"J2O_HostFacts.tla": "---- MODULE J2O_HostFacts ----\nFactWithinDup == FALSE\n====\n"}
    r = run_tlc("MC_Host", "MC_Host.cfg", gen_files=facts, timeout=1700)
    tlc_must_pass(r, "J2O_Host")
    ctx.add_tlc(r, "J2O_Host (FlagInBody, Quiescent)")
    if r.violated:
        raise MachineryError(f"J2O_Host: {r.violated} violated")
    cleanup_tlc(r)
    idx = run_tasks([{"fn": "harness.checks.c02:_corpus_index_job", "args": {}, "timeout": 600}], nworkers=1, timeout=600)[0][1]
    if idx.get("status") != "ok":
        raise MachineryError(f"corpus index failed: {str(idx)[:300]}")
    items = [it for it in idx["result"] if not (ctx.quick and it["key"].startswith("examples"))]
    singles = [it["i"] for it in items if not it["double"]]
    doubles = [it["i"] for it in items if it["double"]]
    rng.shuffle(singles)
    rng.shuffle(doubles)
    sel = sorted(singles[: (220 if ctx.quick else 10**9)] + doubles[: (220 if ctx.quick else 10**9)])
    n = 14
    tasks = [{"fn": "harness.precjobs:corpus_job", "args": {"indices": c}, "timeout": 3000} for c in [sel[i::n] for i in range(n)] if c]
    tasks.append({"fn": "harness.checks.c09:_probe_job", "args": {}, "timeout": 1800})
    # J2O_Promotion: mixed-operand expressions; the lattice is checked against JAX, then predicts the model
    rp = run_tlc("MC_Promotion", "MC_Promotion.cfg", timeout=900, workers=1, coverage=False)
    tlc_must_pass(rp, "J2O_Promotion")
    ctx.add_tlc(rp, "J2O_Promotion")
    if rp.violated:
        raise MachineryError(f"J2O_Promotion: {rp.violated} violated")
    pcases = parse_tlc_values(rp.output.splitlines())
    cleanup_tlc(rp)
    if not pcases:
        raise MachineryError("J2O_Promotion emitted no cases")
    for c_ in [pcases[i::4] for i in range(4)]:
        tasks.append({"fn": "harness.checks.c09:_promo_job", "args": {"cases": c_}, "timeout": 1800})
    res = run_tasks(tasks, nworkers=14, timeout=3000)
    events = []
    nexp = 0
    for task, out in res:
        if out.get("status") != "ok":
            raise MachineryError(f"C09 worker failed: {str(out)[:700]}")
        if task["fn"].endswith("_promo_job"):
            pr = out["result"]
            if pr["spec_vs_jax"]:
                raise MachineryError("J2O_Promotion disagrees with JAX eager (specification bug): " + json.dumps(pr["spec_vs_jax"][:2])[:500])
            ctx.extra["promotion_cases_run"] = ctx.extra.get("promotion_cases_run", 0) + pr["n"]
            ctx.cov["evaluations"] += pr["n"]
            for c_ in task["args"]["cases"]:
                ctx.count(("promotion", json.dumps(c_["c"], sort_keys=True)), nontrivial=c_["c"]["a"] != c_["c"]["b"], n=0)
            for ef in pr["export_failed"]:
                ctx.extra.setdefault("promotion_export_errors", []).append({"case": ef["case"], "error": ef["error"][:120]})
            for pb in pr["problems"]:
                c_ = pb["case"]
                ctx.violation({"engine": "promotion", "op": c_["op"], "a": c_["a"], "b": c_["b"], "double": c_["x64"], "what": pb["what"]},
                              f"{c_['op']}({c_['a']}, {c_['b']}) exported with enable_double_precision={c_['x64']}{' (+1 op)' if c_['tail'] else ''}: {pb['what']}: {pb['detail'][:200]}", pb)
            continue
        if task["fn"].endswith("_probe_job"):
            for p in out["result"]:
                ctx.count(("probe", p["probe"]), nontrivial=bool(p.get("f32_would_differ")))
                if p.get("export_error"):
                    ctx.violation({"engine": "precision_probe", "probe": p["probe"], "what": "export_failed"}, f"double-precision probe {p['probe']} failed to export: {p['export_error']}", p)
                    continue
                if p.get("run_error"):
                    ctx.violation({"engine": "precision_probe", "probe": p["probe"], "what": "invalid_model"}, f"double-precision probe {p['probe']} does not run: {p['run_error']}", p)
                    continue
                if not p.get("exact", False):
                    ctx.violation({"engine": "precision_probe", "probe": p["probe"], "what": "not_exact"}, f"double export of probe {p['probe']} is not bit-exact with JAX x64 (hidden single-precision step?): got {p.get('got')} dtypes {p.get('got_dtypes')} ref {p.get('ref')}", p)
                if not p.get("flag_restored", True):
                    ctx.violation({"engine": "precision_probe", "probe": p["probe"], "what": "flag"}, f"jax_enable_x64 changed by export of probe {p['probe']}", p)
                if p.get("single_ndouble"):
                    ctx.violation({"engine": "precision_probe", "probe": p["probe"], "what": "double_in_single"}, f"single-precision export of probe {p['probe']} contains DOUBLE at {p.get('single_where')}", p)
                ctx.sample({"kind": "exact_probe", "probe": p["probe"], "bit_exact": p.get("exact"), "float32_detour_would_be_visible": p.get("f32_would_differ"), "double_in_single_export": p.get("single_ndouble")})
            continue
        for rec in out["result"]:
            if rec.get("x64_after") != rec.get("x64_before"):
                ctx.violation({"engine": "precision_census", "testcase": rec["key"], "what": "flag"}, f"jax_enable_x64 differs after exporting {rec['key']}", rec)
            if rec["status"] != "ok":
                continue
            nexp += 1
            ctx.count(("corpus", rec["key"]), nontrivial=True)
            ev = {"tid": rec["i"], "double": rec["double"], "ndouble": rec["ndouble"], "nfloat": rec["nfloat"], "allf64": rec["allf64"], "outs_single_ok": rec["outs_single_ok"],
                  "x64_before": rec["x64_before"], "x64_after": rec["x64_after"], "explicit64": rec["explicit64"]}
            known = False
            if not rec["double"] and not rec["explicit64"] and (rec["ndouble"] or not rec["outs_single_ok"]):
                nb = len(ctx.violations)
                ctx.violation({"engine": "precision_census", "testcase": rec["key"], "what": "double_in_single"}, f"single-precision export {rec['key']} carries DOUBLE: {rec['where_double']}", rec)
                known = len(ctx.violations) == nb
            if rec["double"] and rec["allf64"] and rec["nfloat"]:
                nb = len(ctx.violations)
                ctx.violation({"engine": "precision_census", "testcase": rec["key"], "what": "float_in_double"}, f"double-precision export {rec['key']} (JAX x64 is all float64) carries FLOAT: {rec['where_float']}", rec)
                known = known or len(ctx.violations) == nb
            if not known:
                events.append(ev)
            if len(ctx.cov["samples"]) < 8:
                ctx.sample({"kind": "census", "export": rec["key"], "double_flag": rec["double"], "DOUBLE_sites": rec["ndouble"], "FLOAT_sites": rec["nfloat"], "jax_x64_all_float64": rec["allf64"]})
    tdir = WORK / "traces"
    tdir.mkdir(parents=True, exist_ok=True)
    tf = tdir / f"prec_{ctx.seed}.ndjson"
    tf.write_text("".join(json.dumps(e, sort_keys=True) + "\n" for e in events))
    rt = run_tlc("J2O_Precision", "PrecisionTrace.cfg", timeout=900, workers=1, env={"TRACE_FILE": str(tf)}, coverage=False)
    ctx.add_tlc(rt, "J2O_Precision")
    ctx.extra["census_events"] = len(events)
    ctx.extra["census_accepted_by_tlc"] = bool(rt.ok and not rt.violated)
    if rt.violated and not ctx.violations:
        ctx.violation({"engine": "precision_trace", "invariant": rt.violated}, f"J2O_Precision invariant {rt.violated} violated", rt.output[-1200:])
    elif not rt.ok and not rt.violated:
        raise MachineryError("precision trace validation failed to run: " + rt.output[-500:])
    cleanup_tlc(rt)
    tf.unlink(missing_ok=True)
    ctx.extra["exports_censused"] = nexp
    ctx.cov["traces_validated_against_impl"] = nexp
    ctx.cov["rule"] = "one evaluation = one real export censused for DOUBLE/FLOAT sites, or one exact probe; non-trivial probe = a float32 detour would change the result"
    ctx.assumptions += ["the antecedent 'JAX x64 evaluation involves only float64' is read off the jaxpr traced in 64-bit mode", "requests that themselves name a float64 input under the single flag are outside the single clause"]
