"""C14 — export is deterministic and independent of history.

A. TLC: J2O_Determinism (per-conversion counters start at 0 whatever the history, registries are only
   looked up by key, iteration is insertion ordered): HistoryIndependent; the deviation variants
   (a counter kept in process state; hash-ordered iteration) must be rejected.
B. spec -> code: TLC-generated histories (incl. failing conversions) are replayed in fresh interpreter
   processes under PYTHONHASHSEED 0 / 1 / random and with heap-address perturbation; the deterministic
   serialisation digest of every request must equal its digest in a fresh process with no history.
"""

from __future__ import annotations

import json
import random
from typing import Any

from harness.common import Ctx, MachineryError, cleanup_tlc, parse_tlc_values, run_tlc, tlc_must_pass
from harness.pool import run_tasks

LEVEL = "model_checking"


def _hist_job(history, perturb=0):
    from harness.detjobs import run_history

    return run_history(history, perturb)


def run(ctx: Ctx) -> None:
    rng = random.Random(ctx.seed)
    r = run_tlc("MC_Determinism", "MC_Determinism_none.cfg", timeout=600)
    tlc_must_pass(r, "J2O_Determinism")
    ctx.add_tlc(r, "J2O_Determinism")
    if r.violated:
        raise MachineryError(f"J2O_Determinism: {r.violated} violated")
    cleanup_tlc(r)
    for d in ("global_counter", "hash_order", "leak_in_build"):
        rd = run_tlc("MC_Determinism", f"MC_Determinism_{d}.cfg", timeout=600, coverage=False)
        ctx.extra[f"selftest_{d}_rejected"] = bool(rd.violated)
        if not rd.violated:
            raise MachineryError(f"self test: deviation {d} is not rejected")
        cleanup_tlc(rd)
    re_ = run_tlc("MC_Determinism", "MC_DeterminismEmit.cfg", timeout=600, workers=1, coverage=False)
    hists = parse_tlc_values(re_.output.splitlines())
    cleanup_tlc(re_)
    if not hists:
        raise MachineryError("no histories emitted")
    rng.shuffle(hists)
    extra_kinds = ["fn_nested_multi", "nnx_block", "eqx_linear", "treduce", "addforest", "function", "loop", "silu_opset24", "nchw", "reshape_cast"]
    # corpus requests with rich graphs
    idx = run_tasks([{"fn": "harness.checks.c02:_corpus_index_job", "args": {}, "timeout": 600}], nworkers=1, timeout=600)[0][1]
    if idx.get("status") != "ok":
        raise MachineryError(f"corpus index failed: {str(idx)[:300]}")
    cands = [it["i"] for it in idx["result"] if not it["key"].startswith("examples") or "onnx_functions" in it["key"]]
    rng.shuffle(cands)
    corpus_kinds = [f"corpus:{i}" for i in cands[: (8 if ctx.quick else 200)]]
    all_kinds = sorted({k for h in hists[: (8 if ctx.quick else 150)] for k in h} | set(extra_kinds) | {"fn_flaky_ok", "fn_flaky_fail"}) + corpus_kinds
    # reference: every kind alone, fresh process, hash seed 0
    ref_tasks = [{"fn": "harness.checks.c14:_hist_job", "args": {"history": [k]}, "timeout": 900} for k in all_kinds]
    ref_res = run_tasks(ref_tasks, nworkers=14, timeout=900, env={"PYTHONHASHSEED": "0"}, fresh_each=True)
    ref: dict[str, Any] = {}
    for task, out in ref_res:
        if out.get("status") != "ok":
            raise MachineryError(f"reference digest job failed: {str(out)[:500]}")
        rr = out["result"]["results"][0]
        ref[rr["kind"]] = rr.get("digest") or ("ERR:" + rr.get("error", "?"))
    ctx.extra["reference_kinds"] = len(ref)
    nh = 8 if ctx.quick else 150
    chosen = hists[:nh]
    # histories in which a request shares a function target with an EARLIER FAILED request are always replayed
    # (the neighbourhood of the conversion-scoped "body being traced" mark)
    shared_target = [h for h in hists if any(h[i] == "fn_flaky_fail" and "fn_flaky_ok" in h[i + 1:] for i in range(len(h)))]
    chosen += [h for h in shared_target if h not in chosen][: (3 if ctx.quick else 40)]
    chosen.append(["fn_flaky_ok", "fn_flaky_fail", "fn_flaky_ok"])
    # splice the extra / corpus kinds into histories so that every kind appears after some history
    pool_kinds = extra_kinds + corpus_kinds
    if ctx.quick:
        # pack the extra kinds into a few long histories (each kind once after a varied prefix, once repeated)
        rng.shuffle(pool_kinds)
        for i in range(0, len(pool_kinds), 6):
            part = pool_kinds[i:i + 6]
            chosen.append([chosen[i % nh][0]] + part + part[:2])
    else:
        for i, k in enumerate(pool_kinds):
            h = list(chosen[i % len(chosen)])
            chosen.append(h[:2] + [k] + [h[0], k])
    runs = []
    seeds = ["0", str(1 + ctx.seed % 7)] if ctx.quick else ["0", "1", "2", "3", "17", str(1000 + ctx.seed), "4242", "99999"]
    for hs in seeds:
        tasks = [{"fn": "harness.checks.c14:_hist_job", "args": {"history": h, "perturb": (j + 1) if hs != "0" else 0}, "timeout": 1800} for j, h in enumerate(chosen)]
        res = run_tasks(tasks, nworkers=14, timeout=1800, env={"PYTHONHASHSEED": hs}, fresh_each=True)
        runs.append((hs, res))
    compared = 0
    for hs, res in runs:
        for task, out in res:
            if out.get("status") != "ok":
                raise MachineryError(f"history job failed: {str(out)[:500]}")
            h = task["args"]["history"]
            for pos, rr in enumerate(out["result"]["results"]):
                got = rr.get("digest") or ("ERR:" + rr.get("error", "?"))
                want = ref.get(rr["kind"])
                compared += 1
                ctx.count((rr["kind"], json.dumps(h[:pos]), hs), nontrivial=pos > 0 or hs != "0")
                if want is None:
                    continue
                if got != want:
                    ctx.violation({"engine": "determinism", "kind": rr["kind"] if not rr["kind"].startswith("corpus:") else "corpus", "hashseed_differs": hs != "0", "after_history": pos > 0},
                                  f"request {rr['kind']} after history {h[:pos]} under PYTHONHASHSEED={hs}: digest {got} differs from the fresh-process digest {want}", {"history": h, "pos": pos, "hashseed": hs})
            if len(ctx.cov["samples"]) < 8:
                ctx.sample({"history": h, "hashseed": hs, "digests": [(x["kind"], x.get("digest") or x.get("error")) for x in out["result"]["results"]]})
    ctx.extra["digests_compared"] = compared
    ctx.extra["hash_seeds"] = seeds
    ctx.cov["traces_validated_against_impl"] = len(chosen) * len(seeds)
    ctx.cov["rule"] = "one evaluation = one conversion inside a history in a fresh interpreter, its deterministic-serialisation digest compared with the no-history digest; non-trivial = non-empty history or non-zero hash seed"
    ctx.assumptions += ["SerializeToString(deterministic=True) as canonical bytes", "plugin import order is the file-system order of the installed tree (not permuted)"]
