"""C08 — static type and shape annotations never contradict run time.

A. TLC: J2O_GraphRewrite (rewrites keep outputs, hence the shapes they declare) is checked in C02;
   here the decisive machine is the J2O_Annot monitor.
B. code -> spec: every export of the sample is instrumented so that every annotated main-graph value
   becomes an output, executed in ORT (dynamic variants at two bindings), and the (declared, observed)
   pairs plus the before/after snapshots around postprocess_ir_model are validated by J2O_Annot with
   TLC: dtype equal, integer dims equal, one size per symbol per run, post-processing leaves I/O
   untouched and only weakens intermediates.  The pattern graphs of J2O_GraphRewrite are replayed
   with metadata through the real passes and checked the same way.
"""

from __future__ import annotations

import json
import random
from typing import Any

from harness.common import WORK, Ctx, MachineryError, cleanup_tlc, run_tlc
from harness.pool import run_tasks

LEVEL = "model_checking"


def _corpus_job(indices):
    from harness import corpus as C
    from harness.censusjobs import PostprocessRecorder, annotation_check

    vs = C.variants()
    out = []
    for i in indices:
        tp = vs[i]
        rec: dict[str, Any] = {"i": i, "key": C.key_of(tp), "status": "ok"}
        try:
            with PostprocessRecorder() as pp:
                model, fn = C.export(tp)
        except Exception as ex:  # noqa: BLE001
            rec["status"] = "export_failed"
            out.append(rec)
            continue
        feeds_list = []
        shapes = tp.get("input_shapes") or []
        dynamic = any(isinstance(s, (list, tuple)) and any(isinstance(d, str) for d in s) for s in shapes)
        for b in ((2, 3) if dynamic else (2,)):
            try:
                xs = C.author_inputs(tp, binding={"B": b})
                feeds_list.append(C.feeds_for(model, xs, tp.get("input_params", {}), tp.get("inputs_as_nchw")))
            except Exception:  # noqa: BLE001
                continue
        a = annotation_check(model, feeds_list)
        rec.update({k: a[k] for k in ("values", "runs", "problems", "unobserved")})
        if model.functions:
            from harness.censusjobs import function_annotation_check

            fa = function_annotation_check(model, feeds_list)
            rec["values"] += fa["values"]
            rec["function_calls_observed"] = fa["calls"]
            rec["problems"] += fa["problems"]
            if fa["unobserved"] and not rec.get("unobserved"):
                rec["unobserved"] = fa["unobserved"]
        rec["events"] = a["events"] + pp.events
        nbody = sum(1 for n in model.graph.node if n.op_type in ("Loop", "If", "Scan")) + len(model.functions)
        rec["unobserved_scopes"] = nbody
        out.append(rec)
    return out


def _fnpair_job():
    """@onnx_function call-site pairs (operand dtype / shape differ): function-body annotations per call site."""
    import jax2onnx
    from harness import fnjobs
    from harness.censusjobs import annotation_check, function_annotation_check

    def site(inst=1, kw="none", shp=1, dt=1, scope="top"):
        return {"inst": inst, "kw": kw, "shp": shp, "dt": dt, "scope": scope}

    out = []
    for cname, sites in {"dtype_pair": [site(), site(dt=2)], "shape_pair": [site(), site(shp=2)], "same_twice": [site(), site()], "two_objects": [site(), site(inst=2)]}.items():
        for unique in (False, True):
            for kind in ("plain", "nnx", "eqx", "free"):
                cfg = {"unique": unique, "tab": "other_weights" if kind != "free" else "twin", "sites": sites, "sems": 1}
                rec: dict[str, Any] = {"key": f"fnpair::{cname}::{kind}::unique={unique}", "status": "ok"}
                try:
                    fdec, _, specs, kw, xs = fnjobs.build(cfg, kind)
                    model = jax2onnx.to_onnx(fdec, specs, **kw)
                except Exception:  # noqa: BLE001
                    rec["status"] = "export_failed"
                    out.append(rec)
                    continue
                feeds = {vi.name: x for vi, x in zip(model.graph.input, xs)}
                a = annotation_check(model, [feeds])
                fa = function_annotation_check(model, [feeds])
                rec.update({"values": a["values"] + fa["values"], "runs": a["runs"], "problems": a["problems"] + fa["problems"], "unobserved": a["unobserved"] or fa["unobserved"], "events": a["events"],
                            "function_calls_observed": fa["calls"], "unobserved_scopes": 0})
                out.append(rec)
    # dtype-polymorphic bodies: two call sites with one shape and different element types / different shapes
    import jax
    import numpy as np

    from harness import userfns as UF

    xa = ((np.arange(6) - 2.5) / 2.0).reshape(2, 3).astype(np.float32)
    for nm in ("fn_poly_square", "fn_poly_square_unique"):
        f = getattr(UF, nm)
        for label, second in (("dtype", (np.arange(6) - 3).reshape(2, 3).astype(np.int32)), ("shape", ((np.arange(12) % 5 - 2.0) / 4.0).reshape(4, 3).astype(np.float32))):
            rec = {"key": f"fnpoly::{nm}::{label}", "status": "ok"}
            try:
                model = jax2onnx.to_onnx(lambda a, b, _n=nm: (getattr(UF, _n)(a), getattr(UF, _n)(b)), [jax.ShapeDtypeStruct(xa.shape, xa.dtype), jax.ShapeDtypeStruct(second.shape, second.dtype)])
            except Exception:  # noqa: BLE001
                rec["status"] = "export_failed"
                out.append(rec)
                continue
            feeds = {vi.name: x for vi, x in zip(model.graph.input, (xa, second))}
            a = annotation_check(model, [feeds])
            fa = function_annotation_check(model, [feeds])
            rec.update({"values": a["values"] + fa["values"], "runs": a["runs"], "problems": a["problems"] + fa["problems"], "unobserved": a["unobserved"] or fa["unobserved"], "events": a["events"],
                        "function_calls_observed": fa["calls"], "unobserved_scopes": 0})
            out.append(rec)
    return out


def _loopwiring_job(cases):
    """J2O_LoopWiring cases as real while_loops: nb tensors closed over by the body, nc by the cond, nv carried values,
    every one with a shape of its own; all annotated values of the export (the Loop's pass-through results included) observed."""
    import jax
    import jax.numpy as jnp
    import numpy as np

    import jax2onnx
    from harness.censusjobs import annotation_check

    body_shapes = [(2, 5), (5,)]
    cond_shapes = [(3,), (4, 1)]
    out = []
    for rec0 in cases:
        c = rec0["c"]
        nb, nc, nv, batched = c["nb"], c["nc"], c["nv"], bool(c["batched"])

        def fn(x, y, *consts, _nb=nb, _nc=nc, _nv=nv):
            bcs, ccs = consts[:_nb], consts[_nb:_nb + _nc]

            def cond(st):
                lim = jnp.float32(40.0)
                for cc in ccs:
                    lim = lim + jnp.sum(cc)
                return jnp.logical_and(st[0] < 4, jnp.sum(st[1]) < lim)

            def body(st):
                acc = st[1] + 1.0
                for bc in bcs:
                    acc = acc + bc
                nxt = (st[0] + 1, acc)
                if _nv == 2:
                    nxt = nxt + (st[2] * 2.0,)
                return nxt

            init = (jnp.int32(0), x) + ((y,) if _nv == 2 else ())
            res = jax.lax.while_loop(cond, body, init)
            return res[1:] if _nv == 2 else res[1]

        xs = [((np.arange(10) % 7 - 3) / 2.0).reshape(2, 5).astype(np.float32), np.arange(3, dtype=np.float32) + 1.0]
        xs += [((np.arange(int(np.prod(sh))) % 3) / 4.0).reshape(sh).astype(np.float32) for sh in body_shapes[:nb]]
        xs += [((np.arange(int(np.prod(sh))) % 5) / 8.0).reshape(sh).astype(np.float32) for sh in cond_shapes[:nc]]
        f = fn
        if batched:
            f = jax.vmap(fn, in_axes=(0, None) + (None,) * (nb + nc))
            xs[0] = np.stack([xs[0], xs[0] * 3.0 + 1.0, -xs[0]])
        rec = {"key": f"loopwiring::nb={nb},nc={nc},nv={nv},batched={batched}", "status": "ok"}
        try:
            model = jax2onnx.to_onnx(f, [jax.ShapeDtypeStruct(v.shape, v.dtype) for v in xs])
        except Exception as ex:  # noqa: BLE001
            rec["status"] = "export_failed"
            rec["why"] = f"{type(ex).__name__}: {str(ex)[:120]}"
            out.append(rec)
            continue
        feeds = {vi.name: v for vi, v in zip(model.graph.input, xs)}
        a = annotation_check(model, [feeds])
        loops = [n for n in model.graph.node if n.op_type == "Loop"]
        rec.update({"values": a["values"], "runs": a["runs"], "problems": a["problems"], "unobserved": a["unobserved"], "events": a["events"], "unobserved_scopes": 0,
                    "loop_results": [len(n.output) for n in loops], "predicted_results": len(rec0["runtime"]) + 1})  # + the int32 counter the harness carries next to the nv tensors
        out.append(rec)
    return out


def _pattern_job(graphs):
    import onnx_ir as ir
    from jax2onnx.converter import ir_optimizations as io

    from harness.censusjobs import annotation_check
    from harness.graphreplay import build_model, classify

    out = []
    for gi, g in enumerate(graphs):
        rec: dict[str, Any] = {"i": gi, "sig": classify(g), "status": "ok", "problems": [], "events": []}
        try:
            m0, feeds = build_model(g)
            im = ir.from_proto(m0)
            io.optimize_graph(im)
            m1 = ir.to_proto(im)
        except Exception as ex:  # noqa: BLE001
            rec["status"] = "unbuildable"
            out.append(rec)
            continue
        live = {i.name for i in m1.graph.input}
        a = annotation_check(m1, [{k: v for k, v in feeds.items() if k in live}])
        rec["problems"] = a["problems"]
        rec["values"] = a["values"]
        rec["events"] = a["events"][:200]
        out.append(rec)
    return out


def run(ctx: Ctx) -> None:
    from harness.checks import c02

    rng = random.Random(ctx.seed)
    idx = run_tasks([{"fn": "harness.checks.c02:_corpus_index_job", "args": {}, "timeout": 600}], nworkers=1, timeout=600)[0][1]
    if idx.get("status") != "ok":
        raise MachineryError(f"corpus index failed: {str(idx)[:300]}")
    alli = [it["i"] for it in idx["result"] if not it["skip_numeric"] and not (ctx.quick and it["key"].startswith("examples"))]
    rng.shuffle(alli)
    sel = sorted(alli[: (300 if ctx.quick else 10**9)])
    n = 14
    tasks = [{"fn": "harness.checks.c08:_corpus_job", "args": {"indices": c}, "timeout": 3000} for c in [sel[i::n] for i in range(n)] if c]
    graphs = c02.emit_patterns(ctx.tier)
    rng.shuffle(graphs)
    graphs = graphs[: (500 if ctx.quick else 10**9)]
    tasks += [{"fn": "harness.checks.c08:_pattern_job", "args": {"graphs": c}, "timeout": 3000} for c in [graphs[i::6] for i in range(6)] if c]
    tasks.append({"fn": "harness.checks.c08:_fnpair_job", "args": {}, "timeout": 3000})
    # J2O_LoopWiring: order of the Loop's pass-through results (laws + 2 deviations by TLC), cases replayed as real while_loops
    from harness.common import parse_tlc_values, tlc_must_pass

    rw = run_tlc("MC_LoopWiring", "MC_LoopWiring.cfg", timeout=600, workers=2)
    tlc_must_pass(rw, "J2O_LoopWiring")
    ctx.add_tlc(rw, "J2O_LoopWiring (AnnotationsMatchRuntime)")
    if rw.violated:
        raise MachineryError(f"J2O_LoopWiring: {rw.violated} violated")
    cleanup_tlc(rw)
    for dev in ("annotate_in_trace_order", "values_first"):
        rd = run_tlc("MC_LoopWiring", f"MC_LoopWiringDev_{dev}.cfg", timeout=600, workers=2, coverage=False)
        if rd.violated != "AnnotationsMatchRuntime":
            raise MachineryError(f"J2O_LoopWiring deviation {dev} should violate AnnotationsMatchRuntime, got {rd.violated!r}")
        cleanup_tlc(rd)
    rwe = run_tlc("MC_LoopWiring", "MC_LoopWiringEmit.cfg", timeout=600, workers=1, coverage=False)
    lw_cases = parse_tlc_values(rwe.output.splitlines())
    cleanup_tlc(rwe)
    if len(lw_cases) < 30:
        raise MachineryError("J2O_LoopWiring emitted too few cases")
    tasks += [{"fn": "harness.checks.c08:_loopwiring_job", "args": {"cases": lw_cases[i::3]}, "timeout": 3000} for i in range(3)]
    res = run_tasks(tasks, nworkers=14, timeout=3000)
    events: list[dict[str, Any]] = []
    tid = 0
    nvalues = 0
    nexports = 0
    unobs = 0
    for task, out in res:
        if out.get("status") != "ok":
            raise MachineryError(f"C08 worker failed: {str(out)[:700]}")
        is_pattern = "graphs" in task["args"]
        for rec in out["result"]:
            if rec["status"] != "ok":
                if str(rec.get("key", "")).startswith("loopwiring::"):
                    ctx.extra.setdefault("loopwiring_refused_loudly", []).append({rec["key"]: rec.get("why")})
                continue
            if str(rec.get("key", "")).startswith("loopwiring::"):
                ctx.extra["loopwiring_exports"] = ctx.extra.get("loopwiring_exports", 0) + 1
                if rec.get("loop_results") and rec["predicted_results"] not in rec["loop_results"]:
                    ctx.extra.setdefault("loopwiring_shape_drift", []).append({rec["key"]: [rec["loop_results"], rec["predicted_results"]]})
            nexports += 1
            nvalues += rec.get("values", 0)
            unobs += rec.get("unobserved_scopes", 0) or 0
            key = ("pattern", json.dumps(rec["sig"], sort_keys=True)) if is_pattern else ("corpus", rec["key"])
            ctx.count(key, nontrivial=rec.get("values", 0) > 0, n=max(1, rec.get("values", 0)))
            for p in rec["problems"]:
                what = "dtype" if "declared" in p and "runtime produces" in p else ("rank" if "rank" in p else "dim")
                sig = {"engine": "annotations", "what": what, **({"pattern": rec["sig"]} if is_pattern else {"testcase": rec["key"]})}
                ctx.violation(sig, f"{'pattern graph' if is_pattern else rec['key']}: {p}", rec.get("key") or rec.get("sig"))
            if rec.get("unobserved") and not is_pattern:
                ctx.extra.setdefault("unobserved_exports", []).append({rec["key"]: rec["unobserved"]})
            bad_known = bool(rec["problems"])
            if rec.get("events") and len(events) < (60000 if ctx.quick else 400000) and not bad_known:
                tid += 1
                for e in rec["events"]:
                    events.append({"tid": tid, **e})
            if len(ctx.cov["samples"]) < 6 and rec.get("values", 0) > 5 and not is_pattern:
                ctx.sample({"export": rec["key"], "values_observed": rec["values"], "runs": rec["runs"], "loop_if_function_scopes_not_observed": rec.get("unobserved_scopes"), "problems": rec["problems"]})
    ctx.extra["exports_observed"] = nexports
    ctx.extra["values_observed"] = nvalues
    ctx.extra["nested_scopes_not_observed"] = unobs
    if len(ctx.extra.get("unobserved_exports", [])) > nexports // 4:
        raise MachineryError(f"too many exports could not be instrumented: {ctx.extra['unobserved_exports'][:3]}")
    ctx.extra["unobserved_exports"] = ctx.extra.get("unobserved_exports", [])[:10]
    # normalise events for TLC (uniform fields)
    norm = []
    for e in events:
        if e["ev"] == "Run":
            norm.append({"tid": e["tid"], "ev": "Run"})
        elif e["ev"] == "Value":
            norm.append({"tid": e["tid"], "ev": "Value", "name": e["name"], "ddt": e["ddt"], "odt": e["odt"], "ddims": e["ddims"], "odims": e["odims"]})
        else:
            norm.append({"tid": e["tid"], "ev": "Post", "name": e["name"], "io": bool(e["io"]), "bdt": e["bdt"], "adt": e["adt"], "bdims": e["bdims"], "adims": e["adims"]})
    tdir = WORK / "traces"
    tdir.mkdir(parents=True, exist_ok=True)
    tf = tdir / f"annot_{ctx.seed}.ndjson"
    tf.write_text("".join(json.dumps(e, sort_keys=True) + "\n" for e in norm))
    rt = run_tlc("J2O_Annot", "AnnotTrace.cfg", timeout=2400, workers=1, env={"TRACE_FILE": str(tf)}, coverage=False)
    ctx.add_tlc(rt, "J2O_Annot")
    ctx.extra["annotation_trace_events"] = len(norm)
    ctx.extra["annotation_traces_accepted"] = bool(rt.ok and not rt.violated)
    if rt.violated:
        # find the offending event with the python mirror of the monitor
        ctx.violation({"engine": "annot_trace", "invariant": rt.violated}, "J2O_Annot: a recorded (declared, observed / before, after) event violates AnnotationsSound", rt.output[-2000:])
    elif not rt.ok:
        raise MachineryError("annotation trace validation failed to run: " + rt.output[-600:])
    cleanup_tlc(rt)
    tf.unlink(missing_ok=True)
    ctx.cov["traces_validated_against_impl"] = nexports
    ctx.cov["rule"] = "one evaluation = one (declared, observed) value pair from a real export run in ORT; distinct = distinct exports / pattern graphs; non-trivial = at least one annotated intermediate observed"
    ctx.assumptions += ["values inside Loop/If bodies and function bodies are not surfaced (counted as nested_scopes_not_observed)", "ORT runtime tensors are the ground truth"]
