"""C05 — the model interface mirrors the callable's signature.

A. TLC: J2O_Pipeline over all requests (arity, unused inputs, result kinds, naming variants, layout
   selections, runtime parameter, faults, optimizer abort policy): PositionalStable, OutputsPerLeaf,
   NamesApplied, RejectIffBad ...
B. spec -> code: emitted requests (all accepted ones are candidates; rejected ones with exactly one
   cause) are instantiated as real callables; the real to_onnx must raise exactly when predicted and
   the returned model's inputs/outputs must be the predicted interface and agree with jax.eval_shape
   (class, width under the precision flag, rank, static dims, symbol names).
C. code -> spec: the interface logged after every stage is validated by J2O_PipelineTrace.
"""

from __future__ import annotations

import json
import random
from typing import Any

from harness.common import WORK, Ctx, MachineryError, cleanup_tlc, parse_tlc_values, run_tlc, tlc_must_pass
from harness.pool import run_tasks

LEVEL = "model_checking"


def _run_job(records, pass_count):
    from harness.pipejobs import run_requests

    return run_requests(records, pass_count)


def emitted_requests(ctx: Ctx) -> list[dict[str, Any]]:
    r = run_tlc("MC_PipelineEmit", "MC_PipelineEmit.cfg", timeout=1800, workers=1, coverage=False)
    vals = parse_tlc_values(r.output.splitlines())
    ctx.add_tlc(r, "J2O_Pipeline (emission run)")
    cleanup_tlc(r)
    if not vals:
        raise MachineryError("no requests emitted: " + r.output[-500:])
    rw = run_tlc("MC_PipelineEmit", "MC_PipelineEmitWide.cfg", timeout=1800, workers=1, coverage=False)
    wide = parse_tlc_values(rw.output.splitlines())
    ctx.add_tlc(rw, "J2O_Pipeline (wide interface: arity 12, three leaves)")
    if rw.violated:
        raise MachineryError(f"J2O_Pipeline wide configuration: {rw.violated} violated")
    cleanup_tlc(rw)
    for v in wide:
        v["wide"] = True
    ctx.extra["wide_requests_emitted"] = len(wide)
    return vals + wide


def select(vals, rng, n_model, n_raised, want=None):
    model = [v for v in vals if v["result"] == "model" and (want is None or want(v))]
    raised = [v for v in vals if v["result"] == "raised" and (want is None or want(v))]
    rng.shuffle(model)
    rng.shuffle(raised)
    # make sure every value of every request dimension appears
    picked = []
    seen = set()
    for v in model + raised:
        dims = [(k, json.dumps(x)) for k, x in v["req"].items()]
        if any(d not in seen for d in dims):
            picked.append(v)
            seen.update(dims)
    picked += [v for v in model + raised if v.get("wide") and v not in picked]
    rest_m = [v for v in model if v not in picked][:n_model]
    rest_r = [v for v in raised if v not in picked][:n_raised]
    out = picked + rest_m + rest_r
    for i, v in enumerate(out):
        v["variant"] = i
    return out


def replay(ctx: Ctx, recs, prop: str, only_whats: set[str] | None = None, exclude_whats: set[str] | None = None) -> int:
    pc = run_tasks([{"fn": "harness.checks.c02:_pass_names_job", "args": {}}], nworkers=1, timeout=300)[0][1]["result"]
    n = 14
    chunks = [recs[i::n] for i in range(n)]
    res = run_tasks([{"fn": "harness.checks.c05:_run_job", "args": {"records": c, "pass_count": len(pc)}, "timeout": 2400} for c in chunks if c], nworkers=n, timeout=2400)
    events = []
    done = 0
    tid = 0
    for task, out in res:
        if out.get("status") != "ok":
            raise MachineryError(f"pipeline replay worker failed: {str(out)[:700]}")
        for r in out["result"]:
            rec = task["args"]["records"][r["i"]]
            if r.get("status") == "harness_error":
                raise MachineryError(f"cannot build request {rec['req']}: {r['why']}")
            done += 1
            tid += 1
            req = rec["req"]
            ctx.count(json.dumps(req, sort_keys=True), nontrivial=(rec["result"] == "model" and (req["nin"] > 0)) or rec["result"] == "raised")
            for p in r["problems"]:
                if only_whats is not None and p["what"] not in only_whats:
                    continue
                if exclude_whats is not None and p["what"] in exclude_whats:
                    continue
                sig = {"engine": "pipeline_replay", "what": p["what"], "outKind": req["outKind"], "inNames": req["inNames"], "outNames": req["outNames"], "nchwIn": req["nchwIn"], "nchwOut": req["nchwOut"], "fault": req["fault"], "abort": req["optRaiseAt"] > 0, "strict": req["strict"]}
                ctx.violation(sig, f"{p['what']}: {p['detail']} (request {req})", {"request": rec, "raised": r.get("raised"), "problem": p})
            events.append({"tid": tid, "ev": "Req", "nin": req["nin"], "nout": req["nout"]})
            for e in r["events"]:
                events.append({"tid": tid, "ev": "Stage", "stage": e["stage"], "npos": e["npos"], "ordered": e["ordered"], "ninputs": e["ninputs"], "nout": e["nout"]})
            events.append({"tid": tid, "ev": "End", "raised": r.get("raised") is not None})
            if len(ctx.cov["samples"]) < 8 and rec["result"] == "model" and r["events"]:
                ctx.sample({"request": req, "predicted_inputs": rec["ins"], "stages_logged": [(e["stage"], e["names"]) for e in r["events"]], "raised": r.get("raised")})
    # trace validation
    tdir = WORK / "traces"
    tdir.mkdir(parents=True, exist_ok=True)
    tf = tdir / f"pipe_{prop}_{ctx.seed}.ndjson"
    tf.write_text("".join(json.dumps(e, sort_keys=True) + "\n" for e in events))
    rt = run_tlc("J2O_PipelineTrace", "PipelineTrace.cfg", timeout=900, workers=1, env={"TRACE_FILE": str(tf)}, coverage=False)
    ctx.add_tlc(rt, "J2O_PipelineTrace")
    ctx.extra["stage_trace_events"] = len(events)
    ctx.extra["stage_traces_accepted_by_tlc"] = bool(rt.ok and not rt.violated)
    if rt.violated and not ctx.violations and not ctx.known_hits:
        ctx.violation({"engine": "pipeline_trace", "invariant": rt.violated}, f"J2O_PipelineTrace invariant {rt.violated} violated on a recorded stage trace", rt.output[-1500:])
    elif not rt.ok and not rt.violated:
        ctx.extra["conformance_drift"] = "stage trace not accepted by the strict trace spec: " + rt.output[-300:]
    cleanup_tlc(rt)
    tf.unlink(missing_ok=True)
    return done


INTERFACE_WHATS = {"input_count", "input_name_or_order", "input_names_collide", "output_count", "output_names", "output_names_collide", "output_class", "float_width", "int_type",
                   "output_rank", "output_static_dim", "input_class", "input_rank", "input_symbol_name", "input_static_dim", "accepted_bad_request", "rejected_good_request"}


def run(ctx: Ctx) -> None:
    rng = random.Random(ctx.seed)
    r = run_tlc("J2O_Pipeline", "MC_PipelineQuick.cfg" if ctx.quick else "MC_Pipeline.cfg", timeout=3000)
    tlc_must_pass(r, "J2O_Pipeline")
    ctx.add_tlc(r, "J2O_Pipeline")
    if r.violated:
        raise MachineryError(f"J2O_Pipeline: {r.violated} violated in the model")
    cleanup_tlc(r)
    vals = emitted_requests(ctx)
    # C05 looks at requests without optimizer faults (those are C16's)
    recs = select(vals, rng, 260 if ctx.quick else 4000, 160 if ctx.quick else 3000, want=lambda v: v["req"]["optRaiseAt"] == 0 and v["req"]["fault"] in ("none", "user_raises"))
    ctx.extra["requests_emitted"] = len(vals)
    ctx.extra["requests_replayed"] = len(recs)
    n = replay(ctx, recs, "C05", only_whats=INTERFACE_WHATS)
    ctx.cov["traces_validated_against_impl"] = n
    ctx.cov["rule"] = "one evaluation = one real to_onnx call for a TLC-emitted request; distinct = distinct requests; non-trivial = accepted request with inputs, or a single-cause rejection"
    ctx.assumptions += ["jax.eval_shape is the reference for result leaves", "requests are realised by one template family (tanh/sum body, rank-2/rank-4 tensors)"]
