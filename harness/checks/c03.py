"""C03 — every export is a well-formed, loadable ONNX model.

A. TLC: J2O_Naming (context tree, two counter families, body prefixes, function namespaces, name_fix):
   TwinsOnly before name_fix, SSA / no shadowing after.
B. code -> spec: for corpus exports (x opset / precision configurations) and nested control-flow /
   function templates: ONNX checker (full), strict shape+type inference, ORT load (classified), an
   independent define/use/enter/exit walk of the ModelProto validated by J2O_Scopes with TLC, function
   signature / arity / domain-import / opset-flow checks.
"""

from __future__ import annotations

import json
import random
from typing import Any

from harness.common import WORK, Ctx, MachineryError, cleanup_tlc, run_tlc, tlc_must_pass
from harness.pool import run_tasks

LEVEL = "model_checking"


def _corpus_job(indices, overrides):
    from harness import corpus as C
    from harness.censusjobs import validity

    vs = C.variants()
    out = []
    for i in indices:
        tp = vs[i]
        rec: dict[str, Any] = {"i": i, "key": C.key_of(tp), "status": "ok"}
        try:
            model, _ = C.export(tp, **overrides)
        except Exception as ex:  # noqa: BLE001
            rec["status"] = "export_failed"
            rec["why"] = f"{type(ex).__name__}: {str(ex)[:160]}"
            out.append(rec)
            continue
        v, ev = validity(model)
        rec.update(v)
        rec["events"] = ev if len(ev) <= 1500 else None
        out.append(rec)
    return out


def _template_job():
    """Nested control flow / function templates from the other checks, all configurations."""
    import numpy as np

    import jax2onnx
    from harness import cfreplay, faultjobs
    from harness.censusjobs import validity

    out = []
    T = cfreplay._templates()
    i32, b1 = np.int32, np.bool_
    items = [
        ("while", T["t_while"], [((), i32), ((3,), i32), ((3,), b1)]),
        ("while_in_cond", T["t_while_nested_in_cond"], [((), i32), ((3,), i32), ((3,), b1), ((), b1)]),
        ("vmapped_while", T["t_vwhile"], [((2,), i32), ((3,), i32), ((3,), b1)]),
        ("fori", T["mk_fori"](0, 3), [((), i32), ((3, 3), i32)]),
        ("scan_symbolic", T["t_scan"], [((), i32), (("L",), i32), ((3, 2), i32)]),
        ("scan_in_while", T["t_scan_in_while"], [((), i32), ((3,), i32), ((3, 2), i32), ((), i32)]),
        ("switch", T["t_switch"], [((), i32), ((), i32), ((3,), i32), ((3,), i32)]),
    ]
    import jax

    for name, fn, specs in items:
        for kw in ({}, {"opset": 21}, {"opset": 26}, {"enable_double_precision": True}):
            rec: dict[str, Any] = {"key": f"template::{name}::{json.dumps(kw, sort_keys=True)}", "status": "ok"}
            try:
                m = jax2onnx.to_onnx(fn, [jax.ShapeDtypeStruct(tuple(s), d) for s, d in specs], **kw)
            except Exception as ex:  # noqa: BLE001
                rec["status"] = "export_failed"
                rec["why"] = f"{type(ex).__name__}: {str(ex)[:160]}"
                out.append(rec)
                continue
            v, ev = validity(m)
            rec.update(v)
            rec["events"] = ev if len(ev) <= 1500 else None
            out.append(rec)
    # @onnx_function call-site pairs (the neighbourhoods of J2O_FnDedup's key: operand dtype / shape, keyword
    # order, a definition re-used from a sibling function body), every target kind
    from harness import fnjobs

    def site(inst=1, kw="none", shp=1, dt=1, scope="top"):
        return {"inst": inst, "kw": kw, "shp": shp, "dt": dt, "scope": scope}

    fn_cfgs = {
        "dtype_pair": [site(), site(dt=2)],
        "shape_pair": [site(), site(shp=2)],
        "kw_order": [site(kw="ab"), site(kw="ba")],
        "sibling_bodies_same_inner": [site(scope="body"), site(scope="body")],
        "sibling_bodies_other_inner": [site(scope="body"), site(inst=2, scope="body")],
        "body_then_top": [site(scope="body"), site()],
    }
    for cname, sites in fn_cfgs.items():
        for unique in (False, True):
            for kind in ("plain", "nnx", "eqx", "free"):
                cfg = {"unique": unique, "tab": "other_weights" if kind != "free" else "twin", "sites": sites, "sems": 1}
                rec = {"key": f"fnpair::{cname}::{kind}::unique={unique}", "status": "ok"}
                try:
                    fdec, _, specs, kw, _ = fnjobs.build(cfg, kind)
                    m = jax2onnx.to_onnx(fdec, specs, **kw)
                except Exception as ex:  # noqa: BLE001
                    rec["status"] = "export_failed"
                    rec["why"] = f"{type(ex).__name__}: {str(ex)[:160]}"
                    out.append(rec)
                    continue
                v, ev = validity(m)
                rec.update(v)
                rec["events"] = ev if len(ev) <= 1500 else None
                out.append(rec)
    # function bodies that fold to the identity: the FunctionProto's output would be its input
    from harness import userfns as _U

    bodies = {"fn_identity": [(2, 3)], "fn_transpose_pair": [(2, 3)], "fn_reshape_roundtrip": [(2, 3)], "fn_same_dtype_cast": [(2, 3)],
              "fn_transpose_reduce": [(2, 3, 4)], "fn_first_of_two": [(2, 3), (2, 3)], "fn_fanout": [(2, 3)]}
    for nm, fspecs in bodies.items():
        for kw in ({}, {"enable_double_precision": True}):
            rec = {"key": f"fnbody::{nm}::{json.dumps(kw, sort_keys=True)}", "status": "ok"}
            try:
                # the decorated function must be looked up as a module attribute AT CALL TIME (that is what is patched)
                def _call(*a, _n=nm):
                    r = getattr(_U, _n)(*a)
                    return tuple(t + 1.0 for t in r) if isinstance(r, tuple) else r + 1.0

                m = jax2onnx.to_onnx(_call, fspecs, **kw)
                if not m.functions:
                    rec["status"] = "export_failed"
                    rec["why"] = "harness: no function emitted"
                    out.append(rec)
                    continue
            except Exception as ex:  # noqa: BLE001
                rec["status"] = "export_failed"
                rec["why"] = f"{type(ex).__name__}: {str(ex)[:160]}"
                out.append(rec)
                continue
            v, ev = validity(m)
            rec.update(v)
            rec["events"] = ev if len(ev) <= 1500 else None
            out.append(rec)
    for name, (fn, specs, kw0) in faultjobs.programs().items():
        for kw in ({}, {"return_mode": "ir"}, {"enable_double_precision": True}):
            kk = dict(kw0)
            kk.update(kw)
            rec = {"key": f"program::{name}::{json.dumps(kw, sort_keys=True)}", "status": "ok"}
            try:
                m = jax2onnx.to_onnx(fn, specs, **kk)
                if kk.get("return_mode") == "ir":
                    import onnx_ir as ir

                    m = ir.to_proto(m)
            except Exception as ex:  # noqa: BLE001
                rec["status"] = "export_failed"
                rec["why"] = f"{type(ex).__name__}: {str(ex)[:160]}"
                out.append(rec)
                continue
            v, ev = validity(m)
            rec.update(v)
            rec["events"] = ev if len(ev) <= 1500 else None
            out.append(rec)
    return out


def run(ctx: Ctx) -> None:
    rng = random.Random(ctx.seed)
    r = run_tlc("J2O_Naming", "MC_Naming.cfg", timeout=2400)
    tlc_must_pass(r, "J2O_Naming")
    ctx.add_tlc(r, "J2O_Naming")
    if r.violated:
        raise MachineryError(f"J2O_Naming: {r.violated} violated")
    cleanup_tlc(r)
    idx = run_tasks([{"fn": "harness.checks.c02:_corpus_index_job", "args": {}, "timeout": 600}], nworkers=1, timeout=600)[0][1]
    if idx.get("status") != "ok":
        raise MachineryError(f"corpus index failed: {str(idx)[:300]}")
    items = idx["result"]
    alli = [it["i"] for it in items]
    rng.shuffle(alli)
    plans = [({}, 320 if ctx.quick else 10**9), ({"opset": 21}, 60 if ctx.quick else 10**9), ({"opset": 26}, 60 if ctx.quick else 10**9)]
    tasks = []
    for ov, cap in plans:
        sel = sorted(alli[:cap])
        rng.shuffle(alli)
        n = 14 if len(sel) > 100 else 6
        for c in [sel[i::n] for i in range(n)]:
            if c:
                tasks.append({"fn": "harness.checks.c03:_corpus_job", "args": {"indices": c, "overrides": ov}, "timeout": 3000})
    tasks.append({"fn": "harness.checks.c03:_template_job", "args": {}, "timeout": 3000})
    res = run_tasks(tasks, nworkers=14, timeout=3000)
    events: list[dict[str, Any]] = []
    stats = {"ok": 0, "export_failed": 0, "ort_runtime_limit": 0}
    traced = 0
    tid = 0
    for task, out in res:
        if out.get("status") != "ok":
            raise MachineryError(f"C03 worker failed: {str(out)[:700]}")
        ov = task["args"].get("overrides", {})
        for rec in out["result"]:
            if rec["status"] == "export_failed":
                stats["export_failed"] += 1
                if rec["key"].startswith(("template::", "program::", "fnpair::", "fnbody::")):
                    ctx.extra.setdefault("template_export_failures", []).append({rec["key"]: rec["why"]})
                continue
            stats["ok"] += 1
            stats["ort_runtime_limit"] += int(rec.get("ort") == "runtime_limit")
            ctx.count((rec["key"], json.dumps(ov, sort_keys=True)), nontrivial=rec.get("scope_events", 0) > 6)
            for p in rec["problems"]:
                ctx.violation({"engine": "validity", "testcase": rec["key"], "config": ov, "what": p.split(":")[0]}, f"export {rec['key']} {ov or ''}: {p}", rec.get("key"))
            if rec.get("events") and traced < (60 if ctx.quick else 600):
                traced += 1
                tid += 1
                events.append({"tid": tid, "ev": "Begin", "kind": "", "name": rec["key"][:60]})
                for e in rec["events"]:
                    events.append({"tid": tid, **e})
            if len(ctx.cov["samples"]) < 6 and rec.get("scope_events", 0) > 40:
                ctx.sample({"export": rec["key"], "config": ov, "scope_events": rec["scope_events"], "ort": rec.get("ort"), "problems": rec["problems"]})
    ctx.extra["exports"] = stats
    tdir = WORK / "traces"
    tdir.mkdir(parents=True, exist_ok=True)
    tf = tdir / f"scopes_{ctx.seed}.ndjson"
    tf.write_text("".join(json.dumps(e, sort_keys=True) + "\n" for e in events))
    rt = run_tlc("J2O_Scopes", "ScopesTrace.cfg", timeout=1800, workers=1, env={"TRACE_FILE": str(tf)}, coverage=False)
    ctx.add_tlc(rt, "J2O_Scopes")
    ctx.extra["scope_trace_events"] = len(events)
    ctx.extra["scope_traces_validated_by_tlc"] = traced
    ctx.extra["scope_traces_accepted"] = bool(rt.ok and not rt.violated)
    if rt.violated and not ctx.violations:
        ctx.violation({"engine": "scopes_trace", "invariant": rt.violated}, "J2O_Scopes: a recorded model walk violates WellScoped", rt.output[-1500:])
    elif not rt.ok and not rt.violated:
        raise MachineryError("scope trace validation failed to run: " + rt.output[-500:])
    cleanup_tlc(rt)
    tf.unlink(missing_ok=True)
    ctx.cov["traces_validated_against_impl"] = stats["ok"]
    ctx.cov["rule"] = "one evaluation = one real export (testcase x configuration) through checker(full) + strict inference + ORT load + scope walk + function checks; non-trivial = more than 6 scope events"
    ctx.assumptions += ["ONNX checker / shape inference / ORT as validity oracles", "ORT NOT_IMPLEMENTED kernels and unsupported opsets are runtime limits, not violations"]
