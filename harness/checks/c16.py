"""C16 — failure is loud: never a silently different or partial model.

A. TLC: J2O_Pipeline (AbortPolicy, ReturnedIsSound, RejectIffBad for every pass index / policy /
   fault kind) and J2O_GraphRewrite (OutputsPreserved after EVERY prefix of rewrites).
B. fault enumeration on the real code: the optimizer is made to raise at every pass index of the top
   level loop, at every pass of the function-body loop, and inside passes at the n-th graph
   mutation, for a set of programs whose graphs the passes really change; default policy must return
   a model that validates and equals JAX, the strict policy must re-raise.
C. unsupported constructs at top level / in a loop body / in a function body / in a branch must
   raise; if a model comes back it must be complete and right.
D. pipeline requests with faults (TLC-emitted) replayed: raise exactly when predicted.
"""

from __future__ import annotations

import json
import random
from typing import Any

from harness.common import Ctx, MachineryError, cleanup_tlc, run_tlc, tlc_must_pass
from harness.pool import run_tasks

LEVEL = "fault_enumeration"


def _abort_job(cases):
    from harness.faultjobs import abort_job

    return abort_job(cases)


def _unsupported_job():
    from harness.faultjobs import unsupported_job

    return unsupported_job()


def _space_job():
    from harness.faultjobs import pass_space

    return pass_space()


def _contract_job(cases, table):
    from harness.contractjobs import run_cases

    return run_cases(cases, table)


def contract_replay(ctx: Ctx) -> None:
    """J2O_Contract: every (binding kind per result) x (return kind) lowering, replayed through the real dispatcher in 4 scopes."""
    from harness.common import parse_tlc_values

    r = run_tlc("MC_Contract", "MC_Contract.cfg", timeout=600, workers=2)
    tlc_must_pass(r, "J2O_Contract")
    ctx.add_tlc(r, "J2O_Contract (ContractSound, NoSpuriousRaise)")
    if r.violated:
        raise MachineryError(f"J2O_Contract: {r.violated} violated")
    cleanup_tlc(r)
    for dev in ("producer_means_connected", "no_postcheck", "count_only"):
        rd = run_tlc("MC_Contract", f"MC_ContractDev_{dev}.cfg", timeout=600, workers=2, coverage=False)
        if rd.violated != "ContractSound":
            raise MachineryError(f"J2O_Contract deviation {dev} should violate ContractSound (non-vacuity), got {rd.violated!r}")
        cleanup_tlc(rd)
    ctx.extra["contract_deviations_rejected_by_tlc"] = 3
    re_ = run_tlc("MC_Contract", "MC_ContractEmit.cfg", timeout=600, workers=1, coverage=False)
    cases = parse_tlc_values(re_.output.splitlines())
    cleanup_tlc(re_)
    if len(cases) < 100:
        raise MachineryError("J2O_Contract emitted too few cases: " + re_.output[-400:])
    n = 6
    res = run_tasks([{"fn": "harness.checks.c16:_contract_job", "args": {"cases": cases[i::n], "table": cases}, "timeout": 1800} for i in range(n)], nworkers=n, timeout=1800)
    nrun = 0
    for task, out in res:
        if out.get("status") != "ok":
            raise MachineryError(f"contract replay worker failed: {str(out)[:600]}")
        for x in out["result"]["results"]:
            nrun += 1
            c = x["c"]
            ctx.count(("contract", json.dumps(c, sort_keys=True), x["scope"]), nontrivial=x["predicted"] == "raised")
            sig = {"engine": "lowering_contract", "scope": x["scope"], "bind": c["bind"][: c["n"]], "ret": c["ret"]}
            if x["predicted"] == "raised" and x.get("observed") == "accepted":
                ctx.violation({**sig, "what": "accepted_contract_violation"},
                              f"a lowering that binds {c['bind'][:c['n']]} and returns {c['ret']} ({x['scope']}) breaks the output contract but to_onnx returned a model (J2O_Contract predicts a raise); model problems: {x.get('problems')}", x)
            elif x["predicted"] == "accepted" and x.get("observed") == "raised":
                ctx.violation({**sig, "what": "rejected_sound_lowering"},
                              f"a lowering that binds {c['bind'][:c['n']]} and returns {c['ret']} ({x['scope']}) satisfies the contract but to_onnx raised: {x.get('error')}", x)
            elif x.get("problems"):
                ctx.violation({**sig, "what": "accepted_but_wrong"}, f"contract-conforming lowering ({x['scope']}) gave a wrong model: {x['problems']}", x)
            if nrun % 200 == 1:
                ctx.sample({"kind": "lowering_contract", "lowering": c, "scope": x["scope"], "predicted": x["predicted"], "observed": x.get("observed"), "error": x.get("error")})
    ctx.extra["contract_lowerings_replayed"] = nrun


def run(ctx: Ctx) -> None:
    from harness.checks import c05

    rng = random.Random(ctx.seed)
    r = run_tlc("J2O_Pipeline", "MC_PipelineQuick.cfg" if ctx.quick else "MC_Pipeline.cfg", timeout=3000)
    tlc_must_pass(r, "J2O_Pipeline")
    ctx.add_tlc(r, "J2O_Pipeline")
    if r.violated:
        raise MachineryError(f"J2O_Pipeline: {r.violated} violated in the model")
    cleanup_tlc(r)
    rg = run_tlc("J2O_GraphRewrite", "MC_Graph.cfg", timeout=3000)
    tlc_must_pass(rg, "J2O_GraphRewrite")
    ctx.add_tlc(rg, "J2O_GraphRewrite (every prefix)")
    if rg.violated:
        raise MachineryError(f"J2O_GraphRewrite: {rg.violated} violated")
    cleanup_tlc(rg)

    sp = run_tasks([{"fn": "harness.checks.c16:_space_job", "args": {}, "timeout": 600}], nworkers=1, timeout=600)[0][1]
    if sp.get("status") != "ok":
        raise MachineryError(f"pass space job failed: {str(sp)[:500]}")
    space = sp["result"]
    npass = len(space["names"])
    progs = space["programs"]
    ctx.extra["optimizer_passes"] = npass
    cases: list[dict[str, Any]] = []
    for pi, prog in enumerate(progs):
        ks = list(range(1, npass + 1))
        if ctx.quick:
            # every pass index is hit by at least two programs; every program sees >= 6 indices
            ks = [k for k in ks if (k + pi) % 3 == 0 or k in (1, npass)]
        for k in ks:
            for strict in (("none", "env") if (not ctx.quick or (k + pi) % 2 == 0) else ("none",)):
                cases.append({"prog": prog, "where": "top", "at": k, "strict": strict})
    for k in range(1, (len(space["fn_passes"]) * 2) + 1, (3 if ctx.quick else 1)):
        for strict in ("none", "env"):
            cases.append({"prog": "function", "where": "fn", "at": k, "strict": strict})
    for prog in progs:
        for n in ((1, 2) if ctx.quick else range(1, 9)):
            cases.append({"prog": prog, "where": "mutation", "at": n, "strict": "none"})
    rng.shuffle(cases)
    n = 14
    chunks = [cases[i::n] for i in range(n)]
    res = run_tasks([{"fn": "harness.checks.c16:_abort_job", "args": {"cases": c}, "timeout": 2400} for c in chunks if c], nworkers=n, timeout=2400)
    fired = 0
    by_index: dict[int, int] = {}
    for task, out in res:
        if out.get("status") != "ok":
            raise MachineryError(f"abort worker failed: {str(out)[:700]}")
        for rec in out["result"]:
            key = (rec["prog"], rec["where"], rec["at"], rec["strict"])
            ctx.count(key, nontrivial=bool(rec.get("fired")))
            if rec.get("fired"):
                fired += 1
                if rec["where"] == "top":
                    by_index[rec["at"]] = by_index.get(rec["at"], 0) + 1
            for p in rec.get("problems", []):
                ctx.violation({"engine": "optimizer_abort", "prog": rec["prog"], "where": rec["where"], "at": rec["at"], "strict": rec["strict"]}, f"optimizer abort ({rec['where']} #{rec['at']}, policy {rec['strict']}) on program {rec['prog']}: {p}", rec)
            if rec.get("fired") and len(ctx.cov["samples"]) < 6:
                ctx.sample({"kind": "optimizer_abort", **{k: rec[k] for k in ("prog", "where", "at", "strict", "status", "raised")}})
    ctx.extra["aborts_injected"] = len(cases)
    ctx.extra["aborts_fired"] = fired
    ctx.extra["top_level_pass_indices_hit"] = sorted(by_index)
    missing = [k for k in range(1, npass + 1) if k not in by_index]
    if missing:
        ctx.extra["pass_indices_never_aborted"] = missing

    un = run_tasks([{"fn": "harness.checks.c16:_unsupported_job", "args": {}, "timeout": 900}], nworkers=1, timeout=900)[0][1]
    if un.get("status") != "ok":
        raise MachineryError(f"unsupported job failed: {str(un)[:500]}")
    ctx.extra["unsupported_constructs"] = un["result"]
    for u in un["result"]:
        ctx.count(("unsupported", u["construct"]))
        if u["exported"] and u.get("problems") and not u.get("reference_unavailable"):
            ctx.violation({"engine": "unsupported_construct", "construct": u["construct"]}, f"{u['construct']} was exported instead of rejected and the model is wrong: {u['problems']}", u)
        ctx.sample({"kind": "unsupported_construct", "construct": u["construct"], "exported": u["exported"], "error": u.get("error")})

    contract_replay(ctx)

    # D: TLC-emitted requests that involve faults / optimizer aborts
    vals = c05.emitted_requests(ctx)
    recs = c05.select(vals, rng, 120 if ctx.quick else 2000, 120 if ctx.quick else 2000, want=lambda v: (v["req"]["optRaiseAt"] > 0 or v["req"]["fault"] != "none") and not (v["req"]["outKind"] == "alias_input" and v["req"]["inNames"] == "ok" and v["req"]["outNames"] == "ok"))
    ndone = c05.replay(ctx, recs, "C16", only_whats={"accepted_bad_request", "rejected_good_request", "invalid_after_abort", "unloadable_after_abort", "not_equivalent_after_abort"})
    ctx.cov["traces_validated_against_impl"] = ndone + fired
    ctx.cov["rule"] = "one evaluation = one real export with one injected fault (pass index / function-body pass / n-th graph mutation / unsupported construct / faulty request); non-trivial = the fault point was reached"
    ctx.assumptions += ["faults are injected by wrapping the pass runner and onnx_ir.convenience.replace_all_uses_with from outside", "ONNX checker + strict shape inference + ORT decide validity"]
