"""C10 — JAX transformations commute with export.

A. spec-exact: J2O_Transform (TLC) gives the meaning of jit / nested jit / remat / vmap(in_axes,
   out_axes) / jvp / grad / custom_jvp (+ the equivalent custom_vjp) on polynomial templates over
   integer vectors with the laws relating them as invariants; every case runs on a real export and is
   compared three ways (specification = JAX = ORT, exact integers).
B. registry-wide: vmap / jit / remat / grad / jvp applied to registered callables; whenever JAX itself
   evaluates T(f) on the author's inputs, the export of T(f) must produce the same values in ORT.
"""

from __future__ import annotations

import json
import random
from typing import Any

from harness.common import Ctx, MachineryError, cleanup_tlc, parse_tlc_values, run_tlc, tlc_must_pass
from harness.pool import run_tasks

LEVEL = "exploration"


def _case_job(cases):
    from harness.transformjobs import run_cases

    return run_cases(cases)


def _bb_job(cases, ops):
    from harness.bbatchjobs import run_cases

    return run_cases(cases, ops)


def broadcast_batch_replay(ctx: Ctx) -> int:
    """J2O_BroadcastBatch: binary elementwise substitutes under vmap (batch positions, unmapped operands,
    per-example ranks that differ); the specification of vmap (per-example evaluation) is the oracle."""
    rb = run_tlc("MC_BroadcastBatch", "MC_BroadcastBatch_leftpad.cfg", timeout=900, workers=8)
    tlc_must_pass(rb, "J2O_BroadcastBatch")
    ctx.add_tlc(rb, "J2O_BroadcastBatch (sound rule)")
    if rb.violated:
        raise MachineryError(f"J2O_BroadcastBatch: {rb.violated} violated by the sound rule")
    cleanup_tlc(rb)
    if not ctx.quick:
        for v in ("rightpad", "fastpath_unmapped"):
            rd = run_tlc("MC_BroadcastBatch", f"MC_BroadcastBatch_{v}.cfg", timeout=600, coverage=False)
            if not rd.violated:
                raise MachineryError(f"self test: deviating broadcast batching rule {v} is not rejected")
            cleanup_tlc(rd)
    re_ = run_tlc("MC_BroadcastBatch", "MC_BroadcastBatchEmit.cfg", timeout=900, workers=1, coverage=False)
    cases = parse_tlc_values(re_.output.splitlines())
    cleanup_tlc(re_)
    if not cases:
        raise MachineryError("J2O_BroadcastBatch emitted no cases")
    from harness.bbatchjobs import _ops  # noqa: F401  (names only; jax is imported in the workers)

    names = ["add", "atan2", "clip", "copysign", "divide", "equal", "floor_divide", "fmod", "greater_equal", "less", "maximum", "minimum", "pow", "where"]
    tasks = [{"fn": "harness.checks.c10:_bb_job", "args": {"cases": cases, "ops": [nm]}, "timeout": 1500} for nm in names]
    res = run_tasks(tasks, nworkers=14, timeout=3000)
    n = 0
    per = {}
    for task, out in res:
        if out.get("status") != "ok":
            raise MachineryError(f"broadcast-batch worker failed: {str(out)[:600]}")
        o = out["result"]
        n += o["n"]
        per.update(o["per_op"])
        for mm in o["mismatch"]:
            c = mm["case"]
            ctx.violation({"engine": "broadcast_batch", "op": mm["op"], "xs": c["xs"], "ys": c["ys"], "bx": c["bx"], "by": c["by"], "what": mm["what"]},
                          f"vmap({mm['op']}, in_axes=({c['bx'] - 1 if c['bx'] else None}, {c['by'] - 1 if c['by'] else None})) on per-example shapes {c['xs']} / {c['ys']}: {mm['what']}: {mm['detail'][:160]}", mm)
        for c in task["args"]["cases"]:
            ctx.count(("broadcast_batch", task["args"]["ops"][0], json.dumps(c, sort_keys=True)), nontrivial=True, n=0)
    ctx.extra["broadcast_batch_per_op"] = per
    ctx.extra["broadcast_batch_cases_run"] = n
    ctx.cov["evaluations"] += n
    return n


def run(ctx: Ctx) -> None:
    rng = random.Random(ctx.seed)
    r = run_tlc("MC_Transform", "MC_Transform.cfg", timeout=900, workers=1)
    tlc_must_pass(r, "J2O_Transform")
    ctx.add_tlc(r, "J2O_Transform")
    if r.violated:
        raise MachineryError(f"J2O_Transform: {r.violated} violated (definitions inconsistent)")
    cases = parse_tlc_values(r.output.splitlines())
    cleanup_tlc(r)
    if not cases:
        raise MachineryError("no transformation cases emitted")
    if ctx.quick:
        rng.shuffle(cases)
        keep = {}
        for c in cases:
            keep.setdefault((c["c"]["k"], c["c"].get("t"), c["c"].get("tr"), c["c"].get("a"), c["c"].get("b")), []).append(c)
        cases = [x for v in keep.values() for x in v[:12]]
    idx = run_tasks([{"fn": "harness.checks.c02:_corpus_index_job", "args": {}, "timeout": 600}], nworkers=1, timeout=600)[0][1]
    if idx.get("status") != "ok":
        raise MachineryError(f"corpus index failed: {str(idx)[:300]}")
    items = [it for it in idx["result"] if not it["skip_numeric"] and not it["dynamic"] and not it["nchw"] and not (ctx.quick and it["key"].startswith("examples"))]
    alli = [it["i"] for it in items]
    rng.shuffle(alli)
    sel = sorted(alli[: (110 if ctx.quick else 10**9)])
    transforms = ["vmap", "vmap_last", "jit", "grad"] if ctx.quick else ["vmap", "vmap1", "vmap_last", "jit", "jit_warm", "remat", "grad", "jvp"]
    n = 14
    tasks = [{"fn": "harness.checks.c10:_case_job", "args": {"cases": c}, "timeout": 1800} for c in [cases[i::4] for i in range(4)] if c]
    tasks += [{"fn": "harness.transformjobs:corpus_transform_job", "args": {"indices": c, "transforms": transforms}, "timeout": 360} for c in [sel[i:i + 3] for i in range(0, len(sel), 3)]]
    res = run_tasks(tasks, nworkers=n, timeout=3500)
    stats: dict[str, dict[str, int]] = {}
    ncmp = 0
    for task, out in res:
        if out.get("status") != "ok":
            if out.get("status") in ("timeout", "crash"):
                ctx.extra.setdefault("items_timed_out_or_crashed", []).append(task["args"].get("indices"))
                continue
            raise MachineryError(f"C10 worker failed: {str(out)[:700]}")
        if task["fn"].endswith("_case_job"):
            kr = out["result"]
            ctx.cov["evaluations"] += kr["n"]
            ctx.extra["template_cases_run"] = ctx.extra.get("template_cases_run", 0) + kr["n"]
            if kr["spec_vs_jax"]:
                raise MachineryError("J2O_Transform disagrees with JAX (specification bug): " + json.dumps(kr["spec_vs_jax"][:2])[:600])
            for ef in kr["export_failed"]:
                ctx.violation({"engine": "transform_template", "template": ef["template"], "what": "export_failed"}, f"transformed template {ef['template']} failed to export: {ef['error']}", ef)
            for mm in kr["mismatch"]:
                ctx.violation({"engine": "transform_template", "template": mm["template"], "case": mm["case"]}, f"{mm['template']} on {mm['case']}: ORT {mm['ort']} but JAX (and the specification) {mm['jax']}", mm)
            for c in task["args"]["cases"][:200]:
                ctx.count(("template", json.dumps(c["c"], sort_keys=True)), n=0)
            continue
        for rec in out["result"]:
            if rec.get("status") != "ok":
                continue
            for tr, pr in rec["per_transform"].items():
                st = stats.setdefault(tr, {})
                st[pr["status"]] = st.get(pr["status"], 0) + 1
                if pr["status"] == "compared":
                    ncmp += 1
                    ctx.count(("corpus", rec["key"], tr), nontrivial=True)
                    if pr.get("problem"):
                        ctx.violation({"engine": "transform_corpus", "testcase": rec["key"], "transform": tr}, f"{tr}({rec['key']}): exported model differs from JAX: {pr['problem']}", rec)
                elif pr["status"] == "ort_failed":
                    ctx.violation({"engine": "transform_corpus", "testcase": rec["key"], "transform": tr, "what": "invalid_model"}, f"{tr}({rec['key']}): exported model does not run: {pr.get('why')}", rec)
            if len(ctx.cov["samples"]) < 8 and any(p["status"] == "compared" for p in rec["per_transform"].values()):
                ctx.sample({"testcase": rec["key"], "transforms": {t: p["status"] + (": " + p["problem"] if p.get("problem") else "") for t, p in rec["per_transform"].items()}})
    from harness.checks.c01 import axis_operator_replay

    ncmp += axis_operator_replay(ctx, "vmap", "axis_vmap")
    ncmp += broadcast_batch_replay(ctx)
    ctx.extra["corpus_transform_status"] = stats
    ctx.cov["traces_validated_against_impl"] = ncmp
    ctx.cov["rule"] = "one evaluation = one transformed callable exported and executed in ORT vs JAX's own evaluation of the transformed callable (or one exact template case); export failures of T(f) are counted, not alarmed"
    ctx.assumptions += ["JAX's evaluation of T(f) is the reference; transformed callables JAX itself rejects are outside the domain", "an export of T(f) that raises is loud (counted under export_failed), only a produced model that differs is a violation"]
