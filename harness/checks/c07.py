"""C07 — ONNX function boundaries are transparent; bodies are shared only when equal.

A. TLC: J2O_FnDedup over all sequences of <= 2 (quick) / 3 (thorough) call sites, both registry modes:
   DedupSound, CallArity, DistinctWhenDifferent; the deviation spec (identity reuse, mutation between
   calls) must be rejected (self test).
B. spec -> code: every emitted configuration is instantiated with real decorated targets (plain class,
   nnx.Module, nnx.Module with nested weights, eqx.Module, free function; shared and unique mode) and
   exported: ORT(decorated) = ORT(undecorated) = JAX per call site, #definitions >= #distinct
   functions, call-node arity / domain import match the definition.
"""

from __future__ import annotations

import json
import random

from harness.common import Ctx, MachineryError, cleanup_tlc, parse_tlc_values, run_tlc, tlc_must_pass
from harness.pool import run_tasks

LEVEL = "model_checking"


def _job(items):
    from harness.fnjobs import run_configs

    return run_configs(items)


def run(ctx: Ctx) -> None:
    from harness.fnjobs import KINDS

    rng = random.Random(ctx.seed)
    cfgs = []
    for u in ("TRUE", "FALSE"):
        r = run_tlc("MC_FnDedup", f"MC_FnDedup_{u}.cfg" if ctx.quick else f"MC_FnDedup3_{u}.cfg", timeout=2400, workers=8)
        tlc_must_pass(r, f"J2O_FnDedup[{u}]")
        ctx.add_tlc(r, f"J2O_FnDedup unique={u}")
        if r.violated:
            raise MachineryError(f"J2O_FnDedup: {r.violated} violated")
        cleanup_tlc(r)
        re_ = run_tlc("MC_FnDedup", f"MC_FnDedupEmit_{u}.cfg", timeout=1200, workers=1, coverage=False)
        cfgs += parse_tlc_values(re_.output.splitlines())
        cleanup_tlc(re_)
    rp = run_tlc("MC_FnDedup", "MC_FnDedupDevPerTarget.cfg", timeout=600, coverage=False)
    if rp.violated != "ResolvedSound":
        raise MachineryError(f"self test: name counters keyed by target class should violate ResolvedSound, got {rp.violated!r}")
    cleanup_tlc(rp)
    rd = run_tlc("MC_FnDedup", "MC_FnDedupDev.cfg", timeout=600, coverage=False)
    ctx.extra["selftest_deviations_rejected"] = bool(rd.violated)
    if not rd.violated:
        raise MachineryError("self test: identity reuse / mutation deviations are not rejected")
    cleanup_tlc(rd)
    if not cfgs:
        raise MachineryError("no call-site configurations emitted")
    ctx.extra["configurations_enumerated"] = len(cfgs)
    two = [c for c in cfgs if len(c["sites"]) == 2]
    two.sort(key=lambda c: json.dumps(c, sort_keys=True))
    rng.shuffle(two)
    # prefer pairs that differ in exactly the dimensions a key must separate
    def interesting(c):
        a, b = c["sites"]
        return (a["inst"] != b["inst"]) or a["kw"] != b["kw"] or a["shp"] != b["shp"] or a["dt"] != b["dt"]
    def must(c):
        # the neighbourhoods the added invariants are about: keyword order (CallBinding) and
        # definitions allocated in sibling function bodies (NamesUnique / ResolvedSound)
        a, b = c["sites"]
        base = a["shp"] == b["shp"] == 1 and a["dt"] == b["dt"] == 1
        kwo = base and {a["kw"], b["kw"]} <= {"ab", "ba"} and a["scope"] == b["scope"] == "top"
        sib = base and a["scope"] == b["scope"] == "body" and a["kw"] in ("none", "s1") and b["kw"] in ("none", "s1")
        mixed = base and {a["scope"], b["scope"]} == {"top", "body"} and a["kw"] == b["kw"] == "none"
        sig = a["inst"] == b["inst"] and a["kw"] == b["kw"] == "none" and a["scope"] == b["scope"] == "top" and (a["shp"], a["dt"]) != (b["shp"], b["dt"])
        homonym = c["tab"] == "homonym" and a["inst"] != b["inst"] and a["kw"] == b["kw"] == "none" and base
        return kwo or sib or mixed or sig or homonym
    musts = [c for c in two if must(c)]
    rest = [c for c in two if not must(c)]
    pick = musts[: (60 if ctx.quick else 10**6)] + [c for c in rest if interesting(c)][: (50 if ctx.quick else 1500)] + [c for c in rest if not interesting(c)][: (8 if ctx.quick else 100)]
    ctx.extra["configurations_must"] = len(musts)
    items = []
    for i, c in enumerate(pick):
        kinds = KINDS if not ctx.quick else [KINDS[i % len(KINDS)], KINDS[(i + 2) % len(KINDS)]]
        if c["tab"] == "homonym":
            kinds = ["plain"]      # homonymous decorated classes are built for the plain kind
        for kd in kinds:
            items.append({"cfg": c, "kind": kd})
    n = 14
    chunks = [items[i::n] for i in range(n)]
    res = run_tasks([{"fn": "harness.checks.c07:_job", "args": {"items": c}, "timeout": 2400} for c in chunks if c], nworkers=n, timeout=2400)
    done = 0
    stats = {}
    for task, out in res:
        if out.get("status") != "ok":
            raise MachineryError(f"function replay worker failed: {str(out)[:700]}")
        for it, rec in zip(task["args"]["items"], out["result"]):
            stats[rec.get("status", "?")] = stats.get(rec.get("status", "?"), 0) + 1
            if rec.get("status") in ("kind_unavailable", "not_applicable", "reference_failed"):
                continue
            done += 1
            c = it["cfg"]
            ctx.count(json.dumps({"cfg": {k: c[k] for k in ("tab", "unique", "sites")}, "kind": it["kind"]}, sort_keys=True), nontrivial=c["sems"] > 1 or c["ndefs"] < len(c["sites"]))
            for p in rec["problems"]:
                a, b = c["sites"]
                ctx.violation({"engine": "fn_replay", "kind": it["kind"], "unique": c["unique"], "tab": c["tab"], "kw": [a["kw"], b["kw"]], "scope": [a.get("scope", "top"), b.get("scope", "top")], "same_inst": a["inst"] == b["inst"], "what": p.split(":")[-1].strip()[:50]}, f"[{it['kind']}, unique={c['unique']}, table={c['tab']}, sites={c['sites']}] {p}", {"cfg": c, "rec": rec})
            if len(ctx.cov["samples"]) < 8 and rec.get("status") == "ok":
                ctx.sample({"kind": it["kind"], "unique": c["unique"], "table": c["tab"], "sites": c["sites"], "spec_defs": c["ndefs"], "real_defs": rec.get("ndefs"), "distinct_functions": c["sems"], "problems": rec["problems"]})
    ctx.extra["replay_status"] = stats
    ctx.cov["traces_validated_against_impl"] = done
    ctx.cov["rule"] = "one evaluation = one call-site configuration x target kind exported decorated and undecorated and executed in ORT; non-trivial = the sites compute different functions or share a definition"
    ctx.assumptions += ["JAX eager on the undecorated twin classes is the reference", "two tensor shapes, two dtypes, seven keyword-argument forms, four instance tables (incl. homonymous classes)"]
