"""C02 — the graph optimizer never changes what a model computes.

A. TLC: J2O_GraphRewrite over every pattern neighbourhood (J2O_Patterns): OutputsPreserved in every
   state, i.e. after every prefix of rewrites; the deviation spec must be rejected (self test).
B. spec -> code: every initial graph is built as a real ONNX model and pushed through the REAL passes
   one by one; ORT before vs after every pass that changed the model.
C. code -> spec: real corpus exports, model serialised before the pipeline and after every changing
   pass, ORT on all snapshots; the OptBegin/OptPass/OptEnd traces are validated by J2O_OptTrace.
"""

from __future__ import annotations

import json
import random
from typing import Any

from harness.common import WORK, Ctx, MachineryError, cleanup_tlc, parse_tlc_values, run_tlc, tla, tlc_must_pass
from harness.pool import run_tasks

LEVEL = "model_checking"
STANDINS = {
    "J2O_OptFacts.tla": '---- MODULE J2O_OptFacts ----\nPassNames == <<"name_fix">>\n====\n',
    "J2O_VocabFacts.tla": '---- MODULE J2O_VocabFacts ----\nEXTENDS TLC\nLayoutSets == ("A" :> {"Relu"})\nClassOf == ("Relu" :> "pointwise")\nIntPreserving == {"Reshape"}\nIntClassOf == ("Reshape" :> "selects_first")\n====\n',
}


def _replay_job(graphs):
    from harness.graphreplay import replay_graphs

    return replay_graphs(graphs)


def _vocab_facts_job():
    from harness.vocabreplay import impl_sets, op_class

    sets = impl_sets()
    from harness.vocabreplay import int_class

    return {"sets": sets, "classes": {o: op_class(o) for v in sets.values() for o in v}, "int_classes": {o: int_class(o) for k, v in sets.items() if "INTEGER_VALUE" in k for o in v}}


def _vocab_replay_job(graphs):
    from harness.vocabreplay import replay_vocab

    return replay_vocab(graphs)


def vocabulary_sweep(ctx: Ctx, prop: str = "C02") -> int:
    """The op-name sets the real passes consult are facts: TLC (J2O_Vocab) checks every member commutes
    with a layout change by its operator class; every member is instantiated in the pattern
    neighbourhoods and pushed through the real passes with ORT before / after."""
    from harness.vocabreplay import vocab_graphs

    fj = run_tasks([{"fn": "harness.checks.c02:_vocab_facts_job", "args": {}, "timeout": 600}], nworkers=1, timeout=600)[0][1]
    if fj.get("status") != "ok":
        raise MachineryError(f"vocabulary facts job failed: {str(fj)[:400]}")
    sets, classes = fj["result"]["sets"], fj["result"]["classes"]
    layout = {k: v for k, v in sets.items() if "INTEGER_VALUE" not in k}
    ctx.extra["optimizer_vocabularies"] = {k: len(v) for k, v in sets.items()}
    ctx.extra["vocabulary_unclassified_ops"] = sorted(o for o, c in classes.items() if c == "unknown")
    if layout:
        facts = ("---- MODULE J2O_VocabFacts ----\nEXTENDS TLC\nLayoutSets == " + tla({k: set(v) for k, v in layout.items()})
                 + "\nClassOf == " + tla({o: classes[o] for v in layout.values() for o in v})
                 + "\nIntPreserving == " + tla(set(fj["result"]["int_classes"])) + "\nIntClassOf == " + (tla(fj["result"]["int_classes"]) if fj["result"]["int_classes"] else '("none" :> "unknown")') + "\n====\n")
        rv = run_tlc("J2O_Vocab", "MC_Vocab.cfg", gen_files={"J2O_VocabFacts.tla": facts}, timeout=900, coverage=False)
        tlc_must_pass(rv, "J2O_Vocab")
        ctx.add_tlc(rv, "J2O_Vocab")
        if rv.violated == "ClassSemantics":
            raise MachineryError("J2O_Vocab: class semantics self-test failed")
        if rv.violated:
            m = [l for l in rv.output.splitlines() if "pick =" in l]
            ctx.extra["vocabulary_tlc_counterexample"] = m[0].strip() if m else rv.violated
        cleanup_tlc(rv)
    graphs = vocab_graphs(sets, ctx.quick)
    n = 14
    chunks = [graphs[i::n] for i in range(n)]
    res = run_tasks([{"fn": "harness.checks.c02:_vocab_replay_job", "args": {"graphs": c}, "timeout": 1500} for c in chunks if c], nworkers=n, timeout=1500)
    done = unb = confirmed = 0
    for task, out in res:
        if out.get("status") != "ok":
            raise MachineryError(f"vocabulary replay worker failed: {str(out)[:600]}")
        for rec in out["result"]:
            done += 1
            if rec["status"] == "unbuildable":
                unb += 1
                ctx.extra.setdefault("vocabulary_uninstantiable", {})[rec["sig"]["label"]] = rec["why"][:100]
                continue
            g = task["args"]["graphs"][rec["i"]]
            ctx.count(("vocab", json.dumps(rec["sig"], sort_keys=True), json.dumps([g["sh"], g.get("perm"), g.get("mid")])), nontrivial=bool(rec["changed_passes"]))
            if rec["status"] == "violation":
                confirmed += 1
                sig = {"engine": "vocab_replay", "op": rec["sig"]["op"], "pattern": rec["sig"]["pattern"], "first_bad_pass": rec["bad"]["pass"], "how": rec["bad"]["how"]}
                ctx.violation(sig, f"optimizer pass {rec['bad']['pass']} moved {rec['sig']['label']} (listed in {rec['sig']['sets']}) across a {'Transpose' if rec['sig']['pattern'] == 'tpair' else 'Reshape'} pair and changed the output ({rec['bad']['how']}: {rec['bad']['detail'][:100]})", {"graph": g, "bad": rec["bad"]})
    ctx.extra["vocabulary_graphs_replayed"] = done
    ctx.extra["vocabulary_graphs_unbuildable"] = unb
    if ctx.extra.get("vocabulary_tlc_counterexample") and not confirmed:
        ctx.extra["conformance_drift_vocab"] = "J2O_Vocab reports a non-commuting member but no real rewrite changed an output (the set may not be used for folding)"
    return done


def _pass_names_job():
    from jax2onnx.converter import ir_optimizations as io

    return [p.name for p in io._OPTIMIZER_PASSES]


def _corpus_index_job():
    from harness import corpus as C

    return C.index()


def emit_patterns(tier: str) -> list[dict[str, Any]]:
    cfg = "MC_GraphEmit.cfg" if tier == "quick" else "MC_GraphEmitThorough.cfg"
    r = run_tlc("MC_GraphEmit", cfg, timeout=1800, coverage=False, workers=1)
    vals = parse_tlc_values(r.output.splitlines())
    cleanup_tlc(r)
    if not vals:
        raise MachineryError("TLC emitted no pattern graphs: " + r.output[-600:])
    return vals


def replay_patterns(ctx: Ctx, graphs: list[dict[str, Any]], prop: str = "C02", kinds: set[str] | None = None) -> int:
    if kinds is not None:
        graphs = [g for g in graphs if g["kind"] in kinds]
    n = 14
    chunks = [graphs[i::n] for i in range(n)]
    res = run_tasks([{"fn": "harness.checks.c02:_replay_job", "args": {"graphs": c}, "timeout": 1500} for c in chunks if c], nworkers=n, timeout=1500)
    done = 0
    unb = 0
    for task, out in res:
        if out.get("status") != "ok":
            raise MachineryError(f"graph replay worker failed: {str(out)[:600]}")
        for rec in out["result"]:
            g = task["args"]["graphs"][rec["i"]]
            done += 1
            if rec["status"] == "unbuildable":
                unb += 1
                ctx.extra.setdefault("unbuildable_examples", [])
                if len(ctx.extra["unbuildable_examples"]) < 3:
                    ctx.extra["unbuildable_examples"].append({"sig": rec["sig"], "why": rec["why"]})
                continue
            ctx.count(("graph", json.dumps(rec["sig"], sort_keys=True), json.dumps(g["ins"], sort_keys=True), json.dumps([n_.get("perm") for n_ in g["nodes"]])), nontrivial=bool(rec["changed_passes"]))
            if rec["status"] == "violation":
                sig = {"engine": "graph_replay", **rec["sig"], "first_bad_pass": rec["bad"]["pass"], "how": rec["bad"]["how"]}
                ctx.violation(sig, f"optimizer pass {rec['bad']['pass']} changed a graph output ({rec['bad']['how']}: {rec['bad']['detail'][:120]})", {"graph": g, "bad": rec["bad"]})
            if rec["changed_passes"] and len(ctx.cov["samples"]) < 6:
                ctx.sample({"kind": "pattern_graph", "sig": rec["sig"], "passes_that_changed_it": rec["changed_passes"], "nodes": [rec["nodes_before"], rec["nodes_after"]], "outputs_equal": rec["status"] == "ok"})
    ctx.extra["pattern_graphs_replayed"] = done
    ctx.extra["pattern_graphs_unbuildable"] = unb
    if unb > done // 10:
        raise MachineryError(f"{unb} of {done} pattern graphs could not be built as valid ONNX models")
    return done


def corpus_optimizer_traces(ctx: Ctx, nsel: int, rng: random.Random, prop: str = "C02") -> int:
    from harness.optjobs import corpus_opt_job  # noqa: F401  (import check)

    idx = run_tasks([{"fn": "harness.checks.c02:_corpus_index_job", "args": {}, "timeout": 600}], nworkers=1, timeout=600)[0][1]
    if idx.get("status") != "ok":
        raise MachineryError(f"corpus index failed: {str(idx)[:500]}")
    items = idx["result"]
    ctx.extra["corpus_variants"] = len(items)
    sel = [it["i"] for it in items if not it["skip_numeric"]]
    rng.shuffle(sel)
    sel = sorted(sel[:nsel])
    n = 14
    chunks = [sel[i::n] for i in range(n)]
    res = run_tasks([{"fn": "harness.optjobs:corpus_opt_job", "args": {"indices": c}, "timeout": 2400} for c in chunks if c], nworkers=n, timeout=2400)
    names = run_tasks([{"fn": "harness.checks.c02:_pass_names_job", "args": {}}], nworkers=1, timeout=300)[0][1]["result"]
    events = []
    stats = {"ok": 0, "export_failed": 0, "unrunnable_before": 0, "no_snapshot": 0, "violation": 0}
    changed_any = 0
    for task, out in res:
        if out.get("status") != "ok":
            raise MachineryError(f"corpus optimizer worker failed: {str(out)[:600]}")
        for rec in out["result"]:
            stats[rec["status"]] = stats.get(rec["status"], 0) + 1
            if rec["status"] in ("export_failed", "unrunnable_before", "no_snapshot"):
                continue
            changed_any += int(bool(rec.get("changed")))
            ctx.count(("corpus", rec["key"]), nontrivial=bool(rec.get("changed")))
            known = False
            if rec["status"] == "violation":
                bad = [e for e in rec["events"] if not e["equiv"]][0]
                nb = len(ctx.violations)
                ctx.violation({"engine": "corpus_optimizer", "testcase": rec["key"], "first_bad_pass": bad["name"]}, f"optimizer pass {bad['name']} changed the outputs of export {rec['key']}: {bad.get('how')}", rec)
                known = len(ctx.violations) == nb
            events.append({"tid": rec["i"], "ev": "OptBegin", "idx": 0, "name": "", "equiv": True})
            for e in rec["events"]:
                events.append({"tid": rec["i"], "ev": "OptPass", "idx": e["idx"], "name": e["name"], "equiv": bool(e["equiv"]) or known})
            events.append({"tid": rec["i"], "ev": "OptEnd", "idx": 0, "name": "", "equiv": True})
            if rec.get("changed") and len(ctx.cov["samples"]) < 10:
                ctx.sample({"kind": "corpus_export", "testcase": rec["key"], "passes_that_changed_it": rec["changed"], "equivalent_after_each": rec["status"] == "ok"})
    ctx.extra["corpus_exports"] = stats
    ctx.extra["corpus_exports_changed_by_optimizer"] = changed_any
    facts = "---- MODULE J2O_OptFacts ----\nPassNames == " + tla(names) + "\n====\n"
    tdir = WORK / "traces"
    tdir.mkdir(parents=True, exist_ok=True)
    tf = tdir / f"opt_{prop}_{ctx.seed}.ndjson"
    tf.write_text("".join(json.dumps(e, sort_keys=True) + "\n" for e in events))
    rt = run_tlc("J2O_OptTrace", "OptTrace.cfg", gen_files={"J2O_OptFacts.tla": facts}, timeout=900, workers=1, env={"TRACE_FILE": str(tf)}, coverage=False)
    ctx.add_tlc(rt, "J2O_OptTrace")
    ctx.extra["opt_trace_events"] = len(events)
    ctx.extra["opt_trace_accepted_by_tlc"] = bool(rt.ok and not rt.violated)
    if rt.violated and not ctx.violations:
        ctx.violation({"engine": "opt_trace", "invariant": rt.violated}, f"J2O_OptTrace invariant {rt.violated} violated", rt.output[-1200:])
    elif not rt.ok and not rt.violated:
        ctx.extra["conformance_drift"] = "optimizer trace not accepted by strict trace spec (pass order/name differs from extracted registry): " + rt.output[-300:]
    cleanup_tlc(rt)
    tf.unlink(missing_ok=True)
    return stats.get("ok", 0) + stats.get("violation", 0)


def run(ctx: Ctx) -> None:
    rng = random.Random(ctx.seed)
    # A
    r = run_tlc("J2O_GraphRewrite", "MC_Graph.cfg" if ctx.quick else "MC_GraphThorough.cfg", timeout=3000)
    tlc_must_pass(r, "J2O_GraphRewrite")
    ctx.add_tlc(r, "J2O_GraphRewrite")
    if r.violated:
        raise MachineryError(f"J2O_GraphRewrite: {r.violated} violated by the specified (guarded) rules")
    cleanup_tlc(r)
    if not ctx.quick:
        rd = run_tlc("J2O_GraphRewrite", "MC_GraphDev.cfg", timeout=1200, coverage=False)
        ctx.extra["selftest_deviation_rules_rejected"] = bool(rd.violated)
        if not rd.violated:
            raise MachineryError("self test: deviation rules are not rejected by OutputsPreserved")
        cleanup_tlc(rd)
    # B
    graphs = emit_patterns(ctx.tier)
    n = replay_patterns(ctx, graphs)
    n += vocabulary_sweep(ctx)
    # C
    m = corpus_optimizer_traces(ctx, 260 if ctx.quick else 100000, rng)
    ctx.cov["traces_validated_against_impl"] = n + m
    ctx.cov["rule"] = (
        "distinct = distinct pattern graphs (kind, parameters, shapes, perms) and corpus testcases; "
        "non-trivial = at least one real optimizer pass changed the model"
    )
    ctx.assumptions += ["ORT (optimisations disabled) is the executable semantics of ONNX", "pattern graphs use exact-in-float inputs (halves), comparisons are bit-exact; corpus comparisons allow 1e-6 relative noise only for fused float ops"]
