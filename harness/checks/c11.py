"""C11 — the requested opset is honoured.

A. facts: the schema table of the installed onnx (versions, attributes, arity per operator) becomes a
   TLA+ constant; J2O_Opset (TLC) validates the node census of REAL exports at every target opset:
   each operator / attribute / input form exists at the declared opset, nothing newer.
B. the same exports must pass the ONNX checker and load in ORT (opset 27: ORT 1.30 stops at 26, recorded
   as unobserved), and compute the same outputs as the default-opset export; an export that cannot be
   expressed at an opset must raise.
"""

from __future__ import annotations

import json
import random
from typing import Any

from harness.common import WORK, Ctx, MachineryError, cleanup_tlc, run_tlc, tla
from harness.pool import run_tasks

LEVEL = "model_checking"
STANDINS = {"J2O_OpsetFacts.tla": '---- MODULE J2O_OpsetFacts ----\nEXTENDS Integers, TLC\nSchema == ("Add" :> <<[v |-> 1, attrs |-> {"axis"}, minin |-> 2, maxin |-> 2]>>)\n====\n'}


def _facts_job(ops):
    from harness.opsetjobs import schema_facts

    return schema_facts(set(ops))


def _sensitive_job():
    from harness.opsetjobs import opset_sensitive_keys

    return opset_sensitive_keys()


def _newest_job():
    from onnx import defs

    return int(defs.onnx_opset_version())


def run(ctx: Ctx) -> None:
    rng = random.Random(ctx.seed)
    newest = run_tasks([{"fn": "harness.checks.c11:_newest_job", "args": {}}], nworkers=1, timeout=300)[0][1]["result"]
    opsets = [21, 26] if ctx.quick else list(range(21, newest + 1))
    if ctx.quick and newest not in opsets and ctx.seed % 2 == 1:
        opsets.append(newest)
    ctx.extra["target_opsets"] = opsets + ["default"]
    ctx.extra["newest_opset_of_installed_onnx"] = newest
    idx = run_tasks([{"fn": "harness.checks.c02:_corpus_index_job", "args": {}, "timeout": 600}], nworkers=1, timeout=600)[0][1]
    if idx.get("status") != "ok":
        raise MachineryError(f"corpus index failed: {str(idx)[:300]}")
    items = [it for it in idx["result"] if not (ctx.quick and it["key"].startswith("examples"))]
    alli = [it["i"] for it in items]
    rng.shuffle(alli)
    sel = sorted(alli[: (150 if ctx.quick else 10**9)])
    n = 14
    res = run_tasks([{"fn": "harness.opsetjobs:corpus_job", "args": {"indices": c, "opsets": opsets}, "timeout": 3500} for c in [sel[i::n] for i in range(n)] if c], nworkers=n, timeout=3500)
    events = []
    ops_seen: set[str] = set()
    nexp = 0
    explicit_rejections = 0
    tid = 0
    for task, out in res:
        if out.get("status") != "ok":
            raise MachineryError(f"C11 worker failed: {str(out)[:700]}")
        for rec in out["result"]:
            if rec.get("status") != "ok":
                continue
            base = str(rec["base_opset"])
            base_ok = "export_error" not in rec["per_opset"].get(base, {"export_error": 1})
            for ops, pr in rec["per_opset"].items():
                if "export_error" in pr:
                    if base_ok:
                        explicit_rejections += 1   # loud failure at this opset: allowed by the property
                    continue
                nexp += 1
                tid += 1
                ctx.count((rec["key"], ops), nontrivial=ops != base)
                sigbase = {"engine": "opset", "testcase": rec["key"], "opset": int(ops)}
                if pr["declared"] != int(ops):
                    ctx.violation({**sigbase, "what": "declared"}, f"{rec['key']} exported for opset {ops} declares opset {pr['declared']}", pr.get("declared"))
                bad = False
                if pr["checker"] != "ok":
                    ctx.violation({**sigbase, "what": "checker"}, f"{rec['key']} at opset {ops}: checker: {pr['checker']}", pr["checker"])
                    bad = True
                if pr["ort"] == "invalid":
                    ctx.violation({**sigbase, "what": "ort_load"}, f"{rec['key']} at opset {ops}: ORT load: {pr['ort_why']}", pr["ort_why"])
                    bad = True
                if pr.get("run_error") and ops != base and "run_error" not in rec["per_opset"].get(base, {}):
                    ctx.violation({**sigbase, "what": "run_error"}, f"{rec['key']} at opset {ops} fails at run time while its default-opset export runs: {pr['run_error']}", pr["run_error"])
                if pr.get("equal_to_default") is False:
                    ctx.violation({**sigbase, "what": "differs_from_default_opset"}, f"{rec['key']} at opset {ops} computes different outputs than at its default opset {base}", None)
                if not bad:
                    for e in pr["events"]:
                        ops_seen.add(e["op"])
                        events.append({"tid": tid, **e})
                if len(ctx.cov["samples"]) < 8 and ops != base:
                    ctx.sample({"export": rec["key"], "opset": int(ops), "nodes": len(pr["events"]), "checker": pr["checker"], "ort": pr["ort"], "equal_to_default": pr.get("equal_to_default")})
    # ---- context sweep: opset-branching lowerings (facts) inside a function body / a cond branch, all opsets,
    # with steering values for integer scalar operands
    sens = run_tasks([{"fn": "harness.checks.c11:_sensitive_job", "args": {}, "timeout": 900}], nworkers=1, timeout=900)[0][1]
    if sens.get("status") != "ok":
        raise MachineryError(f"opset-sensitive facts job failed: {str(sens)[:400]}")
    sinfo = sens["result"]
    ctx.extra["opset_branching_plugins"] = sinfo["files"]
    sidx = sorted(sinfo["indices"])
    if ctx.quick:
        # one single-precision testcase per component and a sample of the rest
        # every component keeps up to 8 testcases (all of the small ones), chosen by the seed
        rng.shuffle(sidx)
        per: dict[str, int] = {}
        keep = []
        for i_ in sidx:
            c_ = sinfo["component_of"].get(str(i_), "?")
            if per.get(c_, 0) < 8:
                per[c_] = per.get(c_, 0) + 1
                keep.append(i_)
        sidx = sorted(keep)
    all_opsets = list(range(21, newest + 1))
    cres = run_tasks([{"fn": "harness.opsetjobs:context_job", "args": {"indices": c, "opsets": all_opsets}, "timeout": 3000} for c in [sidx[i::n] for i in range(n)] if c], nworkers=n, timeout=3000)
    nctx = 0
    for task, out in cres:
        if out.get("status") != "ok":
            if out.get("status") in ("timeout", "crash"):
                ctx.extra["context_tasks_timed_out"] = ctx.extra.get("context_tasks_timed_out", 0) + 1
                continue
            raise MachineryError(f"C11 context worker failed: {str(out)[:700]}")
        for rec in out["result"]:
            exported = [o_ for o_, pr in rec["per_opset"].items() if "export_error" not in pr]
            for ops, pr in rec["per_opset"].items():
                if "export_error" in pr:
                    continue
                nctx += 1
                nexp += 1
                tid += 1
                ctx.count((rec["key"], rec["context"], ops), nontrivial=True)
                sigbase = {"engine": "opset_context", "testcase": rec["key"], "context": rec["context"], "opset": int(ops)}
                bad = False
                if pr["checker"] != "ok":
                    ctx.violation({**sigbase, "what": "checker"}, f"{rec['key']} in a {rec['context']} at opset {ops}: checker: {pr['checker']}", pr["checker"])
                    bad = True
                if pr["ort"] == "invalid":
                    ctx.violation({**sigbase, "what": "ort_load"}, f"{rec['key']} in a {rec['context']} at opset {ops}: ORT load: {pr['ort_why']}", pr["ort_why"])
                    bad = True
                for mm in pr.get("mismatch", [])[:1]:
                    ctx.violation({**sigbase, "what": mm["what"]}, f"{rec['key']} in a {rec['context']} at opset {ops} on inputs {mm['inputs']}: {mm['what']} {mm.get('detail', 'differs from JAX')}", mm)
                if not bad:
                    for e in pr["events"]:
                        ops_seen.add(e["op"])
                        events.append({"tid": tid, **e})
    ctx.extra["context_exports"] = nctx
    ctx.extra["exports_censused"] = nexp
    ctx.extra["explicit_rejections_at_some_opset"] = explicit_rejections
    facts = run_tasks([{"fn": "harness.checks.c11:_facts_job", "args": {"ops": sorted(ops_seen)}, "timeout": 600}], nworkers=1, timeout=600)[0][1]
    if facts.get("status") != "ok":
        raise MachineryError(f"schema facts job failed: {str(facts)[:400]}")
    schema = facts["result"]
    rows = []
    for op, vers in sorted(schema.items()):
        rows.append(f'{tla(op)} :> <<' + ", ".join(f'[v |-> {v["v"]}, attrs |-> {tla(set(v["attrs"]))}, minin |-> {v["minin"]}, maxin |-> {v["maxin"]}]' for v in vers) + ">>")
    ftext = "---- MODULE J2O_OpsetFacts ----\nEXTENDS Integers, TLC\nSchema == (" + " @@\n  ".join(rows) + ")\n====\n" if rows else STANDINS["J2O_OpsetFacts.tla"]
    tdir = WORK / "traces"
    tdir.mkdir(parents=True, exist_ok=True)
    tf = tdir / f"opset_{ctx.seed}.ndjson"
    if len(events) > 150000:
        events = events[:150000]
    tf.write_text("".join(json.dumps(e, sort_keys=True) + "\n" for e in events))
    rt = run_tlc("J2O_Opset", "OpsetTrace.cfg", gen_files={"J2O_OpsetFacts.tla": ftext}, timeout=2400, workers=1, env={"TRACE_FILE": str(tf)}, coverage=False)
    ctx.add_tlc(rt, "J2O_Opset")
    ctx.extra["node_events"] = len(events)
    ctx.extra["operators_in_schema_facts"] = len(schema)
    ctx.extra["census_accepted_by_tlc"] = bool(rt.ok and not rt.violated)
    if rt.violated:
        # locate with the python mirror (same rule)
        from harness.censusjobs import opset_census  # noqa: F401

        bad = _mirror(events, schema)
        ctx.violation({"engine": "opset_census", "op": bad["op"] if bad else "?", "declared": bad["declared"] if bad else 0, "what": bad["verdict"] if bad else "?"}, f"J2O_Opset: node {bad} is not well formed at the declared opset", bad)
    elif not rt.ok:
        raise MachineryError("opset trace validation failed to run: " + rt.output[-600:])
    cleanup_tlc(rt)
    tf.unlink(missing_ok=True)
    ctx.cov["traces_validated_against_impl"] = nexp
    ctx.cov["rule"] = "one evaluation = one real export at one target opset (census + checker + ORT load + equality with the default-opset outputs); non-trivial = an opset other than the testcase's default"
    ctx.assumptions += ["onnx.defs of the installed onnx is the schema authority", f"ORT 1.30 loads opsets <= 26: opset {newest} exports are censused and checked but not executed"]


def _mirror(events, schema):
    for e in events:
        vers = [v for v in schema.get(e["op"], []) if v["v"] <= e["declared"]]
        if e["op"] not in schema:
            return {**e, "verdict": "unknown_operator"}
        if not vers:
            return {**e, "verdict": "operator_newer_than_declared_opset"}
        s = max(vers, key=lambda v: v["v"])
        if not set(e["attrs"]) <= set(s["attrs"]):
            return {**e, "verdict": "attribute_not_in_declared_opset"}
        if e["nin"] > s["maxin"] or e["nin"] < s["minin"]:
            return {**e, "verdict": "input_arity"}
    return None
