"""C04 — symbolic-shape exports are correct for every binding of the symbols.

A. facts: for every enumerated dimension expression the integer ONNX program the real converter
   emitted for it is extracted node by node from a real export;
B. TLC: J2O_DimExpr executes every extracted program (one ONNX node per step, ONNX integer
   semantics) for every binding in {1,2,3,5,7}^2 against the AST's mathematical value;
C. binding to reality: the same exports run in ORT at every binding, three-way comparison
   ORT = JAX eager = mathematics; templates that use dims inside loop bodies, function bodies, NCHW
   inputs, reshapes of two symbols ... are exported once and run at every binding; dynamic corpus
   testcases are run at bindings {1,2,3,5,7}.
"""

from __future__ import annotations

import json
import random
import time
from typing import Any

from harness.common import Ctx, MachineryError, cleanup_tlc, run_tlc, tla, tlc_must_pass
from harness.pool import run_tasks

LEVEL = "model_checking"
STANDINS = {
    "J2O_DimFacts.tla": '---- MODULE J2O_DimFacts ----\nEXTENDS Integers, TLC\nSyms == {"B"}\nBindVals == {1}\nCases == {[id |-> 1, ast |-> [t |-> "sym", n |-> "B"], prog |-> <<[op |-> "Shape", ins |-> <<>>, src |-> "in_0", start |-> 0, stop |-> 1]>>, out |-> 1, inshapes |-> ("in_0" :> <<"B">>), fixed |-> <<>>]}\n====\n'
}


def _probe_job(asts):
    from harness.dimjobs import probe_batch

    return probe_batch(asts)


def _template_job(only=None, quick=False):
    from harness.dimjobs import template_runs

    return template_runs(only, quick)


def _corpus_dyn_job(indices, bindings=(1, 2, 3, 5, 7)):
    import numpy as np

    from harness import corpus as C
    from harness import onnxutil as U

    vs = C.variants()
    out = []
    for i in indices:
        tp = vs[i]
        rec: dict[str, Any] = {"i": i, "key": C.key_of(tp), "runs": [], "status": "ok"}
        try:
            model, fn = C.export(tp)
            sess = U.ort_session(model)
        except Exception as ex:  # noqa: BLE001
            rec["status"] = "export_or_load_failed"
            rec["why"] = f"{type(ex).__name__}: {str(ex)[:160]}"
            out.append(rec)
            continue
        double = bool(tp.get("_enable_double_precision_test_setting", False))
        for b in bindings:
            try:
                xs = C.author_inputs(tp, binding={"B": b})
                ref = C.jax_eval(fn, xs, tp.get("input_params", {}), double)
            except Exception:  # noqa: BLE001  (size outside the callable's own domain)
                continue
            try:
                feeds = C.feeds_for(model, xs, tp.get("input_params", {}), tp.get("inputs_as_nchw"))
                got = sess.run(None, feeds)
            except Exception as ex:  # noqa: BLE001
                rec["runs"].append({"B": b, "ok": False, "why": f"ORT: {str(ex)[:160]}"})
                continue
            nchw_out = set(tp.get("outputs_as_nchw") or [])
            ok = len(got) == len(ref)
            why = None if ok else f"output count {len(ref)} vs {len(got)}"
            if ok:
                for j, (g, r) in enumerate(zip(got, ref)):
                    r = np.asarray(r)
                    if j in nchw_out and r.ndim == 4:
                        r = np.transpose(r, (0, 3, 1, 2))
                    if np.iscomplexobj(r) and not np.iscomplexobj(g):
                        r = np.stack([r.real, r.imag], axis=-1)
                    if tuple(g.shape) != tuple(r.shape):
                        ok, why = False, f"output {j} shape {tuple(r.shape)} (JAX) vs {tuple(g.shape)} (ORT)"
                        break
            rec["runs"].append({"B": b, "ok": ok, "why": why})
        out.append(rec)
    return out


def _tla_ast(e) -> str:
    if e["t"] == "pow":
        return f'[t |-> "pow", a |-> {_tla_ast(e["a"])}, k |-> {e["k"]}]'
    if e["t"] == "sym":
        return f'[t |-> "sym", n |-> "{e["n"]}"]'
    if e["t"] == "const":
        return f'[t |-> "const", v |-> {e["v"]}]'
    return f'[t |-> "{e["t"]}", a |-> {_tla_ast(e["a"])}, b |-> {_tla_ast(e["b"])}]'


def _tla_prog(prog) -> str:
    items = []
    for nd in prog:
        if nd["op"] == "Shape":
            items.append(f'[op |-> "Shape", ins |-> <<>>, src |-> "{nd["src"]}", start |-> {nd["start"]}, stop |-> {nd["stop"]}]')
        elif nd["op"] == "Const":
            items.append(f'[op |-> "Const", ins |-> <<>>, val |-> {tla(nd["val"])}]')
        else:
            items.append(f'[op |-> "{nd["op"]}", ins |-> {tla(nd["ins"])}]')
    return "<<" + ", ".join(items) + ">>"


def _symshape_job(cases):
    from harness.symshapejobs import run_cases

    return run_cases(cases)


def symshape_replay(ctx: Ctx) -> None:
    """J2O_SymShape: laws of the shape algebra by TLC; every emitted case exported with symbols and run at every listed binding."""
    from harness.common import parse_tlc_values

    r = run_tlc("MC_SymShape", "MC_SymShape.cfg", timeout=900, workers=4)
    tlc_must_pass(r, "J2O_SymShape")
    ctx.add_tlc(r, "J2O_SymShape (ElementsPreserved, RankIndependentOfBinding, TileLaw, GrowLaw, AxisSpellings)")
    if r.violated:
        raise MachineryError(f"J2O_SymShape: {r.violated} violated")
    cleanup_tlc(r)
    for dev, inv in (("squeeze_all_ones", "RankIndependentOfBinding"), ("tile_positional", "TileLaw")):
        rd = run_tlc("MC_SymShape", f"MC_SymShapeDev_{dev}.cfg", timeout=600, workers=2, coverage=False)
        if rd.violated != inv:
            raise MachineryError(f"J2O_SymShape deviation {dev} should violate {inv} (non-vacuity), got {rd.violated!r}")
        cleanup_tlc(rd)
    re_ = run_tlc("MC_SymShape", "MC_SymShapeEmit.cfg", timeout=600, workers=1, coverage=False)
    cases = parse_tlc_values(re_.output.splitlines())
    cleanup_tlc(re_)
    if len(cases) < 60:
        raise MachineryError("J2O_SymShape emitted too few cases: " + re_.output[-400:])
    n = 6
    res = run_tasks([{"fn": "harness.checks.c04:_symshape_job", "args": {"cases": cases[i::n]}, "timeout": 1800} for i in range(n)], nworkers=n, timeout=1800)
    total = 0
    for task, out in res:
        if out.get("status") != "ok":
            raise MachineryError(f"symshape worker failed: {str(out)[:600]}")
        pr = out["result"]
        if pr["spec_vs_jax"]:
            raise MachineryError("J2O_SymShape disagrees with JAX eager (specification bug): " + json.dumps(pr["spec_vs_jax"][:2])[:600])
        total += pr["n"]
        for c_ in task["args"]["cases"]:
            ctx.count(("symshape", json.dumps(c_["c"], sort_keys=True)), nontrivial=True, n=len(c_["shapes"]))
        for ef in pr["export_failed"]:
            ctx.extra.setdefault("symshape_refused_loudly", []).append({"case": ef["case"], "error": ef["error"][:140]})
        for pb in pr["problems"]:
            c_ = pb["case"]
            ctx.violation({"engine": "symshape", "op": c_["op"], "insh": c_["insh"], "a": c_["a"], "r": c_["r"], "what": pb["what"], "B": pb["bind"]["B"], "N": pb["bind"]["N"]},
                          f"{c_['op']} (input {c_['insh']}, axes {c_['a']}, dims {c_['r']}; -1 = B, -2 = N, -3 = B*N, -9 = inferred) at binding B={pb['bind']['B']} N={pb['bind']['N']}: {pb['what']}: {pb['detail'][:200]}", pb)
    ctx.extra["symshape_cases"] = len(cases)
    ctx.extra["symshape_bindings_run"] = total
    ctx.sample({"kind": "symshape", "case": cases[0]["c"], "predicted_shapes": cases[0]["shapes"][:3]})


def run(ctx: Ctx) -> None:
    from harness.dimjobs import enumerate_asts

    rng = random.Random(ctx.seed)
    symshape_replay(ctx)
    t_phase = time.time()
    asts = enumerate_asts(ctx.tier, rng)
    ctx.extra["expressions_enumerated"] = len(asts)
    batches = [asts[i:i + 12] for i in range(0, len(asts), 12)]
    res = run_tasks([{"fn": "harness.checks.c04:_probe_job", "args": {"asts": b}, "timeout": 900} for b in batches], nworkers=14, timeout=900)
    cases = []
    uninterp = 0
    export_errors = []
    for task, out in res:
        if out.get("status") != "ok":
            raise MachineryError(f"dim probe worker failed: {str(out)[:600]}")
        rr = out["result"]
        if rr["export_error"]:
            export_errors.append(rr["export_error"])
            continue
        cases += rr["cases"]
    ctx.extra["probe_export_errors"] = export_errors[:5]
    if len(export_errors) > len(batches) // 2:
        raise MachineryError(f"most probe exports failed: {export_errors[:2]}")
    ctx.extra.setdefault('phase_s', {})['probe'] = round(time.time() - t_phase, 1); t_phase = time.time()
    # ---- TLC on extracted programs
    tla_cases = []
    for k, c in enumerate(cases, start=1):
        if c["facts"] is None:
            uninterp += 1
            continue
        tla_cases.append(
            f'[id |-> {k}, ast |-> {_tla_ast(c["ast"])}, prog |-> {_tla_prog(c["facts"]["prog"])}, out |-> {c["facts"]["out"]}, '
            'inshapes |-> ("in_0" :> <<"B", "N">>), fixed |-> <<>>]'
        )
    ctx.extra["programs_extracted"] = len(tla_cases)
    ctx.extra["programs_not_interpretable"] = uninterp
    if not tla_cases:
        raise MachineryError("no emitted dimension program could be extracted")
    facts = '---- MODULE J2O_DimFacts ----\nEXTENDS Integers, TLC\nSyms == {"B", "N"}\nBindVals == {1, 2, 3, 5, 7}\nCases == {\n' + ",\n".join(tla_cases) + "}\n====\n"
    r = run_tlc("J2O_DimExpr", "MC_DimExpr.cfg", gen_files={"J2O_DimFacts.tla": facts}, timeout=2400)
    tlc_must_pass(r, "J2O_DimExpr")
    ctx.add_tlc(r, "J2O_DimExpr")
    tlc_flag = r.violated
    ctx.extra["tlc_lowering_invariant"] = "violated" if tlc_flag else "holds"
    cleanup_tlc(r)
    ctx.extra['phase_s']['tlc'] = round(time.time() - t_phase, 1); t_phase = time.time()
    # ---- three-way comparison on the real exports (decisive)
    confirmed = 0
    for c in cases:
        bad = [row for row in c["rows"] if row["ort"] != row["jax"]]
        spec_bad = [row for row in c["rows"] if row["math"] != row["jax"]]
        ctx.count(("expr", json.dumps(c["ast"], sort_keys=True)), nontrivial=True, n=len(c["rows"]))
        if spec_bad:
            raise MachineryError(f"specification (mathematical Eval) disagrees with JAX on {c['ast']}: {spec_bad[0]}")
        if bad:
            confirmed += 1
            ops = sorted(_ops_in(c["ast"]))
            ctx.violation(
                {"engine": "dimexpr", "ops": ops, "negative_numerator": any(_neg_floordiv(c["ast"], {"B": row["B"], "N": row["N"]}) for row in bad)},
                f"dimension expression {_show(c['ast'])} evaluates to {bad[0]['ort']} in the exported model but JAX computes {bad[0]['jax']} at B={bad[0]['B']}, N={bad[0]['N']}",
                {"ast": c["ast"], "bad_rows": bad[:6]},
            )
    if tlc_flag and not confirmed:
        ctx.extra["conformance_drift"] = "TLC flags an extracted program but ORT agrees with JAX on every binding"
    ctx.sample({"kind": "expression", "ast": _show(cases[0]["ast"]), "program": (cases[0]["facts"] or {}).get("prog"), "rows": cases[0]["rows"][:3]})
    # ---- templates
    names = ["flatten", "swap_two_symbols", "arange", "arange_floordiv_negative", "broadcast", "slice_half", "concat_reshape", "dim_in_fori_body",
             "dim_in_while_cond", "dim_in_onnx_function", "two_inputs_shared_symbol", "mean_manual", "tile", "expand", "nchw_input"]
    trs = run_tasks([{"fn": "harness.checks.c04:_template_job", "args": {"only": [nm], "quick": ctx.quick}, "timeout": 1200} for nm in names], nworkers=15, timeout=1200)
    tresults = []
    for task, tr in trs:
        if tr.get("status") != "ok":
            raise MachineryError(f"template job failed: {str(tr)[:600]}")
        tresults += tr["result"]
    if len(tresults) != len(names):
        raise MachineryError(f"template list out of sync: {len(tresults)} results for {len(names)} names")
    nruns = 0
    for t in tresults:
        if t["export_error"]:
            ctx.extra.setdefault("template_export_errors", []).append({t["template"]: t["export_error"]})
            continue
        bad = [x for x in t["runs"] if not x["ok"]]
        nruns += len(t["runs"])
        ctx.count(("template", t["template"]), n=len(t["runs"]))
        if bad:
            ctx.violation({"engine": "dim_template", "template": t["template"]}, f"template {t['template']} differs from JAX at B={bad[0]['B']}, N={bad[0]['N']}: {bad[0]['detail']}", {"bad": bad[:6]})
        ctx.sample({"kind": "template", "name": t["template"], "bindings_run": len(t["runs"]), "all_equal": not bad})
    ctx.extra['phase_s']['templates'] = round(time.time() - t_phase, 1); t_phase = time.time()
    # ---- dynamic corpus testcases at several bindings (shapes)
    idx = run_tasks([{"fn": "harness.checks.c02:_corpus_index_job", "args": {}, "timeout": 600}], nworkers=1, timeout=600)[0][1]
    if idx.get("status") != "ok":
        raise MachineryError(f"corpus index failed: {str(idx)[:300]}")
    dyn = [it["i"] for it in idx["result"] if it["dynamic"] and not it["skip_numeric"] and not (ctx.quick and it["key"].startswith("examples"))]
    rng.shuffle(dyn)
    dyn = sorted(dyn[: (42 if ctx.quick else 10**9)])
    chunks = [dyn[i::14] for i in range(14)]
    cr = run_tasks([{"fn": "harness.checks.c04:_corpus_dyn_job", "args": {"indices": c, "bindings": [1, 3, 5] if ctx.quick else [1, 2, 3, 5, 7]}, "timeout": 2400} for c in chunks if c], nworkers=14, timeout=2400)
    ndyn = 0
    for task, out in cr:
        if out.get("status") != "ok":
            raise MachineryError(f"corpus dynamic worker failed: {str(out)[:600]}")
        for rec in out["result"]:
            if rec["status"] != "ok":
                continue
            ndyn += 1
            ctx.count(("corpus_dyn", rec["key"]), n=len(rec["runs"]))
            bad = [x for x in rec["runs"] if not x["ok"]]
            if bad:
                ctx.violation({"engine": "dim_corpus", "testcase": rec["key"]}, f"dynamic export {rec['key']} is wrong at B={bad[0]['B']}: {bad[0]['why']}", {"bad": bad})
    ctx.extra["phase_s"]["corpus_dynamic"] = round(time.time() - t_phase, 1)
    ctx.extra["dynamic_corpus_exports_run"] = ndyn
    ctx.cov["traces_validated_against_impl"] = len(cases) + nruns + ndyn
    ctx.cov["rule"] = "evaluations = (expression | template | dynamic testcase) x binding executed on a real export; distinct = distinct expressions/templates/testcases"
    ctx.assumptions += ["ORT integer kernels implement ONNX Div/Mod/Pow semantics", "bindings range over {1,2,3,5,7} (+11 for templates)"]


def _ops_in(e) -> set[str]:
    if e["t"] in ("sym", "const"):
        return set()
    s = {e["t"]} | _ops_in(e["a"])
    if e["t"] != "pow":
        s |= _ops_in(e["b"])
    return s


def _neg_floordiv(e, bind) -> bool:
    from harness.dimjobs import py_eval

    if e["t"] in ("sym", "const"):
        return False
    if e["t"] == "floordiv" and py_eval(e["a"], bind) < 0:
        return True
    return _neg_floordiv(e["a"], bind) or (e["t"] != "pow" and _neg_floordiv(e["b"], bind))


def _show(e) -> str:
    if e["t"] == "sym":
        return e["n"]
    if e["t"] == "const":
        return str(e["v"])
    if e["t"] == "pow":
        return f"({_show(e['a'])})**{e['k']}"
    sym = {"add": "+", "sub": "-", "mul": "*", "floordiv": "//", "mod": "%"}.get(e["t"])
    if sym:
        return f"({_show(e['a'])} {sym} {_show(e['b'])})"
    return f"{e['t']}({_show(e['a'])}, {_show(e['b'])})"
