"""C13 — conversion leaves the host process as it found it.

A. TLC: J2O_Host exhaustive (failure at every patch application / body / lowering / post, nested
   conversions, function-body re-activation), invariants Quiescent, NoLeakOutsideWorlds, ...
B. spec -> code: -simulate behaviours of the same module replayed through the REAL context managers
   (fake targets), abstract state compared at every logged event (harness/hostreplay).
C. code -> spec: histories of REAL conversions derived from TLC behaviours (+ fault injection at the
   k-th real patch application), namespace snapshots / flag / probes recorded as Begin/End traces and
   validated by J2O_HostTrace with TLC; every End is also judged directly (property-level oracle).
"""

from __future__ import annotations

import json
import random
from typing import Any

from harness.common import WORK, Ctx, MachineryError, cleanup_tlc, parse_tlc_values, run_tlc, tla, tlc_must_pass
from harness.pool import run_tasks

LEVEL = "model_checking"

STANDINS = {"J2O_HostFacts.tla": "---- MODULE J2O_HostFacts ----\nFactWithinDup == FALSE\n====\n",
            "J2O_UnwindFacts.tla": '---- MODULE J2O_UnwindFacts ----\nEXTENDS TLC\nManagerFacts == [a |-> "finally"]\n====\n'}


def _leaf_specs(within_dup: bool):
    # third plugin: slot s4 is an attribute its target only INHERITS (from the class holding s1) -- MCInherit
    return [["s3", "s1", "s3"], ["s1", "s2"], ["s4"]] if within_dup else [["s3", "s1"], ["s1", "s2"], ["s4"]]
INHERIT = {"s4": "s1"}
FN_SLOTS = ["f1", "f2"]
MISSING = ["s3"]


def _sim_logs(seed: int, num: int, facts: dict[str, str], cfg: str = "SIM_Host.cfg") -> tuple[list[list[dict[str, Any]]], Any]:
    r = run_tlc("MC_Host", cfg, gen_files=facts, timeout=900, simulate=f"num={num}", depth=100, seed=seed, workers=1, coverage=False)
    if r.violated:
        raise MachineryError(f"J2O_Host simulation violated {r.violated}")
    vals = parse_tlc_values(r.output.splitlines())
    uniq = {json.dumps(v, sort_keys=True): v for v in vals if v}
    # keep maximal logs only (drop strict prefixes of longer logs)
    logs = sorted(uniq.values(), key=len, reverse=True)
    return logs, r


def _replay_job(logs, within_dup):
    from harness.hostreplay import replay_logs

    return replay_logs(logs, _leaf_specs(within_dup), FN_SLOTS, MISSING, INHERIT)


def _history_job(history, tid):
    from harness.hostjobs import run_history

    return run_history(history, tid)


def _index_space_job():
    from harness.hostjobs import patch_index_space

    return patch_index_space()


def _conversions(log: list[dict[str, Any]]) -> list[dict[str, Any]]:
    """Split a spec history into top-level conversions with their outcome classification."""
    out = []
    depth = 0
    cur: dict[str, Any] | None = None
    for ev in log:
        e = ev["e"]
        if e[0] == "Begin":
            depth += 1
            if depth == 1:
                cur = {"en": bool(e[1]), "events": [], "nested": []}
            else:
                assert cur is not None
                cur["nested"].append({"en": bool(e[1]), "events": []})
            continue
        if e[0] == "End":
            if depth == 1:
                assert cur is not None
                cur["exc"] = bool(e[1])
                out.append(cur)
                cur = None
            else:
                cur["nested"][-1]["exc"] = bool(e[1])  # type: ignore[index]
                cur["nested"][-1]["caught"] = bool(e[2])  # type: ignore[index]
            depth -= 1
            continue
        if depth == 1:
            cur["events"].append(e)  # type: ignore[index]
        elif depth > 1:
            cur["nested"][-1]["events"].append(e)  # type: ignore[index]
    return out


def _to_real(conv: dict[str, Any], space: dict[str, Any], rng: random.Random, prio: list[dict[str, Any]]) -> dict[str, Any]:
    """Map one abstract conversion to a real request kind (+ fault)."""
    names = [e[0] for e in conv["events"]]
    dbl = conv["en"]
    suffix = "_double" if dbl else ""
    fault = None
    kind = "ok"
    first_world = names[: names.index("Active")] if "Active" in names else names
    if "FnFail" in first_world and space["fn"]:
        f = rng.choice(space["fn"])
        fault = {"kind": "fn", "plugin": f["plugin"]}
        kind = "ok"
    elif "LeafFail" in first_world and space["leaf"]:
        f = prio.pop() if prio else rng.choice(space["leaf"])
        fault = {"kind": "leaf", "plugin": f["plugin"], "spec": f["spec"]}
        kind = "ok"
    elif "BodyRaise" in names and names.index("BodyRaise") < (names.index("Build") if "Build" in names else 10**6):
        kind = "user_raise"
    elif "Build" in names:
        after = names[names.index("Build"):]
        if "FnFail" in after and space["fn"]:
            f = rng.choice(space["fn"])
            fault = {"kind": "fn", "plugin": f["plugin"], "second": True}
            kind = "fn_ok"
        elif "BodyRaise" in after:
            kind = "fn_bodytrace_fail"
        elif "LowerRaise" in after:
            kind = "fn_body_fail"
        elif "PostRaise" in after:
            kind = "save_fail"
        else:
            kind = "fn_ok"
    elif "LowerRaise" in names:
        kind = rng.choice(["unsupported", "bad_nchw", "loop_fail"])
    elif "PostRaise" in names:
        kind = "save_fail"
    else:
        kind = rng.choice(["ok", "loop_ok", "ir_mode", "nnx_linear", "nnx_block", "eqx_linear", "jit_user"])
    if kind in ("ok", "user_raise", "fn_ok", "save_fail") and dbl:
        kind += suffix
    return {"kind": kind, "fault": fault, "x64_before": None}


def _unwind_job():
    import os

    from harness.unwindjobs import drive_real, manager_facts

    return {"facts": manager_facts(os.environ.get("J2O_REPO", "/repo")), "runs": drive_real()}


def unwind_discipline(ctx: Ctx, what: str = "x64") -> int:
    """J2O_Unwind: the way every @contextmanager attaches its teardown is a fact (AST); TLC checks that the
    teardown runs on every exit path; the real state-guarding managers are left on every path and observed."""
    uj = run_tasks([{"fn": "harness.checks.c13:_unwind_job", "args": {}, "timeout": 600}], nworkers=1, timeout=600, fresh_each=True)[0][1]
    if uj.get("status") != "ok":
        raise MachineryError(f"unwind job failed: {str(uj)[:500]}")
    facts, runs = uj["result"]["facts"], uj["result"]["runs"]
    ctx.extra["context_managers"] = facts
    if facts:
        mod = "---- MODULE J2O_UnwindFacts ----\nEXTENDS TLC\nManagerFacts == " + tla(facts) + "\n====\n"
        ru = run_tlc("J2O_Unwind", "MC_Unwind.cfg", gen_files={"J2O_UnwindFacts.tla": mod}, timeout=300, coverage=False)
        tlc_must_pass(ru, "J2O_Unwind")
        ctx.add_tlc(ru, "J2O_Unwind")
        if ru.violated:
            m = [l.strip() for l in ru.output.splitlines() if l.strip().startswith("/\\ mgr =") or l.strip().startswith("/\\ path =")]
            ctx.extra["unwind_tlc_counterexample"] = " ".join(m[:2]) or ru.violated
        cleanup_tlc(ru)
    bad = [r_ for r_ in runs if not r_["restored"]]
    for r_ in runs:
        ctx.count(("unwind", r_["manager"], r_["start"], r_["target"], r_["path"]), nontrivial=r_["start"] != r_["target"])
    for r_ in bad:
        ctx.violation({"engine": "unwind_real", "manager": r_["manager"], "path": r_["path"]},
                      f"{r_['manager']}({r_['target']}) entered with jax_enable_x64={r_['start']} and left by {r_['path']}: the flag is {r_['after']} afterwards", r_)
    if ctx.extra.get("unwind_tlc_counterexample") and not bad:
        ctx.extra["conformance_drift_unwind"] = "a manager's teardown is not attached with try/finally, but the driven managers restored their state on every path"
    return len(runs)


def run(ctx: Ctx) -> None:
    rng = random.Random(ctx.seed)
    unwind_discipline(ctx)
    # ---------------- facts extracted from the real registry
    sp = run_tasks([{"fn": "harness.checks.c13:_index_space_job", "args": {}, "timeout": 300}], nworkers=1, timeout=300)[0][1]
    if sp.get("status") != "ok":
        raise MachineryError(f"cannot enumerate patch index space: {sp}")
    space = sp["result"]
    ctx.extra["real_patch_index_space"] = {"leaf_specs": len(space["leaf"]), "fn_plugins": len(space["fn"]), "duplicate_keys": len(space["duplicate_keys"]), "classes_registered_twice": space["classes_registered_twice"]}
    within_dup = bool(space["plugins_with_internal_duplicate_key"])
    facts = {"J2O_HostFacts.tla": f"---- MODULE J2O_HostFacts ----\nFactWithinDup == {'TRUE' if within_dup else 'FALSE'}\n====\n"}
    ctx.extra["fact_within_plugin_duplicate_key"] = within_dup
    # ---------------- A: exhaustive model checking
    r = run_tlc("MC_Host", "MC_Host.cfg" if ctx.quick else "MC_HostThorough.cfg", gen_files=facts, timeout=1700)
    tlc_must_pass(r, "J2O_Host")
    ctx.add_tlc(r, "J2O_Host exhaustive")
    if r.violated:
        raise MachineryError(f"J2O_Host invariant {r.violated} violated in the model (specification inconsistency)")
    cleanup_tlc(r)
    if not ctx.quick:
        # non-vacuity: FIFO restore must violate Quiescent
        rr = run_tlc("MC_HostFifo", "MC_HostFifo.cfg", gen_files=facts, timeout=600)
        ctx.extra["selftest_fifo_restore_detected"] = bool(rr.violated)
        if not rr.violated:
            raise MachineryError("self-test: FIFO restore variant of J2O_Host is not rejected")
        cleanup_tlc(rr)

    # ---------------- B: spec -> code replay with fake targets on the real context managers
    nsim = 300 if ctx.quick else 4000
    logs, rs = _sim_logs(ctx.seed + 1, nsim, facts)
    cleanup_tlc(rs)
    if not logs:
        raise MachineryError("no behaviours produced by TLC -simulate")
    chunks = [logs[i::8] for i in range(8)]
    res = run_tasks([{"fn": "harness.checks.c13:_replay_job", "args": {"logs": c, "within_dup": within_dup}, "timeout": 600} for c in chunks if c], nworkers=8, timeout=600)
    replayed = 0
    for task, out in res:
        if out.get("status") != "ok":
            raise MachineryError(f"replay worker failed: {out}")
        for item in out["result"]:
            replayed += 1
            lg = task["args"]["logs"][item["log"]]
            key = [e["e"] for e in lg]
            ctx.count(("replay", json.dumps(key)), nontrivial=any(e["e"][0] in ("FnFail", "LeafFail", "BodyRaise", "LowerRaise", "PostRaise", "Build") for e in lg))
            if not item["ok"]:
                evs = [e["e"] for e in lg]
                kinds = sorted({e[0] for e in evs if e[0] in ("FnFail", "LeafFail", "BodyRaise", "LowerRaise", "PostRaise", "Build")})
                ctx.violation(
                    {"engine": "host_replay", "where": item["where"].split(" ", 2)[-1], "fault_kinds": kinds, "diff": _diff_keys(item.get("expected"), item.get("got"))},
                    f"real context managers leave a different state than J2O_Host at {item['where']}",
                    {"events": evs, "expected": item.get("expected"), "got": item.get("got")},
                )
    ctx.extra["behaviours_replayed_into_code"] = replayed
    ctx.sample({"kind": "spec_behaviour_replayed", "events": [e["e"] for e in logs[len(logs) // 2]]})

    # ---------------- C: real conversions: histories derived from spec behaviours
    dupset = set(space["duplicate_keys"])
    prio = [l for l in space["leaf"] if f"{l['target']}.{l['attr']}" in dupset]
    rng.shuffle(prio)
    histories: list[list[dict[str, Any]]] = []
    nh = 36 if ctx.quick else 400
    pool_logs = [l for l in logs if 1 <= len(_conversions(l))]
    rng.shuffle(pool_logs)
    for lg in pool_logs[:nh]:
        h = [_to_real(c, space, rng, prio) for c in _conversions(lg)]
        histories.append(h)
    # systematic fault enumeration over the real index space (one fault per conversion)
    faults = [{"kind": "leaf", "plugin": l["plugin"], "spec": l["spec"]} for l in (prio if ctx.quick else space["leaf"])]
    if ctx.quick:
        others = [l for l in space["leaf"] if l not in prio]
        rng.shuffle(others)
        faults += [{"kind": "leaf", "plugin": l["plugin"], "spec": l["spec"]} for l in others[:16]]
        fsel = space["fn"][:1] + space["fn"][len(space["fn"]) // 2: len(space["fn"]) // 2 + 1] + space["fn"][-1:]
    else:
        fsel = space["fn"]
    faults += [{"kind": "fn", "plugin": f["plugin"]} for f in fsel]
    per = 6
    for i in range(0, len(faults), per):
        h = []
        for f in faults[i:i + per]:
            h.append({"kind": rng.choice(["ok", "ok_double", "fn_ok"]), "fault": f})
        h.append({"kind": "ok", "fault": None})
        histories.append(h)
    # alternating precision with the user's flag set either way
    for xb in (False, True):
        histories.append([{"kind": k, "fault": None, "x64_before": xb} for k in ("ok_double", "ok", "user_raise_double", "fn_ok_double", "save_fail_double", "ok")])
    # unwinding must not depend on the exception class: BaseException (Ctrl-C, SystemExit) while the
    # precision flag is switched either way
    for xb in (False, True):
        histories.append([{"kind": k, "fault": None, "x64_before": xb} for k in ("user_interrupt_double", "ok", "user_exit", "user_exit_double", "user_interrupt", "ok_double")])
    # the caller sits inside JAX's own thread-local precision context
    for xb in (False, True):
        histories.append([{"kind": k, "fault": None, "x64_before": xb, "x64_ctx": xc} for k, xc in (("ok", True), ("ok_double", False), ("ok", False), ("user_raise_double", True), ("ok", None))])
    # kinds that must be exercised on every run, whatever the seed picked above
    histories.append([{"kind": k, "fault": None} for k in ("jit_user", "ok", "nnx_linear", "nnx_block", "eqx_linear", "fn_bodytrace_fail", "fn_body_fail", "fn_ok", "loop_fail", "unsupported", "bad_names", "save_fail", "ir_mode", "ok")])
    tasks = [{"fn": "harness.checks.c13:_history_job", "args": {"history": h, "tid": i}, "timeout": 900} for i, h in enumerate(histories)]
    res = run_tasks(tasks, nworkers=12, timeout=900)
    all_events: list[dict[str, Any]] = []
    nconv = 0
    for task, out in sorted(res, key=lambda t: t[0]["args"]["tid"]):
        if out.get("status") != "ok":
            raise MachineryError(f"history worker failed: {str(out)[:800]}")
        for ev in out["result"]["events"]:
            det = ev.pop("_detail", None)
            ev["dev"] = ""
            if ev["ev"] == "End":
                nconv += 1
                ctx.count(("real", det["kind"], json.dumps(det["fault"], sort_keys=True)), nontrivial=bool(det["fault"]) or ev["raised"])
                bad = []
                if ev["leaked"]:
                    bad.append("namespace")
                if ev["x64"] != det["x64_before"]:
                    bad.append("x64")
                if ev["pstate"]:
                    bad.append("patch_state")
                if ev["inbuild"]:
                    bad.append("in_function_build")
                if not ev["probe_ok"]:
                    bad.append("probe")
                if ev["mutated"]:
                    bad.append("user_object_mutated")
                if bad:
                    n_before = len(ctx.violations)
                    ctx.violation(
                        {"engine": "host_real", "kind": det["kind"], "fault_kind": (det["fault"] or {}).get("kind"), "what": bad, **({"inside_jax_enable_x64": det["x64_ctx"]} if det.get("x64_ctx") is not None else {})},
                        f"after to_onnx [{det['kind']}, fault={det['fault']}] the process differs: {bad}",
                        det,
                    )
                    if len(ctx.violations) == n_before:
                        ev["dev"] = "known"
                if len(ctx.cov["samples"]) < 6 and (det["fault"] or ev["raised"]):
                    ctx.sample({"kind": "real_conversion", "request": det["kind"], "fault": det["fault"], "fault_fired": det["fault_fired"], "raised": det["raised"], "namespace_diff": det["diff"]})
            all_events.append(ev)
    ctx.extra["real_conversions_observed"] = nconv
    # TLC trace validation of the whole batch
    tdir = WORK / "traces"
    tdir.mkdir(parents=True, exist_ok=True)
    tf = tdir / f"host_{ctx.seed}.ndjson"
    with tf.open("w") as fh:
        for ev in all_events:
            fh.write(json.dumps(ev, sort_keys=True) + "\n")
    rt = run_tlc("J2O_HostTrace", "HostTrace.cfg", timeout=600, workers=1, env={"TRACE_FILE": str(tf)}, coverage=False)
    ctx.add_tlc(rt, "J2O_HostTrace")
    accepted = rt.ok and not rt.violated
    ctx.extra["trace_events"] = len(all_events)
    ctx.extra["trace_accepted_by_tlc"] = accepted
    if not accepted and not ctx.violations:
        if rt.violated:
            # the observer spec found a violation the direct judgement did not: report it
            ctx.violation({"engine": "host_trace", "invariant": rt.violated}, f"J2O_HostTrace invariant {rt.violated} violated on recorded traces", rt.output[-1500:])
        else:
            raise MachineryError("trace validation failed to run: " + rt.output[-800:])
    ctx.cov["traces_validated_against_impl"] = len(histories) + replayed
    cleanup_tlc(rt)
    tf.unlink(missing_ok=True)
    ctx.cov["rule"] = (
        "evaluations = TLC behaviours replayed through the real context managers + real to_onnx calls with snapshots; "
        "distinct = distinct event sequences / (request kind, injected fault); non-trivial = contains a failure, a fault or a function-body build"
    )
    ctx.assumptions += [
        "namespace snapshot covers callables, classes, modules and descriptors of already imported jax*/flax*/equinox* modules and of the classes they define",
        "fault injection wraps make_value / patch_function of the real registry; AssignSpec entries cannot fail and are not injected",
    ]


def _diff_keys(exp: Any, got: Any) -> list[str]:
    out = []
    if isinstance(exp, dict) and isinstance(got, dict):
        for k in exp:
            if exp.get(k) != got.get(k):
                out.append(k)
    return out
