"""C18 — the bundled validation helper is a sound oracle.

A. TLC: J2O_Allclose over every abstract deviation case (two outputs): VerdictSound and
   VerdictComplete for the procedure that compares in a common type; the cast-to-reference variant
   (behaviour before the fix) must violate VerdictSound (self test).
B. spec -> code: every emitted case becomes a concrete (fn, hand-built stored model) pair and the REAL
   allclose is asked; its verdict must be the one the property demands; the x64 flag must be restored.
"""

from __future__ import annotations

import json
import random
from typing import Any

from harness.common import Ctx, MachineryError, cleanup_tlc, parse_tlc_values, run_tlc, tlc_must_pass
from harness.pool import run_tasks

LEVEL = "model_checking"


def _replay_job(cases):
    from harness.allclosejobs import replay

    return replay(cases)


def _nchw_job():
    from harness.allclosejobs import nchw_cases

    return nchw_cases()


def run(ctx: Ctx) -> None:
    from harness.checks.c13 import unwind_discipline

    unwind_discipline(ctx)          # the precision-flag managers restore the flag on every exit path
    rng = random.Random(ctx.seed)
    r = run_tlc("MC_Allclose", "MC_Allclose.cfg", timeout=1200, workers=8)
    tlc_must_pass(r, "J2O_Allclose")
    ctx.add_tlc(r, "J2O_Allclose (2 outputs)")
    if r.violated:
        raise MachineryError(f"J2O_Allclose: {r.violated} violated by the specified procedure")
    cleanup_tlc(r)
    rd = run_tlc("MC_Allclose", "MC_AllcloseDev.cfg", timeout=600, workers=8, coverage=False)
    ctx.extra["selftest_cast_to_ref_variant_rejected"] = bool(rd.violated)
    if not rd.violated:
        raise MachineryError("self test: cast-to-reference comparison is not rejected by VerdictSound")
    cleanup_tlc(rd)
    cases: list[dict[str, Any]] = []
    r1 = run_tlc("MC_Allclose", "MC_AllcloseEmit1.cfg", timeout=600, workers=4, coverage=False)
    c1 = parse_tlc_values(r1.output.splitlines())
    cleanup_tlc(r1)
    r2 = run_tlc("MC_Allclose", "MC_AllcloseEmit2.cfg", timeout=1200, workers=4, coverage=False)
    c2 = parse_tlc_values(r2.output.splitlines())
    cleanup_tlc(r2)
    if not c1 or not c2:
        raise MachineryError("TLC emitted no allclose cases")
    rng.shuffle(c2)
    # two-output cases: prefer those where the FIRST output is clean so the second is reached
    reach = [c for c in c2 if c["count"] == "same" and c["outs"][0]["shape"] == "same" and c["outs"][0]["dev"] in ("none", "within_tol")]
    other = [c for c in c2 if c not in reach[:0]]
    cases = c1 + reach[: (500 if ctx.quick else 100000)] + other[: (300 if ctx.quick else 100000)]
    ctx.extra["cases_enumerated"] = {"one_output": len(c1), "two_outputs": len(c2), "replayed": len(cases)}
    n = 14
    chunks = [cases[i::n] for i in range(n)]
    res = run_tasks([{"fn": "harness.checks.c18:_replay_job", "args": {"cases": c}, "timeout": 1800} for c in chunks if c], nworkers=n, timeout=1800)
    done = 0
    unb = 0
    for task, out in res:
        if out.get("status") != "ok":
            raise MachineryError(f"allclose replay worker failed: {str(out)[:600]}")
        for rec in out["result"]:
            case = task["args"]["cases"][rec["i"]]
            if rec["status"] != "ok":
                unb += rec["status"] == "unbuildable"
                if rec["status"] == "unbuildable":
                    ctx.extra.setdefault("unbuildable", []).append(rec.get("why"))
                continue
            done += 1
            key = json.dumps({"count": case["count"], "outs": case["outs"]}, sort_keys=True)
            ctx.count(key, nontrivial=case["must_mismatch"])
            want = not case["must_mismatch"]
            if rec["verdict"] is None:
                # raising is loud: acceptable for a deviating model, not for a matching one
                if want:
                    ctx.violation({"engine": "allclose", "case": _sig(case), "what": "raised_on_matching_model"}, f"allclose raised on a matching model: {rec['msg']}", {"case": case, "rec": rec})
            elif rec["verdict"] != want:
                what = "false_match" if rec["verdict"] else "false_mismatch"
                ctx.violation({"engine": "allclose", "case": _sig(case), "what": what}, f"allclose returned {rec['verdict']} ({rec['msg']}) for {_sig(case)}; the property demands {want}", {"case": case, "rec": rec})
            if not rec["x64_restored"]:
                ctx.violation({"engine": "allclose", "what": "x64_flag_not_restored", "double": rec["double"]}, "allclose left jax_enable_x64 changed", {"case": case})
            if len(ctx.cov["samples"]) < 8 and case["must_mismatch"]:
                ctx.sample({"case": _sig(case), "count": case["count"], "demanded": "mismatch", "allclose_said": rec["verdict"], "msg": rec["msg"]})
    if unb > 5:
        raise MachineryError(f"{unb} cases could not be built as valid models: {ctx.extra.get('unbuildable', [])[:2]}")
    nr = run_tasks([{"fn": "harness.checks.c18:_nchw_job", "args": {}, "timeout": 600}], nworkers=1, timeout=600)[0][1]
    if nr.get("status") != "ok":
        raise MachineryError(f"nchw job failed: {str(nr)[:500]}")
    for rec in nr["result"]:
        done += 1
        ctx.count(("nchw", rec["in_nchw"], rec["out_nchw"], rec["wrong_model"]))
        if rec["verdict"] != (not rec["wrong_model"]):
            ctx.violation({"engine": "allclose_nchw", "in": rec["in_nchw"], "out": rec["out_nchw"], "wrong_model": rec["wrong_model"]}, f"allclose with layout flags returned {rec['verdict']} for a {'wrong' if rec['wrong_model'] else 'right'} model: {rec['msg']}", rec)
    ctx.cov["traces_validated_against_impl"] = done
    ctx.cov["rule"] = "one evaluation = one real allclose call on a hand-built stored model; distinct = distinct abstract cases; non-trivial = the model deviates (mismatch demanded)"
    ctx.assumptions += ["ORT executes the hand-built models as ONNX specifies", "NaN in both fn and model is not exercised (unconstrained by the property)"]


def _sig(case) -> list[str]:
    return [f"{o['refc']}->{o['modc']}:{o['dev']}:{o['shape']}" for o in case["outs"]]
