"""C12 — layout flags only add boundary transposes.

A. TLC: J2O_GraphRewrite (boundary Transpose pairs around elementwise chains / reductions / Add
   forests with every side-operand kind are exactly the tchain/treduce/addforest neighbourhoods) and
   J2O_Pipeline (layout index validation: bad index / rank / duplicates => Reject).
B. spec -> code: the pattern graphs of those kinds replayed through the real passes (ORT before vs
   after); programs with 4-D I/O exported plain and with EVERY subset of flagged inputs/outputs:
   ORT(flagged)(NCHW x) = NCHW(ORT(plain)(x)) = NCHW(JAX(x)), unflagged I/O unaffected, invalid
   selections rejected.
"""

from __future__ import annotations

import json
import random

from harness.common import Ctx, MachineryError, cleanup_tlc, run_tlc, tlc_must_pass
from harness.pool import run_tasks

LEVEL = "model_checking"


def _prog_job(name, quick):
    from harness.layoutjobs import run_program

    return run_program(name, quick)


def _names_job():
    from harness.layoutjobs import programs

    return sorted(programs().keys())


def run(ctx: Ctx) -> None:
    from harness.checks import c02

    r = run_tlc("J2O_GraphRewrite", "MC_Graph.cfg" if ctx.quick else "MC_GraphThorough.cfg", timeout=3000)
    tlc_must_pass(r, "J2O_GraphRewrite")
    ctx.add_tlc(r, "J2O_GraphRewrite")
    if r.violated:
        raise MachineryError(f"J2O_GraphRewrite: {r.violated} violated")
    cleanup_tlc(r)
    rp = run_tlc("J2O_Pipeline", "MC_PipelineQuick.cfg", timeout=3000)
    tlc_must_pass(rp, "J2O_Pipeline")
    ctx.add_tlc(rp, "J2O_Pipeline (layout selection validation)")
    if rp.violated:
        raise MachineryError(f"J2O_Pipeline: {rp.violated} violated")
    cleanup_tlc(rp)
    graphs = c02.emit_patterns(ctx.tier)
    n1 = c02.replay_patterns(ctx, graphs, prop="C12", kinds={"tchain", "treduce", "addforest"})
    names = run_tasks([{"fn": "harness.checks.c12:_names_job", "args": {}, "timeout": 600}], nworkers=1, timeout=600)[0][1]
    if names.get("status") != "ok":
        raise MachineryError(f"cannot list layout programs: {str(names)[:400]}")
    res = run_tasks([{"fn": "harness.checks.c12:_prog_job", "args": {"name": nm, "quick": ctx.quick}, "timeout": 1800} for nm in names["result"]], nworkers=14, timeout=1800)
    ncases = 0
    for task, out in res:
        if out.get("status") != "ok":
            raise MachineryError(f"layout worker failed: {str(out)[:700]}")
        pr = out["result"]
        for c in pr["cases"]:
            if c.get("plain_failed"):
                ctx.extra.setdefault("plain_export_failures", []).append({pr["prog"]: c["why"]})
                continue
            ncases += 1
            ctx.count(("layout", pr["prog"], json.dumps(c["shape"]), bool(c.get("symbolic")), json.dumps(c["in"]), json.dumps(c["out"])), nontrivial=True)
            if not c["ok"]:
                ctx.violation({"engine": "layout_flags", "prog": pr["prog"], "in": c["in"], "out": c["out"], **({"symbolic": True} if c.get("symbolic") else {})}, f"{pr['prog']} with inputs_as_nchw={c['in']} outputs_as_nchw={c['out']} shape {c['shape']}: {c['why']}", c)
        for rj in pr["rejections"]:
            ncases += 1
            ctx.count(("reject", pr["prog"], rj["label"]))
            if not rj["rejected"]:
                ctx.violation({"engine": "layout_validation", "label": rj["label"]}, f"invalid layout selection '{rj['label']}' on program {pr['prog']} was accepted", rj)
        if len(ctx.cov["samples"]) < 10 and pr["cases"]:
            ctx.sample({"kind": "layout_program", "prog": pr["prog"], "flag_subsets_run": len(pr["cases"]), "all_equal": all(c["ok"] for c in pr["cases"]), "rejections": pr["rejections"]})
    ctx.extra["layout_cases"] = ncases
    ctx.cov["traces_validated_against_impl"] = n1 + ncases
    ctx.cov["rule"] = "one evaluation = one (program, shape, flagged input subset, flagged output subset) export executed in ORT and compared with the plain export and JAX, or one invalid selection; plus pattern graphs with boundary transposes through the real passes"
    ctx.assumptions += ["ORT as executable semantics; equality with the plain export is bit-exact except where a kernel legitimately differs by rounding between layouts (1e-6)"]
