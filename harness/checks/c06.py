"""C06 — control flow is preserved for every branch choice and trip count.

A. TLC: J2O_ControlFlow lockstep refinement (JAX machine vs the ONNX Loop/If wiring) over ALL loop
   bodies / predicates / branch functions on a finite state domain, trip counts 0..|S|.
B. spec -> code: every program TLC enumerated is executed on REAL exports of table-driven
   templates (while, while-in-cond, vmapped while, counted loops with static bounds, scans with
   static and symbolic length, scan-in-while, switch, cond); ORT must return the predicted
   final state / iteration count / stacked outputs; JAX eager cross-checks the prediction.
C. code -> spec: per-iteration traces of the exported Loop (tracing reference kernel) validated by
   J2O_ControlFlowTrace.
D. unsupported variants must be rejected at export (or, if exported, be right).
"""

from __future__ import annotations

import json
import random
from typing import Any

from harness.common import WORK, Ctx, MachineryError, cleanup_tlc, parse_tlc_values, run_tlc, tlc_must_pass
from harness.pool import run_tasks

LEVEL = "model_checking"
KINDS = ["while", "fori", "scan", "cond", "vwhile"]


def _replay_job(records):
    from harness.cfreplay import replay

    return replay(records)


def _unsupported_job():
    from harness.cfreplay import unsupported_constructs

    return unsupported_constructs()


def _trace_job(records, tid0):
    from harness.cfreplay import while_iteration_traces

    return while_iteration_traces(records, tid0)


def run(ctx: Ctx) -> None:
    rng = random.Random(ctx.seed)
    records: dict[str, list[dict[str, Any]]] = {}
    for k in KINDS:
        cfg = f"MC_CFEmit_{k}.cfg"
        if k == "fori" and not ctx.quick:
            cfg = "MC_CFEmit_fori_thorough.cfg"
        r = run_tlc("MC_CFEmit", cfg, timeout=2400, workers=4)
        tlc_must_pass(r, f"J2O_ControlFlow[{k}]")
        ctx.add_tlc(r, f"J2O_ControlFlow[{k}]")
        if r.violated:
            raise MachineryError(f"J2O_ControlFlow[{k}]: {r.violated} violated by the specified wiring")
        records[k] = parse_tlc_values(r.output.splitlines())
        cleanup_tlc(r)
        if not records[k]:
            raise MachineryError(f"no halted programs emitted for {k}")
    if not ctx.quick:
        rs = run_tlc("J2O_ControlFlow", "MC_CF_while_selftest.cfg", timeout=600, coverage=False)
        ctx.extra["selftest_cond_on_old_state_rejected"] = bool(rs.violated)
        if not rs.violated:
            raise MachineryError("self test: predicate-on-old-state wiring is not rejected")
        cleanup_tlc(rs)
    ctx.extra["programs_enumerated"] = {k: len(v) for k, v in records.items()}
    # ---- B: replay
    sel: list[dict[str, Any]] = []
    for k in KINDS:
        v = list(records[k])
        rng.shuffle(v)
        cap = {"while": 10**9, "vwhile": 10**9, "fori": 1024 if ctx.quick else 10**9, "scan": 2500 if ctx.quick else 10**9, "cond": 1500 if ctx.quick else 10**9}[k]
        sel += v[:cap]
    nw = 14
    chunks = [sel[i::nw] for i in range(nw)]
    res = run_tasks([{"fn": "harness.checks.c06:_replay_job", "args": {"records": c}, "timeout": 2400} for c in chunks if c], nworkers=nw, timeout=2400)
    total = 0
    per_kind: dict[str, int] = {}
    templates = set()
    for task, out in res:
        if out.get("status") != "ok":
            raise MachineryError(f"control-flow replay worker failed: {str(out)[:800]}")
        rr = out["result"]
        total += rr["n"]
        for k, v in rr["per_kind"].items():
            per_kind[k] = per_kind.get(k, 0) + v
        for rj in rr.get("rejected_at_export", []):
            ctx.extra.setdefault("variants_rejected_at_export", {})[rj["template"]] = rj["error"]
        for ef in rr["export_failed"]:
            ctx.violation({"engine": "cf_replay", "template": ef["template"].split(",")[0], "what": "export_failed"}, f"supported control-flow template failed to export: {ef['template']}: {ef['error']}", ef)
        for mm in rr["mismatch"]:
            rec = mm["record"]
            ctx.violation({"engine": "cf_replay", "template": mm["template"], "program": {k: rec[k] for k in rec if k not in ("s", "n", "ys")}}, f"exported {mm['template']} returns {mm['got']} but JAX semantics give {mm['expected']}", mm)
        for sj in rr["spec_vs_jax"]:
            ctx.extra.setdefault("spec_vs_jax_disagreements", []).append(sj)
    if ctx.extra.get("spec_vs_jax_disagreements"):
        raise MachineryError("specification disagrees with JAX eager on: " + json.dumps(ctx.extra["spec_vs_jax_disagreements"][:2])[:600])
    for r in sel:
        key = json.dumps({k: r[k] for k in r if k not in ("s", "n", "ys")}, sort_keys=True)
        nontrivial = (r.get("n") not in (0, [0, 0])) if "n" in r else True
        ctx.count(key, nontrivial=nontrivial, n=0)
    ctx.cov["evaluations"] += total
    ctx.extra["replayed_runs_per_kind"] = per_kind
    for k in KINDS:
        ex = [r for r in records[k] if r.get("n") not in (0, [0, 0])]
        if ex:
            ctx.sample({"kind": "program_with_prediction", **ex[len(ex) // 2]})
    # ---- D: unsupported constructs
    un = run_tasks([{"fn": "harness.checks.c06:_unsupported_job", "args": {}, "timeout": 900}], nworkers=1, timeout=900)[0][1]
    if un.get("status") != "ok":
        raise MachineryError(f"unsupported-construct job failed: {str(un)[:500]}")
    ctx.extra["unsupported_constructs"] = un["result"]
    for u in un["result"]:
        ctx.count(("unsupported", u["construct"]))
        if u["exported"] and not u.get("correct", False):
            ctx.violation({"engine": "cf_unsupported", "construct": u["construct"]}, f"construct {u['construct']} was exported with different semantics: got {u.get('got')} expected {u.get('ref')}", u)
    # ---- C: per-iteration traces
    wl = [r for r in records["while"] if r["n"] > 0]
    rng.shuffle(wl)
    wl = wl[: (160 if ctx.quick else 10**9)]
    parts = [wl[i::6] for i in range(6)]
    tres = run_tasks([{"fn": "harness.checks.c06:_trace_job", "args": {"records": p, "tid0": i * 100000}, "timeout": 1200} for i, p in enumerate(parts) if p], nworkers=6, timeout=1200)
    events: list[dict[str, Any]] = []
    for task, out in sorted(tres, key=lambda t: t[0]["args"]["tid0"]):
        if out.get("status") != "ok":
            raise MachineryError(f"iteration trace job failed: {str(out)[:600]}")
        ev = out["result"]
        if ev and "error" in ev[0]:
            ctx.extra["conformance_drift"] = f"loop state projection failed: {ev[0]}"
            events = []
            break
        events += ev
    if events:
        tdir = WORK / "traces"
        tdir.mkdir(parents=True, exist_ok=True)
        tf = tdir / f"cf_{ctx.seed}.ndjson"
        tf.write_text("".join(json.dumps(e, sort_keys=True) + "\n" for e in events))
        rt = run_tlc("J2O_ControlFlowTrace", "CFTrace.cfg", timeout=900, workers=1, env={"TRACE_FILE": str(tf)}, coverage=False)
        ctx.add_tlc(rt, "J2O_ControlFlowTrace")
        ok = bool(rt.ok and not rt.violated)
        ctx.extra["iteration_trace_events"] = len(events)
        ctx.extra["iteration_traces_accepted_by_tlc"] = ok
        if not ok:
            # locate the first run whose iterations deviate (python mirror of the trace spec)
            bad = _first_bad_trace(events)
            if bad is not None:
                ctx.violation({"engine": "cf_trace", "program": bad["prog"]}, f"exported Loop iterates differently from JAX: {bad['why']}", bad)
            else:
                raise MachineryError("iteration trace rejected by TLC but the mirror finds no deviation: " + rt.output[-600:])
        cleanup_tlc(rt)
        tf.unlink(missing_ok=True)
        ctx.sample({"kind": "iteration_trace", "events": events[:6]})
    ctx.cov["traces_validated_against_impl"] = total + len(wl)
    ctx.cov["rule"] = "one evaluation = one program (function tables + steering input) executed on a real export; distinct = distinct programs; non-trivial = at least one iteration / a taken branch"
    ctx.assumptions += ["ORT Loop/If kernels implement ONNX semantics", "loop bodies are lookup tables passed as model inputs, so one export covers every body function"]


def _first_bad_trace(events):
    cur = None
    for e in events:
        if e["ev"] == "Prog":
            cur = {"prog": e, "s": e["s0"], "n": 0, "run": e["tc"][e["s0"]]}
        elif e["ev"] == "Iter":
            tb, tc = cur["prog"]["tb"], cur["prog"]["tc"]
            exp = {"it": cur["n"], "cond_in": True, "s_in": cur["s"], "s_out": tb[cur["s"]], "cond_out": tc[tb[cur["s"]]]}
            got = {k: e[k] for k in exp}
            if not cur["run"] or exp != got:
                return {"prog": {k: cur["prog"][k] for k in ("tb", "tc", "s0")}, "why": f"iteration {e['it']}: expected {exp if cur['run'] else 'no iteration'} got {got}"}
            cur["s"], cur["n"], cur["run"] = e["s_out"], cur["n"] + 1, e["cond_out"]
        elif e["ev"] == "Done":
            if cur["run"] or e["s"] != cur["s"] or e["n"] != cur["n"]:
                return {"prog": {k: cur["prog"][k] for k in ("tb", "tc", "s0")}, "why": f"halted with s={e['s']} n={e['n']}, JAX machine at s={cur['s']} n={cur['n']} running={cur['run']}"}
    return None
