"""C17 — cast elimination removes only value-preserving round trips.

1. facts: the implementation's decision for every ordered pair of ONNX element types, and its
   Range-bound proofs on real graphs, are extracted from the working tree;
2. TLC: J2O_CastTable (miniature family: rule == value-set inclusion, round trip safe),
   J2O_CastReal (implementation table vs rule on the real formats), J2O_CastRange;
3. binding to reality: NumPy/ml_dtypes round trips over every value of every accepted pair
   (exhaustive up to 16 bits; 32 bits exhaustive in the thorough tier), and the real
   ``remove_redundant_casts_ir`` pass executed on real graphs, ORT before vs after.
"""

from __future__ import annotations

import itertools
import json
import random
from typing import Any

import numpy as np

from harness.common import Ctx, MachineryError, cleanup_tlc, run_tlc, tla, tlc_must_pass

LEVEL = "model_checking"


def _facts():
    import onnx_ir as ir
    from jax2onnx.converter import ir_optimizations as io

    names = [d.name for d in ir.DataType]
    acc = []
    for a in ir.DataType:
        for b in ir.DataType:
            try:
                ok = bool(io._cast_roundtrip_is_value_preserving(int(a), int(b)))
            except Exception as ex:  # noqa: BLE001
                raise MachineryError(f"decision procedure raised on {a},{b}: {ex!r}")
            if ok:
                acc.append((a.name, b.name))
    return names, acc


def _np_dtype(name: str):
    import onnx_ir as ir

    try:
        return ir.DataType[name].numpy()
    except Exception:  # noqa: BLE001
        return None


def _all_values(dt: np.dtype, rng: random.Random, tier: str) -> tuple[np.ndarray, bool]:
    """All values of dtype (exhaustive flag) or boundary + random sample."""
    dt = np.dtype(dt)
    bits = dt.itemsize * 8
    name = dt.name
    if name in ("int4", "uint4", "int2", "uint2", "float4_e2m1fn"):
        lo, hi = {"int4": (-8, 7), "uint4": (0, 15), "int2": (-2, 1), "uint2": (0, 3), "float4_e2m1fn": (0, 15)}[name]
        if name == "float4_e2m1fn":
            return np.arange(16, dtype=np.uint8).view(dt) if dt.itemsize == 1 else np.array([], dt), True
        return np.arange(lo, hi + 1).astype(dt), True
    if dt == np.bool_:
        return np.array([False, True]), True
    if dt.kind == "c":
        comp = np.float32 if dt == np.complex64 else np.float64
        re, _ = _all_values(np.dtype(comp), rng, "quick")
        re = re[:20000]
        im = np.roll(re, 7)
        with np.errstate(all="ignore"):
            return (re + 1j * im).astype(dt), False
    ubits = {8: np.uint8, 16: np.uint16, 32: np.uint32, 64: np.uint64}[bits]
    if bits <= 16:
        return np.arange(2**bits, dtype=np.uint32).astype(ubits).view(dt), True
    # boundary patterns + random
    pats = set()
    for k in range(bits):
        for d in (-2, -1, 0, 1, 2):
            pats.add(((1 << k) + d) % (1 << bits))
            pats.add(((1 << bits) - (1 << k) + d) % (1 << bits))
    for base in (0x7F800000, 0x7F7FFFFF, 0x00800000, 0x007FFFFF, 0x3F800000, 0x4B000000, 0x4B800000, 0xFF800000, 0x80000000, 0x7FC00000, 0x477FE000, 0x38800000, 0x33800000):
        for d in range(-3, 4):
            pats.add((base + d) % (1 << bits))
    for base in (0x7FF0000000000000, 0x7FEFFFFFFFFFFFFF, 0x0010000000000000, 0x000FFFFFFFFFFFFF, 0x3FF0000000000000, 0x4340000000000000, 0x47EFFFFFE0000000, 0x36A0000000000000, 0x3810000000000000, 0x8000000000000000):
        if bits == 64:
            for d in range(-3, 4):
                pats.add((base + d) % (1 << bits))
    n = 200_000 if tier == "quick" else 2_000_000
    arr = np.array(sorted(pats), dtype=np.uint64).astype(ubits)
    rnd = np.frombuffer(rng.randbytes(n * dt.itemsize), dtype=ubits)
    return np.concatenate([arr, rnd]).view(dt), False


def _cast(arr: np.ndarray, dt: Any) -> np.ndarray:
    dt = np.dtype(dt)
    try:
        return arr.astype(dt)
    except TypeError:
        # ml_dtypes low-bit types cannot be cast to each other directly; every value of such a
        # type is exactly representable in int64 / float64, so the detour is exact.
        via = np.int64 if (arr.dtype.kind in "iu" or arr.dtype.name.startswith(("int", "uint"))) else np.float64
        return arr.astype(via).astype(dt)


def _roundtrip_fail(vals: np.ndarray, mid: np.dtype) -> Any:
    """Return a witness value (repr) whose round trip vals->mid->vals changes it, else None."""
    src = vals.dtype
    import warnings

    with np.errstate(all="ignore"), warnings.catch_warnings():
        warnings.simplefilter("ignore")
        back = _cast(_cast(vals, mid), src)
    if src.kind in "fc" or "float" in src.name:
        try:
            nan_a = np.isnan(vals)
            nan_b = np.isnan(back)
        except TypeError:
            nan_a = nan_b = np.zeros(vals.shape, bool)
        bad = (nan_a != nan_b) | (~nan_a & (vals != back))
        try:
            bad |= ~nan_a & (np.signbit(vals) != np.signbit(back))
        except TypeError:
            pass
    else:
        bad = vals != back
    if bad.any():
        i = int(np.argmax(bad))
        return {"value": repr(vals[i]), "back": repr(back[i]), "src": src.name, "mid": np.dtype(mid).name}
    return None


def _exhaustive32(src_name: str, mid_name: str) -> Any:
    """Job: full 2**32 sweep for a 32-bit source (thorough tier)."""
    src = _np_dtype(src_name)
    mid = _np_dtype(mid_name)
    chunk = 1 << 24
    for k in range(256):
        vals = (np.arange(chunk, dtype=np.uint64) + (k << 24)).astype(np.uint32).view(src)
        w = _roundtrip_fail(vals, mid)
        if w is not None:
            return w
    return None


ORT_TYPES = ["BOOL", "INT8", "INT16", "INT32", "INT64", "UINT8", "UINT16", "UINT32", "UINT64", "FLOAT16", "FLOAT", "DOUBLE"]


def _boundary(dt: np.dtype) -> np.ndarray:
    dt = np.dtype(dt)
    if dt == np.bool_:
        return np.array([False, True, True, False])
    if dt.kind in "iu":
        info = np.iinfo(dt)
        base = [info.min, info.min + 1, -1 if info.min < 0 else 1, 0, 1, 2, 127, 128, 255, 256, 32767, 32768, 65535, 65536, 2**24, 2**24 + 1, 2**31 - 1, 2**31, 2**32 - 1, 2**32, 2**53, 2**53 + 1, info.max - 1, info.max]
        base += [-129, -128, -32769, -32768, -(2**24) - 1, -(2**31) - 1, -(2**53) - 1]
        return np.array([v for v in base if info.min <= v <= info.max], dtype=dt)
    info = np.finfo(dt)
    base = [0.0, -0.0, 1.0, -1.0, 0.5, 1.5, float(info.max), -float(info.max), float(info.tiny), float(info.smallest_subnormal), float(info.eps), 1 + float(info.eps), 65504.0, 65520.0, 2.0**24 + 1, 2.0**-24, 2.0**-25, 1e-8, 3.0000001, np.inf, -np.inf, np.nan, 16777217.0, 0.1, 1 / 3]
    with np.errstate(all="ignore"):
        return np.array(base, dtype=np.float64).astype(dt)


def _graph_case(src: str, mid: str, variant: str):
    """Build x:src -> Cast(mid) -> Cast(src) -> y in several observation variants."""
    import onnx
    from onnx import TensorProto as TP
    from onnx import helper as oh

    from harness import onnxutil as U

    s, m = getattr(TP, src), getattr(TP, mid)
    nodes = [oh.make_node("Cast", ["x"], ["m"], to=m, name="c1"), oh.make_node("Cast", ["m"], ["y0"], to=s, name="c2")]
    outs = []
    if variant == "plain":
        nodes.append(oh.make_node("Identity", ["y0"], ["y"], name="id"))
        outs = [U.vi("y", s, [None])]
    elif variant == "final_is_output":
        outs = [U.vi("y0", s, [None])]
    elif variant == "mid_is_output":
        nodes.append(oh.make_node("Identity", ["y0"], ["y"], name="id"))
        outs = [U.vi("y", s, [None]), U.vi("m", m, [None])]
    elif variant == "mid_two_consumers":
        nodes.append(oh.make_node("Identity", ["y0"], ["y"], name="id"))
        nodes.append(oh.make_node("Identity", ["m"], ["m2"], name="id2"))
        outs = [U.vi("y", s, [None]), U.vi("m2", m, [None])]
    elif variant == "mid_captured":
        # If(cond){ Identity(m) } else { Identity(m) } -- body captures the intermediate
        tb = oh.make_graph([oh.make_node("Identity", ["m"], ["t_out"])], "tb", [], [U.vi("t_out", m, [None])])
        eb = oh.make_graph([oh.make_node("Identity", ["m"], ["e_out"])], "eb", [], [U.vi("e_out", m, [None])])
        nodes.append(oh.make_node("Identity", ["y0"], ["y"], name="id"))
        nodes.append(oh.make_node("If", ["cond"], ["z"], then_branch=tb, else_branch=eb, name="if"))
        outs = [U.vi("y", s, [None]), U.vi("z", m, [None])]
    inputs = [U.vi("x", s, [None])]
    if variant == "mid_captured":
        inputs.append(U.vi("cond", TP.BOOL, []))
    return U.model(nodes, inputs, outs)


def _graph_job(src: str, mid: str, variant: str) -> dict[str, Any]:
    import onnx_ir as ir
    from jax2onnx.converter import ir_optimizations as io

    from harness import onnxutil as U

    m0 = _graph_case(src, mid, variant)
    im = ir.from_proto(m0)
    io.remove_redundant_casts_ir(im.graph)
    m1 = ir.to_proto(im)
    n0 = sum(1 for n in m0.graph.node if n.op_type == "Cast")
    n1 = sum(1 for n in m1.graph.node if n.op_type == "Cast")
    x = _boundary(_np_dtype(src))
    feeds = {"x": x}
    if variant == "mid_captured":
        feeds["cond"] = np.array(True)
    try:
        a = U.ort_run(m0, feeds)
    except Exception as ex:  # noqa: BLE001
        return {"status": "unrunnable", "why": str(ex)[:200]}
    try:
        b = U.ort_run(m1, feeds)
    except Exception as ex:  # noqa: BLE001
        return {"status": "invalid_after", "why": str(ex)[:300], "removed": n0 - n1}
    same = len(a) == len(b) and all(U.same_array(p, q) for p, q in zip(a, b))
    w = None
    if not same:
        for p, q in zip(a, b):
            if not U.same_array(p, q):
                w = {"before": repr(p)[:300], "after": repr(q)[:300]}
                break
    return {"status": "ok", "same": same, "removed": n0 - n1, "witness": w}


# ---------------------------------------------------------------------------------- Range


def _range_graph(start: int, limit: int, delta: int, mid: str, wrap: str):
    from onnx import TensorProto as TP
    from onnx import helper as oh

    from harness import onnxutil as U

    m = getattr(TP, mid)
    inits = [U.const("start", np.array(start, np.int64)), U.const("limit", np.array(limit, np.int64)), U.const("delta", np.array(delta, np.int64))]
    nodes = []
    s_in = "start"
    if wrap == "scalar_via_reshape":
        inits.append(U.const("start1", np.array([start], np.int64)))
        inits.append(U.const("shape0", np.array([], np.int64)))
        nodes.append(oh.make_node("Reshape", ["start1", "shape0"], ["start_r"], name="rs"))
        s_in = "start_r"
    nodes.append(oh.make_node("Range", [s_in, "limit", "delta"], ["r"], name="range"))
    cur = "r"
    if wrap == "unsqueeze":
        inits.append(U.const("ax0", np.array([0], np.int64)))
        nodes.append(oh.make_node("Unsqueeze", ["r", "ax0"], ["r_u"], name="unsq"))
        cur = "r_u"
    elif wrap == "identity":
        nodes.append(oh.make_node("Identity", ["r"], ["r_i"], name="idr"))
        cur = "r_i"
    nodes.append(oh.make_node("Cast", [cur], ["m"], to=m, name="c1"))
    nodes.append(oh.make_node("Cast", ["m"], ["y0"], to=TP.INT64, name="c2"))
    nodes.append(oh.make_node("Identity", ["y0"], ["y"], name="id"))
    vinfo = [U.vi(n, TP.INT64, None) for n in ("r", "r_u", "r_i", "y0", "start_r") if any(n in nd.output for nd in nodes)]
    vinfo.append(U.vi("m", m, None))
    return U.model(nodes, [], [U.vi("y", TP.INT64, None)], inits, value_info=vinfo), cur


def _range_facts(triples: list[tuple[int, int, int, str, str]]) -> list[dict[str, Any]]:
    import onnx_ir as ir
    from jax2onnx.converter import ir_optimizations as io

    out = []
    for s, l, d, mid, wrap in triples:
        m0, srcname = _range_graph(s, l, d, mid, wrap)
        im = ir.from_proto(m0)
        nodes = list(im.graph)
        src_val = None
        for n in nodes:
            for o in n.outputs:
                if o.name == srcname:
                    src_val = o
        assert src_val is not None
        fits = bool(io._cast_roundtrip_known_values_fit(nodes, src_val, int(ir.DataType.INT64), int(ir.DataType[mid])))
        b = io._known_integer_value_bounds(nodes, src_val)
        lo, hi = io._integer_dtype_bounds(int(ir.DataType[mid]))
        out.append({"s": s, "l": l, "d": d, "mid": mid, "wrap": wrap, "fits": fits, "hasB": b is not None and b[0] <= b[1], "bmin": b[0] if b else 0, "bmax": b[1] if b else 0, "lo": lo, "hi": hi})
    return out


def _range_exec(case: dict[str, Any]) -> dict[str, Any]:
    import onnx_ir as ir
    from jax2onnx.converter import ir_optimizations as io

    from harness import onnxutil as U

    m0, _ = _range_graph(case["s"], case["l"], case["d"], case["mid"], case["wrap"])
    im = ir.from_proto(m0)
    io.remove_redundant_casts_ir(im.graph)
    m1 = ir.to_proto(im)
    n1 = sum(1 for n in m1.graph.node if n.op_type == "Cast")
    a = U.ort_run(m0, {})
    b = U.ort_run(m1, {})
    return {"same": U.same_array(a[0], b[0]), "removed": 2 - n1, "pass_folded": n1 < 2, "before": a[0].tolist()[:8], "after": b[0].tolist()[:8]}


def _int_vocab_job():
    from harness.vocabreplay import impl_sets, int_vocab_cases, replay_int_vocab

    ops = sorted({o for k, v in impl_sets().items() if "INTEGER_VALUE" in k for o in v})
    return {"ops": ops, "records": replay_int_vocab(int_vocab_cases(ops))}


def run(ctx: Ctx) -> None:
    rng = random.Random(ctx.seed)
    names, acc = _facts()
    ctx.extra["impl_accepted_pairs"] = len(acc)
    facts = (
        "---- MODULE J2O_CastFacts ----\n"
        f"TypeNames == {tla(set(names))}\n"
        f"ImplAccepts == {tla(set(tuple(p) for p in acc))}\n"
        "====\n"
    )
    # ---- TLC 1: miniature family
    mini_cfg = "MC_CastMini.cfg" if ctx.quick else "MC_CastMiniThorough.cfg"
    r = run_tlc("J2O_CastTable", mini_cfg, gen_files={"J2O_CastFacts.tla": facts}, timeout=1500)
    tlc_must_pass(r, "cast mini")
    ctx.add_tlc(r, "J2O_CastTable/" + mini_cfg)
    if r.violated:
        raise MachineryError(f"specification self-inconsistency: {r.violated} violated in miniature family")
    cleanup_tlc(r)
    # ---- TLC 2: implementation table vs rule on real formats
    r = run_tlc("J2O_CastReal", "MC_CastReal.cfg", gen_files={"J2O_CastFacts.tla": facts}, timeout=300)
    tlc_must_pass(r, "cast real")
    ctx.add_tlc(r, "J2O_CastReal")
    flagged: list[tuple[str, str]] = []
    if r.violated:
        # enumerate all flagged pairs with the same rule evaluated per pair (one TLC state each)
        import re

        for m in re.finditer(r'/\\ src = "(\w+)"\s*\n/\\ mid = "(\w+)"', r.output):
            pass
        flagged = _flagged_pairs(facts)
    cleanup_tlc(r)
    ctx.extra["tlc_flagged_pairs"] = [list(p) for p in flagged]

    # ---- binding: NumPy round trips for every accepted pair
    unobservable = []
    exhaustive_pairs = 0
    jobs32 = []
    for s, t in acc:
        if s == t:
            continue
        sd, td = _np_dtype(s), _np_dtype(t)
        if sd is None or td is None or s in ("STRING", "UNDEFINED") or t in ("STRING", "UNDEFINED"):
            unobservable.append([s, t])
            if (s, t) in flagged:
                ctx.violation({"engine": "cast_table", "src": s, "mid": t}, f"cast table accepts {s}->{t}->{s} which the validated rule rejects (not executable in NumPy)")
            continue
        vals, exh = _all_values(np.dtype(sd), rng, ctx.tier)
        w = _roundtrip_fail(vals, np.dtype(td))
        ctx.count(("np", s, t), nontrivial=True, n=int(vals.size))
        exhaustive_pairs += int(exh)
        if w is not None:
            ctx.violation({"engine": "cast_table", "src": s, "mid": t}, f"decision table accepts {s}->{t}->{s} but value {w['value']} comes back as {w['back']}", w)
        elif (s, t) in flagged:
            ctx.extra.setdefault("conformance_drift", []).append({"pair": [s, t], "note": "rule rejects, NumPy round trip found no counterexample" + (" (exhaustive)" if exh else " (sampled)")})
        if not exh and np.dtype(sd).itemsize == 4 and not ctx.quick:
            jobs32.append((s, t))
        if len(ctx.cov["samples"]) < 4:
            ctx.sample({"kind": "numpy_roundtrip", "src": s, "mid": t, "values": int(vals.size), "exhaustive": exh})
    ctx.extra["numpy_exhaustive_pairs"] = exhaustive_pairs
    ctx.extra["numpy_unobservable_pairs"] = unobservable
    if jobs32:
        from harness.pool import run_tasks

        res = run_tasks([{"fn": "harness.checks.c17:_exhaustive32", "args": {"src_name": s, "mid_name": t}, "timeout": 1500} for s, t in jobs32], nworkers=14, timeout=1500)
        for tk, rs in res:
            s, t = tk["args"]["src_name"], tk["args"]["mid_name"]
            if rs.get("status") != "ok":
                raise MachineryError(f"exhaustive32 {s}->{t}: {rs}")
            ctx.count(("np32", s, t), n=2**32)
            if rs["result"] is not None:
                w = rs["result"]
                ctx.violation({"engine": "cast_table", "src": s, "mid": t}, f"decision table accepts {s}->{t}->{s} but value {w['value']} comes back as {w['back']}", w)
        ctx.extra["exhaustive_2^32_pairs"] = len(jobs32)

    # ---- binding: the real pass on real graphs, ORT before vs after
    variants = ["plain", "final_is_output", "mid_is_output", "mid_two_consumers", "mid_captured"]
    removed_pairs = 0
    traces = 0
    for s in ORT_TYPES:
        for t in ORT_TYPES:
            vs = variants if (ctx.quick is False or (s, t) in acc or rng.random() < 0.25) else ["plain"]
            for v in vs:
                res = _graph_job(s, t, v)
                if res["status"] == "unrunnable":
                    continue
                traces += 1
                ctx.count(("graph", s, t, v), nontrivial=(s != t))
                if res["status"] == "invalid_after":
                    ctx.violation({"engine": "cast_pass", "src": s, "mid": t, "variant": v}, f"remove_redundant_casts made the graph unloadable: {res['why']}")
                    continue
                removed_pairs += int(res["removed"] > 0)
                if not res["same"]:
                    ctx.violation({"engine": "cast_pass", "src": s, "mid": t, "variant": v}, f"remove_redundant_casts changed an output for {s}->{t}->{s} ({v})", res["witness"])
                if res["removed"] and len(ctx.cov["samples"]) < 8:
                    ctx.sample({"kind": "graph", "src": s, "mid": t, "variant": v, "casts_removed": res["removed"], "outputs_equal": res["same"]})
    ctx.extra["graphs_with_fold"] = removed_pairs

    # ---- Range bound proofs
    pts = [-130, -129, -128, -127, -2, -1, 0, 1, 2, 126, 127, 128, 129, 254, 255, 256, 257]
    deltas = [1, 2, 3, 127, 128, 255, -1, -2, -3, -127, -128, -255]
    triples = []
    for s, l, d in itertools.product(pts, pts, deltas):
        triples.append((s, l, d))
    small = [(s, l, d) for s in range(-4, 5) for l in range(-4, 5) for d in (-3, -2, -1, 1, 2, 3)]
    if ctx.quick:
        rng.shuffle(triples)
        triples = triples[:900]
    cases = []
    for s, l, d in triples + small:
        mid = rng.choice(["INT8", "UINT8"])
        wrap = rng.choice(["none", "none", "identity", "unsqueeze", "scalar_via_reshape"])
        cases.append((s, l, d, mid, wrap))
    # zero delta: prover must refuse
    cases += [(0, 5, 0, "INT8", "none"), (5, 0, 0, "UINT8", "none")]
    rf = _range_facts(cases)
    rfacts = "---- MODULE J2O_RangeFacts ----\nEXTENDS Integers\nCases == {\n" + ",\n".join(
        tla({k: c[k] for k in ("s", "l", "d", "lo", "hi", "fits", "hasB", "bmin", "bmax")}) for c in rf
    ) + "}\n====\n"
    r = run_tlc("J2O_CastRange", "MC_CastRange.cfg", gen_files={"J2O_RangeFacts.tla": rfacts}, timeout=600)
    tlc_must_pass(r, "cast range")
    ctx.add_tlc(r, "J2O_CastRange")
    tlc_range_violation = r.violated
    cleanup_tlc(r)
    nfit = 0
    for c in rf:
        ctx.count(("range", c["s"], c["l"], c["d"], c["mid"], c["wrap"]), nontrivial=c["fits"] or c["hasB"])
        if c["fits"]:
            nfit += 1
        # exact python mirror of FitsSound (also covers what TLC would flag) -> confirm on ORT
        seq = list(range(c["s"], c["l"], c["d"])) if c["d"] != 0 else []
        true_fit = all(c["lo"] <= v <= c["hi"] for v in seq)
        if c["fits"] and (not true_fit or nfit % 7 == 0 or not ctx.quick):
            ex = _range_exec(c)
            traces += 1
            if not ex["same"]:
                ctx.violation({"engine": "cast_range", "start": c["s"], "limit": c["l"], "delta": c["d"], "mid": c["mid"], "wrap": c["wrap"]}, f"narrowing round trip dropped for Range({c['s']},{c['l']},{c['d']})->{c['mid']} although values do not fit", ex)
            elif not true_fit:
                ctx.extra.setdefault("conformance_drift", []).append({"range": c, "note": "prover claims fit, not true, but ORT outputs equal"})
        if c["hasB"] and seq and not (c["bmin"] <= min(seq) and max(seq) <= c["bmax"]):
            ctx.extra.setdefault("conformance_drift", []).append({"range": c, "note": "computed bounds do not enclose emitted values"})
    # ---- the prover's operator vocabulary (facts): each member between Range and the cast pair, with
    # run-time operands that carry out-of-range values
    from harness.pool import run_tasks as _rt

    iv = _rt([{"fn": "harness.checks.c17:_int_vocab_job", "args": {}, "timeout": 900}], nworkers=1, timeout=900)[0][1]
    if iv.get("status") != "ok":
        raise MachineryError(f"integer vocabulary job failed: {str(iv)[:400]}")
    ctx.extra["integer_preserving_ops"] = iv["result"]["ops"]
    ctx.extra["integer_vocabulary_uninstantiable"] = sorted({r_["op"] for r_ in iv["result"]["records"] if r_["status"] != "ok"})
    for r_ in iv["result"]["records"]:
        if r_["status"] != "ok":
            continue
        traces += 1
        ctx.count(("int_vocab", r_["op"], r_["src"], r_["mid"]), nontrivial=r_["casts_after"] < 2)
        if not r_["same"]:
            ctx.violation({"engine": "cast_int_vocab", "op": r_["op"], "src": r_["src"], "mid": r_["mid"]},
                          f"narrowing round trip {r_['src']}->{r_['mid']}->{r_['src']} dropped behind {r_['op']}(Range, run-time operand): {r_.get('witness')}", r_)
    if tlc_range_violation == "FitsSound" and not ctx.violations:
        ctx.extra.setdefault("conformance_drift", []).append({"note": "TLC FitsSound violated but ORT shows no output change"})
    ctx.extra["range_cases"] = len(rf)
    ctx.extra["range_cases_fit"] = nfit
    ctx.sample({"kind": "range", **{k: rf[0][k] for k in ("s", "l", "d", "mid", "wrap", "fits")}})
    ctx.cov["traces_validated_against_impl"] = traces
    ctx.cov["rule"] = (
        "distinct = (source type, intermediate type[, graph variant]) pairs and Range triples; non-trivial = "
        "source != intermediate, or Range case where the prover produced bounds"
    )
    ctx.assumptions += [
        "NumPy/ml_dtypes astype implements ONNX Cast for the accepted pairs (cross-checked with ORT on boundary values for ORT-supported types)",
        "64-bit sources are covered by boundary patterns + random samples, not exhaustively",
    ]


def _flagged_pairs(facts: str) -> list[tuple[str, str]]:
    """All (src, mid) the implementation accepts and the rule rejects (TLC evaluates the rule)."""
    mod = (
        "---- MODULE J2O_CastFlag ----\nEXTENDS J2O_CastReal, Json\n"
        "Unsafe == {p \\in ImplAccepts : ~Accepts(RealFmt(p[1]), RealFmt(p[2]))}\n"
        "ASSUME PrintT(ToJson(Unsafe))\n====\n"
    )
    r = run_tlc("J2O_CastFlag", "MC_CastReal.cfg", gen_files={"J2O_CastFacts.tla": facts, "J2O_CastFlag.tla": mod}, timeout=300, coverage=False)
    out = []
    for line in r.output.splitlines():
        line = line.strip()
        if line.startswith('"[') and line.endswith(']"'):
            try:
                out = [tuple(p) for p in json.loads(json.loads(line))]
            except Exception:  # noqa: BLE001
                pass
    cleanup_tlc(r)
    return out
