"""C15 — all return and file modes deliver the same model.

A. TLC: J2O_FileModes, all sequences of <= MaxExports exports to one path over {standard, web} x
   {small, large, exactly-at-threshold}: LoadIsLastExport, WebSelfContained, StaleNeverReferenced.
B. spec -> code: every sequence is executed in a scratch directory with the real to_onnx
   (return_mode='file'); after every step the file is reloaded and compared with return_mode
   'proto' and 'ir' of the same request: graph, parameter bytes, ORT outputs, the mathematically
   expected result of THIS export (a stale sidecar would compute an earlier one), external-data and
   sidecar state vs the specification.
"""

from __future__ import annotations

import json

from harness.common import Ctx, MachineryError, cleanup_tlc, parse_tlc_values, run_tlc, tlc_must_pass
from harness.pool import run_tasks

LEVEL = "model_checking"


def _seq_job(seqs):
    from harness.filejobs import run_sequences

    return run_sequences(seqs)


def run(ctx: Ctx) -> None:
    seqs = []
    for n in ((1, 2, 3) if ctx.quick else (1, 2, 3, 4)):
        cfg = f"MC_FileModes{n}.cfg"
        r = run_tlc("MC_FileModes", cfg, gen_files={cfg: f"CONSTANTS\n  MaxExports = {n}\nSPECIFICATION Spec\nINVARIANT LoadIsLastExport\nINVARIANT WebSelfContained\nINVARIANT StaleNeverReferenced\nINVARIANT EmitAll\nCHECK_DEADLOCK FALSE\n"}, timeout=900, workers=1)
        tlc_must_pass(r, f"J2O_FileModes[{n}]")
        ctx.add_tlc(r, f"J2O_FileModes (sequences of {n})")
        if r.violated:
            raise MachineryError(f"J2O_FileModes: {r.violated} violated")
        vals = parse_tlc_values(r.output.splitlines())
        cleanup_tlc(r)
        seqs += vals
    # dedupe (edge nondeterminism emits one line per outcome); keep the hist, final state free when edge present
    uniq = {}
    for s in seqs:
        uniq.setdefault(json.dumps(s["hist"]), s)
    seqs = list(uniq.values())
    if ctx.quick:
        # all sequences of length <= 2, and those of length 3 that end or start with a large/edge standard export
        rng = __import__("random").Random(ctx.seed)
        ones = [s for s in seqs if len(s["hist"]) == 1]
        # pairs / triples: the neighbourhoods of the sidecar logic -- something spilled (top or body) followed or
        # preceded by a self-contained export, and every spelling
        def keyish(s):
            h = s["hist"]
            return any(x[1] != "small" for x in h) and h[-1] != h[0]
        twos = [s for s in seqs if len(s["hist"]) == 2 and keyish(s)]
        threes = [s for s in seqs if len(s["hist"]) == 3 and keyish(s)]
        rng.shuffle(twos)
        rng.shuffle(threes)
        body2 = [s for s in twos if any(x[2] == "body" for x in s["hist"])][:14]
        spell2 = [s for s in twos if any(x[3] != "canonical" for x in s["hist"]) and s not in body2][:14]
        seqs = ones + body2 + spell2 + [s for s in twos if s not in body2 and s not in spell2][:30] + threes[:16]
    ctx.extra["sequences"] = len(seqs)
    n = 14
    chunks = [seqs[i::n] for i in range(n)]
    res = run_tasks([{"fn": "harness.checks.c15:_seq_job", "args": {"seqs": c}, "timeout": 2400} for c in chunks if c], nworkers=n, timeout=2400)
    steps = 0
    for task, out in res:
        if out.get("status") != "ok":
            raise MachineryError(f"file-mode worker failed: {str(out)[:700]}")
        for rec in out["result"]:
            seq = task["args"]["seqs"][rec["i"]]
            steps += len(rec["steps"])
            ctx.count(json.dumps(seq["hist"]), nontrivial=len(seq["hist"]) > 1 or seq["hist"][0][1] != "small", n=max(1, len(rec["steps"])))
            for p in rec["problems"]:
                ctx.violation({"engine": "file_modes", "hist": seq["hist"], "what": p.split(":")[-1].strip()[:60]}, f"exports {seq['hist']} to one path: {p}", rec)
            if len(ctx.cov["samples"]) < 8 and len(seq["hist"]) > 1:
                ctx.sample({"sequence": seq["hist"], "steps": rec["steps"], "problems": rec["problems"]})
    ctx.cov["traces_validated_against_impl"] = len(seqs)
    ctx.extra["export_steps_executed"] = steps
    ctx.cov["rule"] = "one evaluation = one export step of a TLC-enumerated sequence on the real file system (reload + proto + ir comparisons); distinct = distinct sequences; non-trivial = more than one export or a spilled parameter"
    ctx.assumptions += ["onnx.load resolves external data the way deployments do", "parameter sizes 4.8 kB / exactly 1 MiB / 1.2 MB"]
