"""C19 — library calls keep their call signature while being traced.

1. extract: inspect.signature of every patched (target, attr) slot's original and of the substitute
   the REAL plugin worlds install (follow_wrapped=False: the real calling convention) -> facts.
2. model-check: J2O_CallForms (Python's argument binding as a step machine) on
   (a) the complete miniature family of signatures (every kind / default layout up to 3 parameters,
       keyword arguments processed in every order): the machine is confluent and equals its closed form;
   (b) the extracted facts: every call form the original binds (all positional counts x keyword subsets,
       bounded number of optional keywords) is bound by the substitute and positions keep their names,
       except <<slot, reason>> pairs listed as known findings.
3. spec -> code: (i) every (signature, form, verdict) TLC produced is replayed against
   inspect.Signature.bind of the real objects; (ii) the accepted forms are EXECUTED: base calls recorded
   from the project's own testcases supply in-domain operands, each form is exported as a one-call
   program and must equal the eager result of the original function in ORT, or be rejected explicitly;
   (iii) one-parameter non-default variations that eager JAX accepts are executed the same way.
"""

from __future__ import annotations

import inspect
import itertools
import json
import random
from typing import Any

from harness.common import VERIF, Ctx, MachineryError, cleanup_tlc, parse_tlc_values, run_tlc, tla, tlc_must_pass
from harness.pool import run_tasks

LEVEL = "model_checking"

STANDINS = {
    "J2O_CallFormsFacts.tla": '---- MODULE J2O_CallFormsFacts ----\nSlots == <<[id |-> "m.f", orig |-> <<[n |-> "x", k |-> "pk", d |-> FALSE]>>, sub |-> <<[n |-> "args", k |-> "vp", d |-> FALSE]>>]>>\nListed == {<<"m.g", "unexpected_keyword">>}\nMaxOpt == 2\nKwAnyOrder == TRUE\n====\n'
}

_KIND = {"po": inspect.Parameter.POSITIONAL_ONLY, "pk": inspect.Parameter.POSITIONAL_OR_KEYWORD, "vp": inspect.Parameter.VAR_POSITIONAL,
         "ko": inspect.Parameter.KEYWORD_ONLY, "vk": inspect.Parameter.VAR_KEYWORD}


def _sig_tla(sig: list[dict[str, Any]]) -> str:
    return "<<" + ", ".join(f'[n |-> {tla(p["n"])}, k |-> {tla(p["k"])}, d |-> {tla(bool(p["d"]))}]' for p in sig) + ">>"


def _facts(slots: list[dict[str, Any]], listed: set[tuple[str, str]], maxopt: int, anyorder: bool) -> str:
    rows = [f'[id |-> {tla(s["id"])}, orig |-> {_sig_tla(s["orig"])}, sub |-> {_sig_tla(s["sub"])}]' for s in slots]
    lst = "{" + ", ".join(f"<<{tla(a)}, {tla(b)}>>" for a, b in sorted(listed)) + "}"
    return ("---- MODULE J2O_CallFormsFacts ----\nSlots == <<\n  " + ",\n  ".join(rows) + "\n>>\n" + f"Listed == {lst}\nMaxOpt == {maxopt}\nKwAnyOrder == {tla(anyorder)}\n====\n")


def _mini_slots(quick: bool) -> list[dict[str, Any]]:
    kinds = ["po", "pk", "vp", "ko", "vk"]
    rank = {k: i for i, k in enumerate(kinds)}
    names = ["a", "b", "c"]

    def valid(sig) -> bool:
        ks = [p["k"] for p in sig]
        if any(rank[ks[i]] > rank[ks[i + 1]] for i in range(len(ks) - 1)):
            return False
        if ks.count("vp") > 1 or ks.count("vk") > 1:
            return False
        seen = False
        for p in sig:
            if p["k"] in ("vp", "vk") and p["d"]:
                return False
            if p["k"] in ("po", "pk"):
                if p["d"]:
                    seen = True
                elif seen:
                    return False
        return True

    def sigs(maxlen: int, perms: bool):
        out = []
        for L in range(maxlen + 1):
            for ks in itertools.product(kinds, repeat=L):
                for ds in itertools.product([False, True], repeat=L):
                    for nm in (itertools.permutations(names[:L]) if perms else [tuple(names[:L])]):
                        sig = [{"n": nm[i], "k": ks[i], "d": ds[i]} for i in range(L)]
                        if valid(sig):
                            out.append(sig)
        return out

    origs = sigs(3, False)
    subs = sigs(1 if quick else 2, True)
    out = []
    for i, o in enumerate(origs):
        out.append({"id": f"mini{i}.self", "orig": o, "sub": o})
        for j, s in enumerate(subs):
            out.append({"id": f"mini{i}.{j}", "orig": o, "sub": s})
    return out


def _py_fn(sig: list[dict[str, Any]]):
    """A real Python function with this parameter list: CALLING it is the oracle for the binding
    algorithm (inspect.Signature.bind deviates from the interpreter for positional-only names passed
    as keywords next to **kwargs)."""
    parts = []
    slash_done = star_done = False
    kinds = [p["k"] for p in sig]
    for i, p in enumerate(sig):
        k = p["k"]
        if k != "po" and not slash_done and "po" in kinds[:i]:
            parts.append("/")
            slash_done = True
        if k == "ko" and not star_done and "vp" not in kinds:
            parts.append("*")
            star_done = True
        if k == "vp":
            parts.append("*" + p["n"])
            star_done = True
        elif k == "vk":
            parts.append("**" + p["n"])
        else:
            parts.append(p["n"] + ("=0" if p["d"] else ""))
    if "po" in kinds and not slash_done:
        parts.append("/")
    ns: dict[str, Any] = {}
    exec("def f(" + ", ".join(parts) + "):\n    return 1\n", ns)
    return ns["f"]


def _py_accepts(fn, np_: int, kws) -> bool:
    try:
        fn(*([0] * np_), **{k: 0 for k in kws})
        return True
    except TypeError:
        return False


def _census_job():
    from harness.formjobs import census_job

    return census_job()


def _detail(slot: dict[str, Any], row: dict[str, Any]) -> str:
    """Which argument of the form the substitute's signature cannot take."""
    sub = slot["sub"]
    kwn = {p["n"] for p in sub if p["k"] in ("pk", "ko")}
    npos = sum(1 for p in sub if p["k"] in ("po", "pk"))
    v = row["v"]
    if v == "unexpected_keyword":
        bad = sorted(k for k in row["kw"] if k not in kwn)
        return bad[0] if bad else "?"
    if v == "too_many_positional":
        orig_pos = [p["n"] for p in slot["orig"] if p["k"] in ("po", "pk")]
        return f"positional:{orig_pos[npos]}" if npos < len(orig_pos) else f"positional#{npos + 1}"
    if v == "multiple_values":
        pos = [p["n"] for p in sub if p["k"] in ("po", "pk")][: row["np"]]
        bad = sorted(k for k in row["kw"] if k in pos)
        return bad[0] if bad else "?"
    if v == "missing_argument":
        have = set([p["n"] for p in sub if p["k"] in ("po", "pk")][: row["np"]]) | set(row["kw"])
        bad = [p["n"] for p in sub if p["k"] in ("po", "pk", "ko") and not p["d"] and p["n"] not in have]
        return bad[0] if bad else "?"
    return "?"


def run(ctx: Ctx) -> None:
    rng = random.Random(ctx.seed)
    cen = run_tasks([{"fn": "harness.checks.c19:_census_job", "args": {}, "timeout": 900}], nworkers=1, timeout=900)[0][1]
    if cen.get("status") != "ok":
        raise MachineryError(f"signature census failed: {str(cen)[:500]}")
    census = cen["result"]
    ctx.extra["slots_patched"] = len(census)
    usable = [s for s in census if s["orig"] is not None and s["sub"] is not None]
    ctx.extra["slots_with_introspectable_signatures"] = len(usable)
    ctx.extra["substitutes_forwarding_varargs"] = sum(1 for s in usable if any(p["k"] == "vp" for p in s["sub"]) and any(p["k"] == "vk" for p in s["sub"]))
    if len(usable) < 50:
        raise MachineryError(f"only {len(usable)} substituted slots found (registry not populated?)")

    # ---- (a) miniature family: the binding machine itself
    mini = _mini_slots(ctx.quick)
    r = run_tlc("MC_CallForms", "MC_CallFormsCensus.cfg", gen_files={"J2O_CallFormsFacts.tla": _facts(mini, set(), 3, True)}, timeout=600)
    tlc_must_pass(r, "J2O_CallForms miniature family")
    ctx.add_tlc(r, "J2O_CallForms on the miniature signature family (every kind/default layout <= 3 parameters, any keyword order)")
    if r.violated:
        raise MachineryError(f"J2O_CallForms: {r.violated} violated on the miniature family (specification bug)")
    rows = parse_tlc_values(r.output.splitlines())
    cleanup_tlc(r)
    bad = 0
    cache: dict[int, tuple[Any, Any]] = {}
    for row in rows:
        s = row["s"] - 1
        if s not in cache:
            cache[s] = (_py_fn(mini[s]["orig"]), _py_fn(mini[s]["sub"]))
        po, ps = cache[s]
        if _py_accepts(po, row["np"], row["kw"]) != (row["o"] == "ok") or _py_accepts(ps, row["np"], row["kw"]) != (row["v"] == "ok"):
            bad += 1
    ctx.extra["mini_rows_checked_against_python_bind"] = len(rows)
    if bad or not rows:
        raise MachineryError(f"J2O_CallForms disagrees with the Python interpreter's own argument binding on {bad} of {len(rows)} miniature forms (specification bug)")
    ctx.cov["evaluations"] += len(rows)

    # ---- (b) the extracted facts
    members: dict[str, list[str]] = {}
    for s_ in usable:
        members.setdefault(s_.get("group", s_["id"]), []).append(s_["id"])
    listed = {(sid, k["signature"]["reason"]) for k in ctx.known if k.get("status", "open") == "open" and k["signature"].get("engine") == "callforms_sig"
              for sid in members.get(k["signature"]["substitute"], [k["signature"]["substitute"]])}
    maxopt = 2 if ctx.quick else 3
    ftext = _facts(usable, listed, maxopt, False)
    r = run_tlc("MC_CallForms", "MC_CallFormsFacts.cfg", gen_files={"J2O_CallFormsFacts.tla": ftext}, timeout=600)
    tlc_must_pass(r, "J2O_CallForms on extracted signatures")
    ctx.add_tlc(r, "J2O_CallForms on the signatures extracted from the working tree")
    facts_violated = r.violated
    if r.violated:
        # an unlisted signature-level rejection: enumerate all of them without the property invariants
        cleanup_tlc(r)
        r = run_tlc("MC_CallForms", "MC_CallFormsCensus.cfg", gen_files={"J2O_CallFormsFacts.tla": ftext}, timeout=600)
        tlc_must_pass(r, "J2O_CallForms census")
        if r.violated:
            raise MachineryError(f"J2O_CallForms census run: {r.violated} violated on extracted facts (specification bug)")
    rows = parse_tlc_values(r.output.splitlines())
    cleanup_tlc(r)
    if not rows:
        raise MachineryError("no call forms emitted")
    ctx.extra["call_forms_enumerated"] = len(rows)
    ctx.extra["tlc_facts_invariant"] = facts_violated or "holds"
    forms_by_slot: dict[str, list[dict[str, Any]]] = {}
    sigbad: dict[tuple[str, str, str], dict[str, Any]] = {}
    badform: dict[tuple[str, int, tuple], tuple[str, str]] = {}
    chk = []
    for row in rows:
        s = usable[row["s"] - 1]
        chk.append({"s": s["i"], "w": "o", "np": row["np"], "kw": row["kw"], "acc": row["o"] == "ok"})
        chk.append({"s": s["i"], "w": "s", "np": row["np"], "kw": row["kw"], "acc": row["v"] == "ok"})
        if "zz_extra" not in row["kw"]:
            forms_by_slot.setdefault(s["id"], []).append({"np": row["np"], "kw": sorted(row["kw"])})
        if row["v"] != "ok":
            onpos = sum(1 for p in s["orig"] if p["k"] in ("po", "pk"))
            okw = {p["n"] for p in s["orig"] if p["k"] in ("pk", "ko")}
            if row["np"] <= onpos and set(row["kw"]) <= okw:  # only the original's own parameters are passed
                key = (s["id"], row["v"], _detail(s, row))
                badform[(s["id"], row["np"], tuple(sorted(row["kw"])))] = (row["v"], key[2])
                if key not in sigbad or (row["np"] + len(row["kw"])) < (sigbad[key]["np"] + len(sigbad[key]["kw"])):
                    sigbad[key] = row
    must_by_slot: dict[str, list[dict[str, Any]]] = {}
    for (sid, _reason, _detail_), row in sigbad.items():
        must_by_slot.setdefault(sid, []).append({"np": row["np"], "kw": sorted(row["kw"])})

    # fact: same-named parameters whose default differs between original and substitute (None / sentinel in the
    # substitute means "defer to the original" and is not a difference)
    default_diffs: dict[str, list[str]] = {}
    for s in usable:
        od = {p["n"]: p.get("r") for p in s["orig"] if p.get("d")}
        for p in s["sub"]:
            if p.get("d") and p["n"] in od and p.get("r") not in (od[p["n"]], "None", "<sentinel>"):
                default_diffs.setdefault(s["id"], []).append(p["n"])
    ctx.extra["substitute_defaults_differ"] = default_diffs
    group_of = {s["id"]: s.get("group", s["id"]) for s in usable}
    # ---- spec -> code
    comps = sorted({c for s in usable for c in s["components"]})
    by_comp: dict[str, list[str]] = {}
    for s in usable:
        by_comp.setdefault(s["components"][0], []).append(s["id"])
    comp_list = sorted(by_comp)
    if ctx.quick:
        rng.shuffle(comp_list)
        # every substitute whose signature is explicit is always executed; forwarding ones are sampled
        explicit = {s["components"][0] for s in usable if not any(p["k"] == "vp" for p in s["sub"])}
        # substitutes whose source file differs from the recorded baseline (harness/plugin_hashes.json, written
        # by tools/plugin_hashes.py for the registered tree) are always executed
        try:
            base_h = json.loads((VERIF / "harness" / "plugin_hashes.json").read_text())
        except Exception:  # noqa: BLE001
            base_h = {}
        changed = {s["components"][0] for s in usable if s.get("src", {}).get("file") and base_h.get(s["src"]["file"]) not in (None, s["src"]["hash"])}
        ctx.extra["substitutes_changed_since_baseline"] = sorted(changed)[:40]
        comp_list = sorted(set(comp_list[: max(40, len(comp_list) // 3)]) | explicit | changed | {s["components"][0] for s in usable if s["id"] in default_diffs})
    chunks = [comp_list[i::28] for i in range(28)]
    tasks = [{"fn": "harness.formjobs:bindcheck_job", "args": {"forms": chk}, "timeout": 900}]
    for ch in chunks:
        if not ch:
            continue
        allc = sorted({c for s in usable if s["components"][0] in ch for c in s["components"]})
        fb = {sid: forms_by_slot.get(sid, []) for c in ch for sid in by_comp[c]}
        mb = {sid: must_by_slot.get(sid, []) for c in ch for sid in by_comp[c]}
        tasks.append({"fn": "harness.formjobs:forms_job", "args": {"components": allc, "forms_by_slot": fb, "must_by_slot": mb, "max_base": 2 if ctx.quick else 3,
                                                                   "max_forms": 16 if ctx.quick else 100000, "budget_s": 420 if ctx.quick else 2400, "seed": ctx.seed,
                                                                   "default_diffs": {sid: default_diffs[sid] for c in ch for sid in by_comp[c] if sid in default_diffs}},
                      "timeout": 700 if ctx.quick else 3000})
    res = run_tasks(tasks, nworkers=14, timeout=3400)
    executed = 0
    confirmed: set[tuple[str, str, str]] = set()
    per_status: dict[str, int] = {}
    nobase: list[str] = []
    drift: list[dict[str, Any]] = []
    base_problems: list[dict[str, Any]] = []
    seen_slots: set[str] = set()
    for task, out in res:
        if out.get("status") != "ok":
            if out.get("status") in ("timeout", "crash"):
                ctx.extra.setdefault("jobs_timed_out_or_crashed", []).append(task["args"].get("components", ["bindcheck"])[:3])
                continue
            raise MachineryError(f"C19 worker failed: {str(out)[:900]}")
        if task["fn"].endswith("bindcheck_job"):
            bc = out["result"]
            ctx.extra["rows_checked_against_real_signature_objects"] = bc["n"]
            if bc["bad"]:
                raise MachineryError("J2O_CallForms disagrees with inspect.Signature.bind on real signatures (specification or extraction bug): " + json.dumps(bc["bad"][:2])[:500])
            continue
        for sr in out["result"]:
            if sr["slot"] in seen_slots:
                continue
            seen_slots.add(sr["slot"])
            if sr["base_calls"] == 0:
                nobase.append(sr["slot"])
            fails: list[dict[str, Any]] = []
            grp = sr.get("group") or sr["slot"]
            for f in sr["forms"]:
                per_status[f["status"]] = per_status.get(f["status"], 0) + 1
                if f["kind"] == "base":
                    if f["status"] not in ("ok",) and len(base_problems) < 40:
                        base_problems.append({"slot": sr["slot"], **{k: f.get(k) for k in ("status", "error", "call")}})
                    continue
                executed += 1
                ctx.count(("form", sr["slot"], f["form"]), nontrivial=f["status"] in ("ok", "export_raised", "mismatch"))
                st = f["status"]
                what = None
                if st == "export_raised":
                    if f.get("class") == "explicit":
                        per_status["explicit_rejection"] = per_status.get("explicit_rejection", 0) + 1
                    elif f.get("same_call"):
                        what = "respelled_call_fails"
                    elif f.get("class") == "binding":
                        what = "binding_error"
                    else:
                        drift.append({"slot": sr["slot"], "form": f["form"], "error": f.get("error", "")[:200]})
                elif st == "mismatch":
                    what = "different_result"
                elif st == "ort_failed" and f.get("same_call"):
                    what = "respelled_call_invalid_model"
                elif st in ("ort_failed", "iface"):
                    drift.append({"slot": sr["slot"], "form": f["form"], "error": (f.get("error") or "")[:200]})
                if what and st == "export_raised" and f["kind"] == "form" and (sr["slot"], f.get("npos"), tuple(f.get("kw") or ())) in badform:
                    # explained by the signature-level analysis: the substitute cannot bind this form at all
                    reason, detail = badform[(sr["slot"], f.get("npos"), tuple(f.get("kw") or ()))]
                    confirmed.add((sr["slot"], reason, detail))
                    ctx.violation({"engine": "callforms_sig", "substitute": grp, "reason": reason, "detail": detail},
                                  f"{sr['slot']}: the original binds and accepts the call form {f['form']} but the installed substitute rejects it ({reason}: {detail}): {f.get('error')}", {"slot": sr["slot"], "form": f})
                elif what:
                    fails.append({**f, "what": what})
            # attribute to minimal argument changes
            for f in fails:
                d = set(f.get("delta") or [])
                if f["kind"] == "form" and any(set(g.get("delta") or []) < d for g in fails if g["kind"] == "form"):
                    continue
                sig = {"engine": "callforms", "substitute": sr.get("group") or sr["slot"], "what": f["what"]}
                if f["kind"] == "nondefault":
                    sig["nondefault"] = f["form"]
                else:
                    sig["delta"] = sorted(d)
                ctx.violation(sig, f"{sr['slot']} called with {f['form']} ({'same call as the recorded one, re-spelled' if f.get('same_call') else 'a call eager JAX accepts'}): {f['what']}: {f.get('error') or f.get('detail')}", {"slot": sr["slot"], "form": f})
            if len(ctx.cov["samples"]) < 10 and sr["base_calls"]:
                ctx.sample({"slot": sr["slot"], "base_calls": sr["base_calls"], "forms": [{k: f.get(k) for k in ("kind", "form", "status", "same_call")} for f in sr["forms"][:6]]})
    # signature-level rejections whose witness could not be executed (no in-domain base call): reported, not alarmed
    unconfirmed = sorted(k for k in sigbad if k not in confirmed)
    ctx.extra["signature_level_rejections_confirmed_by_execution"] = len(confirmed)
    ctx.extra["signature_level_rejections_unconfirmed"] = [{"slot": a, "reason": b, "detail": c} for a, b, c in unconfirmed][:120]
    ctx.extra["forms_executed_on_real_exports"] = executed
    ctx.extra["form_status"] = dict(sorted(per_status.items()))
    ctx.extra["slots_executed"] = len(seen_slots)
    ctx.extra["slots_without_base_call"] = sorted(nobase)[:400]
    ctx.extra["n_slots_without_base_call"] = len(nobase)
    ctx.extra["unclassified_rejections_drift"] = drift[:40]
    ctx.extra["n_unclassified_rejections_drift"] = len(drift)
    ctx.extra["base_call_problems_not_judged_here"] = base_problems
    ctx.extra["signature_level_rejections"] = len(sigbad)
    ctx.cov["traces_validated_against_impl"] = executed
    ctx.cov["rule"] = ("one evaluation = one call form through inspect.Signature.bind (spec vs Python) or one form executed as a one-call export in ORT vs the eager original; "
                       "distinct = (slot, form); non-trivial = the export produced a comparable result or an exception")
    ctx.assumptions += [
        "a call counts only if the ORIGINAL function accepts it outside conversion (eager JAX is the acceptor and the reference)",
        "base operands are recorded from the project's own testcases (in-domain); array arguments become model inputs, everything else is closed over",
        "an export error is explicit when it is NotImplementedError or says unsupported / not implemented / only supports / must be static",
        "exceptions of a changed (not merely re-spelled) call that are neither binding errors nor explicit are reported as drift, not as violations",
        "a signature-level rejection found by TLC is alarmed only after its witness form was executed: eager JAX accepts it and the export raises at the substitute's call boundary",
    ]
