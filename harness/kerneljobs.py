"""C01 spec-exact kernel: cases enumerated by J2O_OpSem executed on real exports, three-way comparison."""

from __future__ import annotations

from typing import Any

import numpy as np


def _templates():
    import jax
    import jax.numpy as jnp
    from jax import lax

    f32, i32 = np.float32, np.int32
    U = {
        "floor": jnp.floor, "ceil": jnp.ceil,
        "round_away": lambda x: lax.round(x, lax.RoundingMethod.AWAY_FROM_ZERO),
        "round_even": lambda x: lax.round(x, lax.RoundingMethod.TO_NEAREST_EVEN),
        "sign": jnp.sign, "abs": jnp.abs, "neg": lambda x: -x,
        "to_int": lambda x: x.astype(jnp.int32),
    }
    B = {
        "div": lax.div, "rem": lax.rem, "floor_divide": jnp.floor_divide, "mod": jnp.mod,
        "max": jnp.maximum, "min": jnp.minimum,
    }
    T: dict[str, Any] = {}
    for k, f in U.items():
        T[("unary", k)] = (f, [((None,), f32)])
    for k, f in B.items():
        T[("binary", k)] = (f, [((None,), i32), ((None,), i32)])
    for n in range(4):
        T[("ipow", n)] = ((lambda x, n=n: lax.integer_pow(x, n)), [((None,), i32)])
    T[("clamp", 0)] = (lambda lo, x, hi: lax.clamp(lo, x, hi), [((None,), i32)] * 3)
    T[("onehot", 0)] = (lambda i: jax.nn.one_hot(i, 3, dtype=jnp.float32), [((None,), i32)])
    T[("vec", "argmax")] = (lambda v: jnp.argmax(v, axis=1), [((None, 3), i32)])
    T[("vec", "argmin")] = (lambda v: jnp.argmin(v, axis=1), [((None, 3), i32)])
    T[("vec", "cumsum")] = (lambda v: jnp.cumsum(v, axis=1), [((None, 3), i32)])
    T[("vec", "cumsum_rev")] = (lambda v: lax.cumsum(v, axis=1, reverse=True), [((None, 3), i32)])
    T[("vec", "sort")] = (lambda v: jnp.sort(v, axis=1), [((None, 3), i32)])
    for lc in (0, 1):
        for rc in (0, 1):
            # one 2-D dot_general per case (the 2-D Gemm/MatMul path is the one with transposition flags)
            T[("dot", lc, rc)] = ((lambda a, b, lc=lc, rc=rc: lax.dot_general(a, b, (((lc,), (rc,)), ((), ())))), [((2, 2), f32), ((2, 2), f32)])
            T[("dot_i", lc, rc)] = ((lambda a, b, lc=lc, rc=rc: jnp.tensordot(a, b, axes=((lc,), (rc,)))), [((2, 2), i32), ((2, 2), i32)])
    return T


def run_cases(cases: list[dict[str, Any]]) -> dict[str, Any]:
    """Group cases per template, export each template once (symbolic batch), run all inputs at once."""
    import jax
    import jax.numpy as jnp

    import jax2onnx
    from harness import onnxutil as U

    T = _templates()
    groups: dict[Any, list[dict[str, Any]]] = {}
    for rec in cases:
        c = rec["c"]
        if c["k"] == "unary":
            key = ("unary", c["op"])
        elif c["k"] == "binary":
            key = ("binary", c["op"])
        elif c["k"] == "ipow":
            key = ("ipow", c["n"])
        elif c["k"] == "clamp":
            key = ("clamp", 0)
        elif c["k"] == "onehot":
            key = ("onehot", 0)
        elif c["k"] == "dot":
            key = ("dot", c["lc"], c["rc"])
        else:
            key = ("vec", c["op"])
        groups.setdefault(key, []).append(rec)
    out: dict[str, Any] = {"n": 0, "mismatch": [], "spec_vs_jax": [], "export_failed": []}
    for key, recs in groups.items():
        if key[0] == "dot":
            _run_dot(key, recs, T, out)
            continue
        fn, specs = T[key]
        N = len(recs)
        if key[0] == "unary":
            args = [np.array([r["c"]["x"] / 2.0 for r in recs], np.float32)]
            exp = np.array([r["r"] / 2.0 for r in recs])
            if key[1] == "to_int":
                exp = np.array([r["r"] // 2 for r in recs])
        elif key[0] == "binary":
            args = [np.array([r["c"]["a"] for r in recs], np.int32), np.array([r["c"]["b"] for r in recs], np.int32)]
            exp = np.array([r["r"] for r in recs])
        elif key[0] == "ipow":
            args = [np.array([r["c"]["a"] for r in recs], np.int32)]
            exp = np.array([r["r"] for r in recs])
        elif key[0] == "clamp":
            args = [np.array([r["c"][f] for r in recs], np.int32) for f in ("lo", "x", "hi")]
            exp = np.array([r["r"] for r in recs])
        elif key[0] == "onehot":
            args = [np.array([r["c"]["i"] for r in recs], np.int32)]
            exp = np.array([r["r"] for r in recs], np.float32)
        else:
            args = [np.array([r["c"]["v"] for r in recs], np.int32)]
            exp = np.array([r["r"] for r in recs])
        # concrete batch size: several of these primitives refuse a symbolic dimension (loudly), which
        # is a different question from their value semantics
        sds = [jax.ShapeDtypeStruct(tuple(N if d is None else d for d in shp), dt) for shp, dt in specs]
        try:
            m = jax2onnx.to_onnx(fn, sds)
            got = np.asarray(U.ort_run(m, {i.name: a for i, a in zip(m.graph.input, args)})[0])
        except Exception as ex:  # noqa: BLE001
            out["export_failed"].append({"template": str(key), "error": f"{type(ex).__name__}: {str(ex)[:200]}"})
            continue
        ref = np.asarray(fn(*[jnp.asarray(a) for a in args]))
        out["n"] += N
        for i in range(N):
            e, g, j = np.asarray(exp[i]), np.asarray(got[i]), np.asarray(ref[i])
            if not np.array_equal(e.astype(np.float64), j.astype(np.float64)):
                out["spec_vs_jax"].append({"case": recs[i]["c"], "spec": e.tolist(), "jax": j.tolist()})
            if g.shape != j.shape or not np.array_equal(g.astype(np.float64), j.astype(np.float64)) or (np.signbit(g) != np.signbit(j)).any() and g.dtype.kind == "f" and False:
                out["mismatch"].append({"case": recs[i]["c"], "template": str(key), "ort": g.tolist(), "jax": j.tolist(), "spec": e.tolist()})
    return out


def _run_dot(key, recs, T, out) -> None:
    """2x2 dot_general: one export per (lc, rc) and dtype path, one ORT run per (A, B) pair."""
    import jax
    import jax.numpy as jnp

    import jax2onnx
    from harness import onnxutil as U

    for tk, dt in ((key, np.float32), (("dot_i",) + tuple(key[1:]), np.int32)):
        fn, specs = T[tk]
        try:
            m = jax2onnx.to_onnx(fn, [jax.ShapeDtypeStruct(shp, d) for shp, d in specs])
            names = [i.name for i in m.graph.input]
            try:
                sess = U.ort_session(m)
            except Exception as ex:  # noqa: BLE001
                if "NOT_IMPLEMENTED" not in str(ex):
                    raise
                # ORT has no integer Gemm kernel (a runtime limit): execute with the ONNX reference evaluator
                from onnx.reference import ReferenceEvaluator

                sess = ReferenceEvaluator(m)
                out["runtime_limit_reference_evaluator"] = out.get("runtime_limit_reference_evaluator", 0) + 1
        except Exception as ex:  # noqa: BLE001
            out["export_failed"].append({"template": str(tk), "error": f"{type(ex).__name__}: {str(ex)[:200]}"})
            continue
        for r in recs:
            A, B = np.array(r["c"]["A"], dt), np.array(r["c"]["B"], dt)
            e = np.array(r["r"], np.float64)
            g = np.asarray(sess.run(None, dict(zip(names, [A, B])))[0], np.float64)
            j = np.asarray(fn(jnp.asarray(A), jnp.asarray(B)), np.float64)
            out["n"] += 1
            if not np.array_equal(e, j):
                out["spec_vs_jax"].append({"case": r["c"], "spec": e.tolist(), "jax": j.tolist()})
            if g.shape != j.shape or not np.array_equal(g, j):
                out["mismatch"].append({"case": r["c"], "template": str(tk), "ort": g.tolist(), "jax": j.tolist(), "spec": e.tolist()})
