"""C01 / C10 corpus differential: exported model in ORT vs the callable evaluated eagerly in JAX."""

from __future__ import annotations

import time
from typing import Any

import numpy as np

LATTICE = np.array([0.0, -0.0, 0.5, -0.5, 1.0, -1.0, 1.5, -1.5, 2.0, -2.0, 2.5, -2.5, 3.5, -3.5, 8.0, -8.0, 2.0 ** -6, -(2.0 ** -6), 0.25, 3.0])


def lattice_inputs(tp: dict[str, Any], draw: int) -> list[np.ndarray] | None:
    """Inputs on the exact lattice for testcases declared by input_shapes (floats only are redrawn;
    integer / boolean operands keep the project's own distribution)."""
    import hashlib

    import jax.numpy as jnp

    if tp.get("input_values") is not None or tp.get("input_shapes") is None:
        return None
    double = bool(tp.get("_enable_double_precision_test_setting", False))
    from harness import corpus as C

    base = C.author_inputs(tp, draw=draw)
    if base is None:
        return None
    seed = int(hashlib.sha256((C.key_of(tp) + f"|lattice|{draw}").encode()).hexdigest()[:12], 16)
    rng = np.random.default_rng(seed)
    out = []
    changed = False
    for a in base:
        a = np.asarray(a)
        if a.dtype.kind == "f":
            vals = rng.choice(LATTICE, size=a.shape).astype(a.dtype)
            out.append(vals)
            changed = True
        else:
            out.append(a)
    return out if changed else None


def _ulp(x: np.ndarray, dt) -> np.ndarray:
    return np.abs(np.spacing(np.abs(x).astype(dt))).astype(np.float64)


def compare(o: np.ndarray, j: np.ndarray, r64: np.ndarray | None, rtol: float, atol: float, double: bool) -> str | None:
    """None if equal under the rule of the property, else a description."""
    o = np.asarray(o)
    j = np.asarray(j)
    if np.iscomplexobj(j) and not np.iscomplexobj(o) and o.ndim == j.ndim + 1 and o.shape[-1] == 2:
        o = o[..., 0] + 1j * o[..., 1]
    if o.shape != j.shape:
        return f"shape {j.shape} (JAX) vs {o.shape} (ORT)"
    if j.dtype.kind in "biu" and o.dtype.kind in "biu":
        if j.dtype.kind == "b" and o.dtype.kind != "b" or (j.dtype.kind != "b" and o.dtype.kind == "b"):
            return f"dtype class {j.dtype} vs {o.dtype}"
        if not np.array_equal(o.astype(np.int64) if o.dtype.kind != "u" else o, j.astype(np.int64) if j.dtype.kind != "u" else j):
            bad = int(np.sum(o != j))
            return f"{bad} integer/bool element(s) differ"
        return None
    if (j.dtype.kind in "fc") != (o.dtype.kind in "fc"):
        return f"dtype class {j.dtype} vs {o.dtype}"
    of = o.astype(np.complex128 if np.iscomplexobj(o) or np.iscomplexobj(j) else np.float64)
    jf = j.astype(of.dtype)
    fin_j = np.isfinite(jf)
    if not np.array_equal(np.isnan(of), np.isnan(jf)) or not np.array_equal(np.isinf(of) & ~np.isnan(of), np.isinf(jf)):
        return "non-finite pattern differs"
    if not fin_j.any():
        return None
    a, b = of[fin_j], jf[fin_j]
    if np.allclose(a, b, rtol=rtol, atol=atol):
        return None
    if r64 is not None and np.asarray(r64).shape == j.shape:
        r = np.asarray(r64).astype(of.dtype)[fin_j]
        if double:
            tol = 64 * _ulp(np.abs(r), np.float64) + 1e-12 * np.maximum(1, np.abs(r))
        else:
            # "the error JAX's own single-precision evaluation already carries", measured on the
            # whole tensor (rounding errors of individual elements are random; an element where JAX
            # happens to be exact must not make the model's ordinary rounding an alarm)
            scale = float(np.max(np.abs(r))) if r.size else 0.0
            jax_err = float(np.max(np.abs(b - r))) if r.size else 0.0
            tol = 8 * max(jax_err, float(_ulp(np.array(scale), np.float32))) + 1e-6 * max(1.0, scale)
        if np.all(np.abs(a - r) <= tol):
            return None
    err = np.abs(a - b)
    k = int(np.argmax(err))
    return f"max abs err {err[k]:.3g} at value {b[k]!r} (ORT {a[k]!r}), rtol={rtol} atol={atol}"


def _tolerances(tp, double):
    if double:
        return float(tp.get("rtol_f64", tp.get("rtol", 1e-7))), float(tp.get("atol_f64", tp.get("atol", 1e-7)))
    return float(tp.get("rtol_f32", tp.get("rtol", 1e-5))), float(tp.get("atol_f32", tp.get("atol", 1e-5)))


def corpus_diff_job(indices: list[int], ndraws: int = 2, budget_s: float = 40.0) -> list[dict[str, Any]]:
    import jax

    from harness import corpus as C
    from harness import onnxutil as U

    vs = C.variants()
    out = []
    for i in indices:
        tp = vs[i]
        double = bool(tp.get("_enable_double_precision_test_setting", False))
        rec: dict[str, Any] = {"i": i, "key": C.key_of(tp), "status": "ok", "draws": 0, "discarded": 0, "problems": []}
        if tp.get("skip_numeric_validation"):
            rec["status"] = "skip_numeric"
            out.append(rec)
            continue
        t0 = time.time()
        try:
            model, fn = C.export(tp)
        except Exception as ex:  # noqa: BLE001
            rec["status"] = "export_failed"
            rec["why"] = f"{type(ex).__name__}: {str(ex)[:140]}"
            out.append(rec)
            continue
        try:
            sess = U.ort_session(model)
        except Exception as ex:  # noqa: BLE001
            msg = str(ex)
            rec["status"] = "ort_runtime_limit" if ("NOT_IMPLEMENTED" in msg or "opset" in msg.lower()) else "ort_load_failed"
            rec["why"] = msg[:200]
            out.append(rec)
            continue
        rtol, atol = _tolerances(tp, double)
        params = tp.get("input_params", {})
        has_while = None
        for d in range(ndraws):
            if time.time() - t0 > budget_s:
                break
            if d == 0:
                xs = C.author_inputs(tp)
            else:
                if has_while is None:
                    try:
                        has_while = "while[" in str(jax.make_jaxpr(lambda *a: fn(*a, **params))(*C.author_inputs(tp)))
                    except Exception:  # noqa: BLE001
                        has_while = True
                if has_while:
                    break  # value dependent loops may not terminate off the author's inputs
                xs = lattice_inputs(tp, d)
                if xs is None:
                    break
            try:
                ref = C.jax_eval(fn, xs, params, double)
            except Exception as ex:  # noqa: BLE001
                rec["discarded"] += 1
                if d == 0:
                    rec["status"] = "jax_eval_failed"
                    rec["why"] = f"{type(ex).__name__}: {str(ex)[:120]}"
                    break
                continue
            if any((np.asarray(r).dtype.kind in "fc") and not np.all(np.isfinite(np.asarray(r))) for r in ref) and d > 0:
                rec["discarded"] += 1   # outside the callable's domain
                continue
            r64 = None
            if not double:
                try:
                    xs64 = [np.asarray(x).astype(np.float64) if np.asarray(x).dtype == np.float32 else x for x in xs]
                    r64 = C.jax_eval(fn, xs64, params, True)
                    if len(r64) != len(ref):
                        r64 = None
                except Exception:  # noqa: BLE001
                    r64 = None
            try:
                feeds = C.feeds_for(model, xs, params, tp.get("inputs_as_nchw"))
                got = sess.run(None, feeds)
            except Exception as ex:  # noqa: BLE001
                rec["problems"].append({"draw": d, "what": "ort_run_failed", "detail": str(ex)[:200]})
                continue
            rec["draws"] += 1
            if len(got) != len(ref):
                rec["problems"].append({"draw": d, "what": "output_count", "detail": f"{len(ref)} (JAX) vs {len(got)}"})
                continue
            onchw = set(tp.get("outputs_as_nchw") or [])
            for k, (g, r) in enumerate(zip(got, ref)):
                r = np.asarray(r)
                rr = None if r64 is None else np.asarray(r64[k])
                if k in onchw and r.ndim == 4:
                    r = np.transpose(r, (0, 3, 1, 2))
                    rr = None if rr is None else np.transpose(rr, (0, 3, 1, 2))
                # ill-conditioned draw: JAX f32 itself is far from the exact value
                if d > 0 and rr is not None and rr.shape == r.shape and r.dtype.kind == "f":
                    with np.errstate(all="ignore"):
                        if np.any(np.abs(r.astype(np.float64) - rr) > 1e-2 * np.maximum(1, np.abs(rr))):
                            rec["discarded"] += 1
                            continue
                why = compare(g, r, rr, rtol, atol, double)
                if why:
                    rec["problems"].append({"draw": d, "what": "mismatch", "output": k, "detail": why})
        out.append(rec)
    return out
