"""Spec -> code replay and code -> spec tracing for J2O_Pipeline (C05 / C16 / C12 validation part).

Each request TLC emitted is turned into a concrete callable + to_onnx keyword arguments; the real
to_onnx runs with stage wrappers that log the interface after every stage; the outcome (raise or
model) and the final interface are compared with the specification's prediction and with
jax.eval_shape."""

from __future__ import annotations

import os
import re
from typing import Any

import numpy as np

POS_RE = re.compile(r"^in_(\d+)(_nchw)?$")


class Injected(RuntimeError):
    pass


def build_request(req: dict[str, Any], variant: int):
    import jax
    import jax.numpy as jnp
    from jax import lax

    from harness import userfns

    nin, nout = req["nin"], req["nout"]
    unused = set(req["unused"])
    sym = variant % 3 == 1  # symbolic leading dim on rank-2 inputs
    dts = [np.float32, np.int32, np.float32][variant % 3]
    in_specs = []
    for i in range(nin):
        if i == 0 and req["nchwIn"] == "first":
            in_specs.append((1, 4, 5, 3))          # plain shape: the float width follows the precision flag
        else:
            dt = dts if i == 1 else np.float32
            # positions beyond the second get distinguishable shapes (a name bound to the wrong position shows)
            shp = (("B" if sym else 2), 3 if i < 2 else 3 + (i % 4))
            in_specs.append(jax.ShapeDtypeStruct(shp, dt) if dt != np.float32 else shp)
    kw: dict[str, Any] = {}
    if req["param"]:
        kw["input_params"] = {"p": True}
    fault = req["fault"]
    out_rank4 = req["nchwOut"] == "first"

    def fn(*xs, p=None):
        if fault == "user_raises":
            raise ValueError("user function failure")
        used = [x for i, x in enumerate(xs) if i not in unused]
        # default-width arithmetic only: the float width must follow the precision flag
        acc = 0.5
        for u in used:
            acc = acc + jnp.sum(u * 1.0)
        rows = used[0].shape[0] if (used and used[0].ndim == 2) else 2
        base = jnp.tanh(acc) + jnp.zeros((rows, 3))
        if used and used[0].ndim == 2:
            base = base + used[0] * 1.0
        if fault == "unsupported_primitive":
            base = userfns.unsupported_p.bind(base)
        if fault == "lowering_contract":
            base = lax.fori_loop(0, 2, lambda i, c: userfns.unsupported_p.bind(c), base)
        if req["param"] and req["paramUsed"]:
            # a call-time parameter consumed inside an @onnx_function becomes a named model input
            base = userfns.flagged(base, p=p)
        outs = []
        for j in range(nout):
            y = base * (j + 1.0)
            if j == 0 and req["outKind"] == "alias_input":
                y = xs[0]
            if j == 0 and req["outKind"] == "constant":
                y = jnp.arange(6.0).reshape(2, 3)
            if j == nout - 1 and j >= 1 and req["outKind"] == "duplicate":
                y = outs[j - 1]          # the last two leaves are one value
            if j >= 1 and req["outKind"] == "all_one_value":
                first = outs[0]          # every leaf is the first one: directly, or after a round trip the optimizer folds
                if (variant % 2 == 0 or j % 2 == 0) and first.ndim == 2:
                    y = first.T.T if j % 2 else jnp.swapaxes(jnp.swapaxes(first, 0, 1), 0, 1)
                else:
                    y = first
            if j == nout - 1 and j >= 1 and req["outKind"] == "folds_to_duplicate":
                prev = outs[j - 1]       # a round trip the optimizer folds back onto the previous leaf
                if variant % 3 == 0:
                    y = prev.T.T if prev.ndim == 2 else jnp.transpose(jnp.transpose(prev, (0, 2, 1, 3)), (0, 2, 1, 3))
                elif variant % 3 == 1:
                    y = prev.reshape(-1).reshape(prev.shape)
                else:
                    y = prev.astype(jnp.float64 if prev.dtype == jnp.float32 else prev.dtype).astype(prev.dtype)
            if j == 1 and variant % 2 == 1 and req["outKind"] == "computed":
                y = (y > 0)  # a boolean leaf
            if j == 0 and out_rank4:
                y = y.reshape(1, y.shape[0], 3, 1) if y.ndim == 2 else y
            outs.append(y)
        if nout == 1:
            return outs[0]
        return {"a": outs[0], "b": tuple(outs[1:])}  # nested result pytree: leaves in key order

    if req["inNames"] != "none":
        names = [f"ci_{i}" for i in range(nin)]
        if req["inNames"] == "dup":
            names[1] = names[0]
        elif req["inNames"] == "wrong_len":
            names = names + ["extra"]
        elif req["inNames"] == "collide_param":
            names[0] = "p"
        elif req["inNames"] == "collide_output":
            names[0] = "shared_name"
        kw["input_names"] = names
    if req["outNames"] != "none":
        names = [f"co_{j}" for j in range(nout)]
        if req["outNames"] == "dup":
            names[1] = names[0]
        elif req["outNames"] == "wrong_len":
            names = names + ["extra"]
        elif req["outNames"] == "collide_param":
            names[0] = "p"
        if req["inNames"] == "collide_output":
            names[0] = "shared_name"
        kw["output_names"] = names
    sel = {"none": None, "first": [0], "bad_index": [7], "bad_rank": [0], "dup_index": [0, 0]}
    if req["nchwIn"] != "none":
        kw["inputs_as_nchw"] = sel[req["nchwIn"]]
    if req["nchwOut"] != "none":
        kw["outputs_as_nchw"] = sel[req["nchwOut"]]
    kw["enable_double_precision"] = (variant % 4 == 3)
    return fn, in_specs, kw


class StageLog:
    """External wrappers around the stage functions; logs the interface after each stage."""

    def __init__(self) -> None:
        self.events: list[dict[str, Any]] = []
        self.undo: list[Any] = []

    def _iface(self, stage: str, inputs, outputs) -> None:
        names = [getattr(v, "name", None) or "" for v in inputs]
        pos = [int(m.group(1)) for m in (POS_RE.match(n) for n in names) if m]
        self.events.append({"stage": stage, "npos": len(pos), "ordered": pos == sorted(pos) and pos == list(range(len(pos))), "ninputs": len(names), "nout": len(list(outputs)), "names": names})

    def __enter__(self):
        import jax2onnx.converter.conversion_api as capi
        import jax2onnx.user_interface as ui

        log = self

        def wrap(mod, name, after):
            orig = getattr(mod, name)

            def w(*a, **k):
                r = orig(*a, **k)
                try:
                    after(a, k, r)
                except Exception:  # noqa: BLE001  (tracer must never disturb the run)
                    pass
                return r

            setattr(mod, name, w)
            self.undo.append((mod, name, orig))

        wrap(capi, "_bind_jaxpr_inputs", lambda a, k, r: log._iface("bind_in", a[0].builder.inputs, a[0].builder.outputs))
        wrap(capi, "_bind_jaxpr_outputs", lambda a, k, r: log._iface("bind_out", a[0].builder.inputs, a[0].builder.outputs))
        wrap(capi, "_build_and_finalize_ir_model", lambda a, k, r: log._iface("optimize", r.graph.inputs, r.graph.outputs))
        wrap(ui, "postprocess_ir_model", lambda a, k, r: log._iface("post", a[0].graph.inputs, a[0].graph.outputs))
        wrap(ui, "_materialize_input_params_on_ir", lambda a, k, r: log._iface("materialize", a[0].graph.inputs, a[0].graph.outputs))
        wrap(ui, "_apply_custom_io_names_on_ir", lambda a, k, r: log._iface("rename", a[0].graph.inputs, a[0].graph.outputs))
        return self

    def __exit__(self, *a):
        for mod, name, orig in reversed(self.undo):
            setattr(mod, name, orig)
        return False


def run_requests(records: list[dict[str, Any]], pass_count: int) -> list[dict[str, Any]]:
    import jax
    import onnx

    import jax2onnx
    from harness.optjobs import PassRecorder

    out = []
    for ri, rec in enumerate(records):
        req = rec["req"]
        variant = rec.get("variant", ri)
        res: dict[str, Any] = {"i": ri, "problems": [], "events": []}
        try:
            fn, specs, kw = build_request(req, variant)
        except Exception as ex:  # noqa: BLE001
            res["status"] = "harness_error"
            res["why"] = repr(ex)
            out.append(res)
            continue
        abort_at = None
        if req["optRaiseAt"] > 0:
            # map the abstract pass index to a real one: first / middle / last
            abort_at = {1: 1, 2: max(2, pass_count // 2), 3: pass_count}.get(req["optRaiseAt"], 1)
        prev_env = os.environ.get("JAX2ONNX_STRICT_OPTIMIZER_FAILURES")
        if req["strict"]:
            os.environ["JAX2ONNX_STRICT_OPTIMIZER_FAILURES"] = "1"
        else:
            os.environ.pop("JAX2ONNX_STRICT_OPTIMIZER_FAILURES", None)
        model = None
        raised = None
        try:
            with StageLog() as sl, PassRecorder(abort_at=abort_at, abort_exc=Injected, max_nodes_per_pass=0) as pr:
                try:
                    model = jax2onnx.to_onnx(fn, specs, **kw)
                except BaseException as ex:  # noqa: BLE001
                    raised = f"{type(ex).__name__}: {str(ex)[:140]}"
        finally:
            if prev_env is None:
                os.environ.pop("JAX2ONNX_STRICT_OPTIMIZER_FAILURES", None)
            else:
                os.environ["JAX2ONNX_STRICT_OPTIMIZER_FAILURES"] = prev_env
        res["events"] = sl.events
        res["raised"] = raised
        res["abort_fired"] = pr.raised_in_optimizer
        want_raise = rec["result"] == "raised"
        if want_raise and raised is None:
            res["problems"].append({"what": "accepted_bad_request", "detail": "specification predicts rejection, to_onnx returned a model"})
        if not want_raise and raised is not None:
            res["problems"].append({"what": "rejected_good_request", "detail": raised})
        if model is not None:
            res["problems"] += _check_interface(model, rec, fn, specs, kw)
            if req["optRaiseAt"] > 0 and pr.raised_in_optimizer:
                # C16: model returned after an aborted optimizer must still be valid and equal to JAX
                res["problems"] += _check_valid_and_equal(model, fn, specs, kw, req)
        out.append(res)
    return out


def _elem_class(np_dtype) -> str:
    k = np.dtype(np_dtype).kind
    return {"b": "bool", "i": "int", "u": "int", "f": "float", "c": "complex"}.get(k, "other")


def _check_interface(model, rec, fn, specs, kw) -> list[dict[str, Any]]:
    import jax
    from onnx import helper as oh

    req = rec["req"]
    probs = []
    inits = {i.name for i in model.graph.initializer}
    gin = [i for i in model.graph.input if i.name not in inits]
    gout = list(model.graph.output)
    exp_ins = rec["ins"]
    # a runtime parameter becomes a model input only when the graph still references it: optional
    if len(gin) == len(exp_ins) - 1 and exp_ins and exp_ins[-1]["kind"] == "param":
        exp_ins = exp_ins[:-1]
    if len(gin) != len(exp_ins):
        probs.append({"what": "input_count", "detail": f"model has {[i.name for i in gin]}, specification predicts {len(exp_ins)} inputs"})
        return probs
    for k, (vi, e) in enumerate(zip(gin, exp_ins)):
        if e["kind"] == "pos":
            want = kw["input_names"][e["i"]] if e["name"] == "custom" else (f"in_{e['i']}_nchw" if e["nchw"] else f"in_{e['i']}")
        else:
            want = "p"
        alias_ok = req["outKind"] == "alias_input" and e["kind"] == "pos" and e["i"] == 0 and e["name"] != "custom" and req["outNames"] == "ok" and vi.name == kw["output_names"][0]
        if vi.name != want and not alias_ok:
            probs.append({"what": "input_name_or_order", "detail": f"input {k} is '{vi.name}', expected '{want}'"})
    names = [v.name for v in gin] + [v.name for v in gout]
    if len(set(v.name for v in gin)) != len(gin):
        probs.append({"what": "input_names_collide", "detail": str(names)})
    if len(gout) != req["nout"]:
        probs.append({"what": "output_count", "detail": f"{len(gout)} outputs for {req['nout']} result leaves"})
        return probs
    if req["outNames"] == "ok":
        got = [v.name for v in gout]
        if got != kw["output_names"]:
            probs.append({"what": "output_names", "detail": f"{got} vs requested {kw['output_names']}"})
    if len(set(v.name for v in gout)) != len(gout):
        probs.append({"what": "output_names_collide", "detail": str([v.name for v in gout])})
    # types / shapes against jax.eval_shape under the requested precision
    double = bool(kw.get("enable_double_precision"))
    specs = [s_ if hasattr(s_, "dtype") else jax.ShapeDtypeStruct(tuple(s_), np.float64 if double else np.float32) for s_ in specs]
    prev = bool(jax.config.jax_enable_x64)
    jax.config.update("jax_enable_x64", double)
    try:
        import jax.export as jex

        sds = []
        scope = jex.SymbolicScope()
        for s in specs:
            shp = tuple(jex.symbolic_shape(d, scope=scope)[0] if isinstance(d, str) else d for d in s.shape)
            dt = s.dtype
            sds.append(jax.ShapeDtypeStruct(shp, dt))
        params = {k_: v for k_, v in (kw.get("input_params") or {}).items()}
        ev = jax.eval_shape(lambda *a: fn(*a, **params), *sds)
        leaves = jax.tree_util.tree_leaves(ev)
    finally:
        jax.config.update("jax_enable_x64", prev)
    nchw_out = set(kw.get("outputs_as_nchw") or [])
    for j, (vo, leaf) in enumerate(zip(gout, leaves)):
        tt = vo.type.tensor_type
        mdt = oh.tensor_dtype_to_np_dtype(tt.elem_type)
        jc, mc = _elem_class(leaf.dtype), _elem_class(mdt)
        if jc != mc:
            probs.append({"what": "output_class", "detail": f"output {j}: JAX {leaf.dtype} vs model {mdt}"})
        if jc == "float":
            wantw = np.float64 if double else np.float32
            if np.dtype(mdt) != np.dtype(wantw) and not (np.dtype(leaf.dtype) == np.dtype(mdt)):
                probs.append({"what": "float_width", "detail": f"output {j}: model {mdt}, precision flag {'double' if double else 'single'}, JAX {leaf.dtype}"})
        if jc == "int" and np.dtype(mdt) not in (np.dtype(leaf.dtype), np.dtype(np.int64)):
            probs.append({"what": "int_type", "detail": f"output {j}: JAX {leaf.dtype} vs model {mdt}"})
        jshape = list(leaf.shape)
        if j in nchw_out and len(jshape) == 4:
            jshape = [jshape[p] for p in (0, 3, 1, 2)]
        mdims = list(tt.shape.dim)
        if not tt.HasField("shape") or len(mdims) != len(jshape):
            probs.append({"what": "output_rank", "detail": f"output {j}: JAX rank {len(jshape)} vs model {len(mdims) if tt.HasField('shape') else None}"})
            continue
        for a, (jd, md) in enumerate(zip(jshape, mdims)):
            if isinstance(jd, int) and md.HasField("dim_value") and md.dim_value != jd:
                probs.append({"what": "output_static_dim", "detail": f"output {j} axis {a}: JAX {jd} vs model {md.dim_value}"})
    # inputs: dtype class / symbol names
    for k, (vi, e) in enumerate(zip(gin, exp_ins)):
        if e["kind"] != "pos":
            continue
        s = specs[e["i"]]
        tt = vi.type.tensor_type
        mdt = oh.tensor_dtype_to_np_dtype(tt.elem_type)
        if _elem_class(s.dtype) != _elem_class(mdt):
            probs.append({"what": "input_class", "detail": f"input {k}: spec {s.dtype} vs model {mdt}"})
        shp = list(s.shape)
        if e["nchw"] and len(shp) == 4:
            shp = [shp[p] for p in (0, 3, 1, 2)]
        mdims = list(tt.shape.dim)
        if len(mdims) != len(shp):
            probs.append({"what": "input_rank", "detail": f"input {k}: {len(shp)} vs {len(mdims)}"})
            continue
        for a, (sd, md) in enumerate(zip(shp, mdims)):
            if isinstance(sd, str):
                if md.dim_param != sd:
                    probs.append({"what": "input_symbol_name", "detail": f"input {k} axis {a}: '{md.dim_param}' vs user symbol '{sd}'"})
            elif md.HasField("dim_value") and md.dim_value != sd:
                probs.append({"what": "input_static_dim", "detail": f"input {k} axis {a}: {sd} vs {md.dim_value}"})
    return probs


def _check_valid_and_equal(model, fn, specs, kw, req) -> list[dict[str, Any]]:
    import jax
    import jax.numpy as jnp
    import onnx

    from harness import onnxutil as U

    probs = []
    try:
        onnx.checker.check_model(model, full_check=True)
    except Exception as ex:  # noqa: BLE001
        probs.append({"what": "invalid_after_abort", "detail": str(ex)[:200]})
        return probs
    double = bool(kw.get("enable_double_precision"))
    specs = [s_ if hasattr(s_, "dtype") else jax.ShapeDtypeStruct(tuple(s_), np.float64 if double else np.float32) for s_ in specs]
    xs = []
    for s in specs:
        shp = tuple(2 if isinstance(d, str) else d for d in s.shape)
        n = int(np.prod(shp))
        xs.append(((np.arange(n) % 7 - 3) / 2.0).reshape(shp).astype(s.dtype))
    params = dict(kw.get("input_params") or {})
    prev = bool(jax.config.jax_enable_x64)
    jax.config.update("jax_enable_x64", double)
    try:
        ref = [np.asarray(v) for v in jax.tree_util.tree_leaves(fn(*[jnp.asarray(x) for x in xs], **params))]
    finally:
        jax.config.update("jax_enable_x64", prev)
    inits = {i.name for i in model.graph.initializer}
    gin = [i for i in model.graph.input if i.name not in inits]
    feeds = {}
    pos = iter(xs)
    nchw = set(kw.get("inputs_as_nchw") or [])
    k = 0
    for vi in gin:
        if vi.name in params:
            feeds[vi.name] = np.asarray(params[vi.name])
        else:
            x = next(pos)
            feeds[vi.name] = np.transpose(x, (0, 3, 1, 2)) if (k in nchw and x.ndim == 4) else x
            k += 1
    try:
        got = U.ort_run(model, feeds)
    except Exception as ex:  # noqa: BLE001
        probs.append({"what": "unloadable_after_abort", "detail": str(ex)[:200]})
        return probs
    onchw = set(kw.get("outputs_as_nchw") or [])
    for j, (g, r) in enumerate(zip(got, ref)):
        if j in onchw and r.ndim == 4:
            r = np.transpose(r, (0, 3, 1, 2))
        if g.shape != r.shape or not np.allclose(g.astype(np.float64), r.astype(np.float64), rtol=1e-5, atol=1e-6):
            probs.append({"what": "not_equivalent_after_abort", "detail": f"output {j}"})
    return probs
