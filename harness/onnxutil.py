"""Helpers for building, transforming and executing ONNX models."""

from __future__ import annotations

import os
from typing import Any, Iterable, Sequence

import numpy as np
import onnx
from onnx import TensorProto as TP
from onnx import helper as oh
from onnx import numpy_helper as onh


def ort_session(model: onnx.ModelProto | bytes | str):
    import onnxruntime as ort

    so = ort.SessionOptions()
    so.graph_optimization_level = ort.GraphOptimizationLevel.ORT_DISABLE_ALL
    so.intra_op_num_threads = 1
    so.inter_op_num_threads = 1
    so.log_severity_level = 4
    if isinstance(model, onnx.ModelProto):
        model = model.SerializeToString()
    return ort.InferenceSession(model, so, providers=["CPUExecutionProvider"])


def ort_run(model: onnx.ModelProto | bytes | str, feeds: dict[str, np.ndarray]) -> list[np.ndarray]:
    s = ort_session(model)
    return s.run(None, feeds)


def ref_run(model: onnx.ModelProto, feeds: dict[str, np.ndarray]) -> list[np.ndarray]:
    from onnx.reference import ReferenceEvaluator

    return ReferenceEvaluator(model).run(None, feeds)


def run_model(model: onnx.ModelProto, feeds: dict[str, np.ndarray]) -> tuple[str, list[np.ndarray]]:
    """ORT first; reference evaluator when ORT cannot load (opset > 26 / missing kernel)."""
    try:
        return "ort", ort_run(model, feeds)
    except Exception as ex:  # noqa: BLE001
        msg = str(ex)
        if "NOT_IMPLEMENTED" in msg or "opset" in msg.lower() or "Unsupported model IR version" in msg:
            return "ref", ref_run(model, feeds)
        raise


def same_array(a: Any, b: Any) -> bool:
    """Bit-level equality of two arrays (NaN == NaN, -0 != +0), shapes and dtypes equal."""
    a = np.asarray(a)
    b = np.asarray(b)
    if a.shape != b.shape or a.dtype != b.dtype:
        return False
    if a.dtype.kind in "fc" or a.dtype.kind == "V" or "float" in a.dtype.name:
        try:
            an = np.isnan(a)
            bn = np.isnan(b)
        except TypeError:
            return a.tobytes() == b.tobytes()
        if not np.array_equal(an, bn):
            return False
        av = np.where(an, 0, a)
        bv = np.where(bn, 0, b)
        if not np.array_equal(av, bv):
            return False
        try:
            return bool(np.array_equal(np.signbit(av), np.signbit(bv)))
        except TypeError:
            return True
    return bool(np.array_equal(a, b))


def model(nodes, inputs, outputs, inits=(), opset: int = 21, functions=(), extra_imports=(), value_info=()) -> onnx.ModelProto:
    g = oh.make_graph(list(nodes), "g", list(inputs), list(outputs), initializer=list(inits), value_info=list(value_info))
    imports = [oh.make_opsetid("", opset)] + [oh.make_opsetid(d, v) for d, v in extra_imports]
    m = oh.make_model(g, opset_imports=imports, ir_version=10, functions=list(functions))
    return m


def vi(name: str, dtype: int, shape: Sequence[Any] | None):
    return oh.make_tensor_value_info(name, dtype, shape)


def const(name: str, arr: np.ndarray):
    return onh.from_array(np.asarray(arr), name)


def optimize_with_real_pass(m: onnx.ModelProto, pass_names: Iterable[str] | None = None) -> onnx.ModelProto:
    """Run the repository's real optimizer (all passes, or the named ones in registry order)."""
    import onnx_ir as ir
    from jax2onnx.converter import ir_optimizations as io

    im = ir.from_proto(m)
    if pass_names is None:
        io.optimize_graph(im)
    else:
        wanted = set(pass_names)
        for p in io._OPTIMIZER_PASSES:
            if p.name in wanted:
                io._run_top_level_optimizer_pass(p, im)
    return ir.to_proto(im)
