"""setup: parse every spec module with SANY (generated fact modules get stand-ins)."""
from __future__ import annotations

import shutil
import subprocess
import sys

from harness.common import SPEC, TLA_CP, WORK

STANDINS = {
    "J2O_CastFacts.tla": '---- MODULE J2O_CastFacts ----\nTypeNames == {"FLOAT"}\nImplAccepts == {<<"FLOAT","FLOAT">>}\n====\n',
    "J2O_RangeFacts.tla": "---- MODULE J2O_RangeFacts ----\nEXTENDS Integers\nCases == {[s |-> 0, l |-> 1, d |-> 1, lo |-> 0, hi |-> 1, fits |-> TRUE, hasB |-> TRUE, bmin |-> 0, bmax |-> 0]}\n====\n",
}


def main() -> int:
    wd = WORK / "sany"
    if wd.exists():
        shutil.rmtree(wd)
    wd.mkdir(parents=True)
    for f in SPEC.glob("*.tla"):
        shutil.copy(f, wd / f.name)
    import importlib, pkgutil
    import harness.checks as hc

    for m in pkgutil.iter_modules(hc.__path__):
        try:
            mod = importlib.import_module(f"harness.checks.{m.name}")
        except Exception as ex:  # noqa: BLE001
            print("cannot import", m.name, ex)
            return 2
        STANDINS.update(getattr(mod, "STANDINS", {}))
    for n, t in STANDINS.items():
        if not (wd / n).exists():
            (wd / n).write_text(t)
    bad = 0
    for f in sorted(wd.glob("*.tla")):
        p = subprocess.run(["java", "-cp", TLA_CP, "tla2sany.SANY", f.name], cwd=wd, capture_output=True, text=True)
        if p.returncode != 0 or "Semantic errors" in p.stdout or "Parse Error" in p.stdout or "Fatal errors" in p.stdout:
            print("SANY FAILED", f.name)
            print(p.stdout[-1500:])
            bad += 1
    shutil.rmtree(wd, ignore_errors=True)
    print(f"sany: {len(list(SPEC.glob('*.tla')))} modules, {bad} failed")
    return 1 if bad else 0


if __name__ == "__main__":
    sys.exit(main())
