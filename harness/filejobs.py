"""C15: sequences of exports to one path (TLC-enumerated) executed on the real file system."""

from __future__ import annotations

import os
import shutil
import tempfile
from typing import Any

import numpy as np


def _request(idx: int, size: str):
    """A callable with parameters that identify the export (values depend on idx)."""
    import jax.numpy as jnp

    if size == "large":
        w = ((np.arange(600 * 500) % 977).astype(np.float32) / 977.0 + idx).reshape(600, 500)   # 1.2 MB
    elif size == "edge":
        w = ((np.arange(512 * 512) % 977).astype(np.float32) / 977.0 + idx).reshape(512, 512)   # exactly 1 MiB
    else:
        w = ((np.arange(40 * 30) % 97).astype(np.float32) / 97.0 + idx).reshape(40, 30)
    b = np.float32(idx) / 8.0

    def fn(x):
        return jnp.dot(x, w) + b

    return fn, [(2, w.shape[0])], w


def _init_bytes(model) -> dict[str, bytes]:
    from onnx import numpy_helper as onh

    return {i.name: onh.to_array(i).tobytes() for i in model.graph.initializer}


def _strip(model):
    """Graph structure without tensor payload / data location."""
    import onnx

    m = onnx.ModelProto()
    m.CopyFrom(model)
    for i in m.graph.initializer:
        i.ClearField("raw_data")
        i.ClearField("external_data")
        i.ClearField("data_location")
        i.ClearField("float_data")
        i.ClearField("int32_data")
        i.ClearField("int64_data")
        i.ClearField("double_data")
    return m.SerializeToString(deterministic=True)


def run_sequences(seqs: list[dict[str, Any]]) -> list[dict[str, Any]]:
    import onnx
    import onnx_ir as ir

    import jax2onnx
    from harness import onnxutil as U

    out = []
    for si, seq in enumerate(seqs):
        tmp = tempfile.mkdtemp(prefix="j2o_files_")
        path = os.path.join(tmp, "sub", "model.onnx")
        rec: dict[str, Any] = {"i": si, "problems": [], "steps": []}
        try:
            for k, (mode, size) in enumerate(seq["hist"], start=1):
                fn, specs, w = _request(k, size)
                x = ((np.arange(2 * w.shape[0]) % 13 - 6) / 8.0).reshape(2, w.shape[0]).astype(np.float32)
                ret = jax2onnx.to_onnx(fn, specs, return_mode="file", output_path=path, export_mode=mode)
                step: dict[str, Any] = {"k": k, "mode": mode, "size": size}
                if ret != path:
                    rec["problems"].append(f"step {k}: returned path {ret!r}")
                files = sorted(os.listdir(os.path.dirname(path)))
                step["files"] = files
                raw = onnx.load(path, load_external_data=False)
                ext = any(t.data_location == onnx.TensorProto.EXTERNAL or len(t.external_data) > 0 for t in raw.graph.initializer)
                step["ext"] = ext
                step["sidecar"] = os.path.exists(path + ".data")
                if mode == "web":
                    if ext:
                        rec["problems"].append(f"step {k}: web export references external data")
                    if files != ["model.onnx"]:
                        rec["problems"].append(f"step {k}: web export is not a single file: {files}")
                if ext and not os.path.exists(path + ".data"):
                    rec["problems"].append(f"step {k}: file references a sidecar that does not exist")
                # reload the way a user would
                try:
                    loaded = onnx.load(path)
                except Exception as ex:  # noqa: BLE001
                    rec["problems"].append(f"step {k}: cannot reload: {str(ex)[:160]}")
                    rec["steps"].append(step)
                    continue
                proto = jax2onnx.to_onnx(fn, specs, return_mode="proto")
                irm = jax2onnx.to_onnx(fn, specs, return_mode="ir")
                ir_proto = ir.to_proto(irm)
                if _strip(loaded) != _strip(proto):
                    rec["problems"].append(f"step {k}: reloaded file graph differs from return_mode='proto'")
                if _strip(ir_proto) != _strip(proto):
                    rec["problems"].append(f"step {k}: return_mode='ir' converted to protobuf differs from return_mode='proto'")
                bl, bp, bi = _init_bytes(loaded), _init_bytes(proto), _init_bytes(ir_proto)
                if bl != bp:
                    bad = [n for n in bp if bl.get(n) != bp[n]]
                    rec["problems"].append(f"step {k}: parameter bytes differ after reload: {bad[:3]}")
                if bi != bp:
                    rec["problems"].append(f"step {k}: parameter bytes differ between ir and proto modes")
                # outputs
                try:
                    o_file = U.ort_run(path, {loaded.graph.input[0].name: x})
                    o_proto = U.ort_run(proto, {proto.graph.input[0].name: x})
                    if not all(np.array_equal(a, b) for a, b in zip(o_file, o_proto)):
                        rec["problems"].append(f"step {k}: ORT outputs of the file differ from the proto")
                    want = x @ w + np.float32(k) / 8.0
                    if not np.allclose(o_file[0], want, rtol=1e-4, atol=1e-3):
                        rec["problems"].append(f"step {k}: file computes another export's function (stale parameters?)")
                except Exception as ex:  # noqa: BLE001
                    rec["problems"].append(f"step {k}: ORT cannot run the saved file: {str(ex)[:160]}")
                rec["steps"].append(step)
            # final state vs specification (edge cases leave ext free)
            last = rec["steps"][-1] if rec["steps"] else None
            if last is not None and all(s != "edge" for _, s in seq["hist"]):
                if last["ext"] != seq["ext"]:
                    rec["problems"].append(f"final file external-data state {last['ext']} vs specification {seq['ext']}")
                if last["sidecar"] != seq["sidecar"] and not seq["sidecar"]:
                    rec["problems"].append("a sidecar file is left on disk where the specification has none")
        finally:
            shutil.rmtree(tmp, ignore_errors=True)
        out.append(rec)
    return out
