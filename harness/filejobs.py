"""C15: sequences of exports to one path (TLC-enumerated) executed on the real file system."""

from __future__ import annotations

import os
import shutil
import tempfile
from typing import Any

import numpy as np


def _request(idx: int, size: str, loc: str = "top"):
    """A callable with parameters that identify the export (values depend on idx)."""
    import jax.numpy as jnp
    from jax import lax

    if size == "large":
        w = ((np.arange(600 * 500) % 977).astype(np.float32) / 977.0 + idx).reshape(600, 500)   # 1.2 MB
    elif size == "edge":
        w = ((np.arange(512 * 512) % 977).astype(np.float32) / 977.0 + idx).reshape(512, 512)   # exactly 1 MiB
    else:
        w = ((np.arange(40 * 30) % 97).astype(np.float32) / 97.0 + idx).reshape(40, 30)
    b = np.float32(idx) / 8.0

    if loc == "body":
        # the big parameter is only used inside a Loop body (it becomes an initializer of the body graph)
        wsq = ((np.arange(600 * 600) % 977).astype(np.float32) / 977.0 / 600.0 + idx / 600.0).reshape(600, 600)   # 1.44 MB

        def fn_body(x):
            return lax.fori_loop(0, 1, lambda i, c: jnp.dot(c, wsq) + b, x)

        return fn_body, [(2, 600)], wsq

    def fn(x):
        return jnp.dot(x, w) + b

    return fn, [(2, w.shape[0])], w


def _graphs(g):
    import onnx

    yield g
    for nd in g.node:
        for a in nd.attribute:
            if a.type == onnx.AttributeProto.GRAPH:
                yield from _graphs(a.g)
            elif a.type == onnx.AttributeProto.GRAPHS:
                for sg in a.graphs:
                    yield from _graphs(sg)


def _init_bytes(model) -> dict[str, bytes]:
    """Payload of every initializer, body graphs included (models must be loaded WITH external data)."""
    from onnx import numpy_helper as onh

    out = {}
    for gi, g in enumerate(_graphs(model.graph)):
        for i in g.initializer:
            out[f"{gi}:{i.name}"] = onh.to_array(i).tobytes()
    return out


def _strip(model):
    """Graph structure without tensor payload / data location (all graphs)."""
    import onnx

    m = onnx.ModelProto()
    m.CopyFrom(model)
    for g in _graphs(m.graph):
        for i in g.initializer:
            for fld in ("raw_data", "external_data", "data_location", "float_data", "int32_data", "int64_data", "double_data"):
                i.ClearField(fld)
    return m.SerializeToString(deterministic=True)


def run_sequences(seqs: list[dict[str, Any]]) -> list[dict[str, Any]]:
    import onnx
    import onnx_ir as ir

    import jax2onnx
    from harness import onnxutil as U

    out = []
    for si, seq in enumerate(seqs):
        tmp = tempfile.mkdtemp(prefix="j2o_files_")
        path = os.path.join(tmp, "sub", "model.onnx")
        rec: dict[str, Any] = {"i": si, "problems": [], "steps": []}
        try:
            for k, h in enumerate(seq["hist"], start=1):
                mode, size = h[0], h[1]
                loc = h[2] if len(h) > 2 else "top"
                spell = h[3] if len(h) > 3 else "canonical"
                fn, specs, w = _request(k, size, loc)
                x = ((np.arange(2 * w.shape[0]) % 13 - 6) / 8.0).reshape(2, w.shape[0]).astype(np.float32)
                mode_arg = mode if spell == "canonical" else (" " + mode.upper() + " " if k % 2 else mode.capitalize())
                ret = jax2onnx.to_onnx(fn, specs, return_mode="file", output_path=path, export_mode=mode_arg)
                step: dict[str, Any] = {"k": k, "mode": mode_arg, "size": size, "loc": loc}
                if ret != path:
                    rec["problems"].append(f"step {k}: returned path {ret!r}")
                files = sorted(os.listdir(os.path.dirname(path)))
                step["files"] = files
                raw = onnx.load(path, load_external_data=False)
                def _all_inits(g):
                    yield from g.initializer
                    for nd in g.node:
                        for a in nd.attribute:
                            if a.type == onnx.AttributeProto.GRAPH:
                                yield from _all_inits(a.g)
                            elif a.type == onnx.AttributeProto.GRAPHS:
                                for sg in a.graphs:
                                    yield from _all_inits(sg)

                ext = any(t.data_location == onnx.TensorProto.EXTERNAL or len(t.external_data) > 0 for t in _all_inits(raw.graph))
                step["ext"] = ext
                step["sidecar"] = os.path.exists(path + ".data")
                if mode == "web":
                    if ext:
                        rec["problems"].append(f"step {k}: web export references external data")
                    if files != ["model.onnx"]:
                        rec["problems"].append(f"step {k}: web export is not a single file: {files}")
                if ext and not os.path.exists(path + ".data"):
                    rec["problems"].append(f"step {k}: file references a sidecar that does not exist")
                # reload the way a user would
                try:
                    loaded = onnx.load(path)
                except Exception as ex:  # noqa: BLE001
                    rec["problems"].append(f"step {k}: cannot reload: {str(ex)[:160]}")
                    rec["steps"].append(step)
                    continue
                proto = jax2onnx.to_onnx(fn, specs, return_mode="proto")
                irm = jax2onnx.to_onnx(fn, specs, return_mode="ir")
                ir_proto = ir.to_proto(irm)
                if _strip(loaded) != _strip(proto):
                    rec["problems"].append(f"step {k}: reloaded file graph differs from return_mode='proto'")
                if _strip(ir_proto) != _strip(proto):
                    rec["problems"].append(f"step {k}: return_mode='ir' converted to protobuf differs from return_mode='proto'")
                bl, bp, bi = _init_bytes(loaded), _init_bytes(proto), _init_bytes(ir_proto)
                if bl != bp:
                    bad = [n for n in bp if bl.get(n) != bp[n]]
                    rec["problems"].append(f"step {k}: parameter bytes differ after reload: {bad[:3]}")
                if bi != bp:
                    rec["problems"].append(f"step {k}: parameter bytes differ between ir and proto modes")
                # outputs
                try:
                    o_file = U.ort_run(path, {loaded.graph.input[0].name: x})
                    o_proto = U.ort_run(proto, {proto.graph.input[0].name: x})
                    if not all(np.array_equal(a, b) for a, b in zip(o_file, o_proto)):
                        rec["problems"].append(f"step {k}: ORT outputs of the file differ from the proto")
                    want = x @ w + np.float32(k) / 8.0
                    if not np.allclose(o_file[0], want, rtol=1e-4, atol=1e-3):
                        rec["problems"].append(f"step {k}: file computes another export's function (stale parameters?)")
                except Exception as ex:  # noqa: BLE001
                    rec["problems"].append(f"step {k}: ORT cannot run the saved file: {str(ex)[:160]}")
                rec["steps"].append(step)
            # final state vs specification (edge cases leave ext free)
            last = rec["steps"][-1] if rec["steps"] else None
            if last is not None and all(h_[1] != "edge" for h_ in seq["hist"]):
                if last["ext"] != seq["ext"]:
                    rec["problems"].append(f"final file external-data state {last['ext']} vs specification {seq['ext']}")
                if last["sidecar"] != seq["sidecar"] and not seq["sidecar"]:
                    rec["problems"].append("a sidecar file is left on disk where the specification has none")
        finally:
            shutil.rmtree(tmp, ignore_errors=True)
        out.append(rec)
    return out
