"""C12: programs with 4-D inputs/outputs exported plain and with every subset of layout flags;
ORT(flagged)(NCHW(x)) must equal NCHW(ORT(plain)(x)) = NCHW(JAX(x)) on flagged outputs and be
unchanged on the others; invalid selections must be rejected."""

from __future__ import annotations

import itertools
from typing import Any

import numpy as np


def programs():
    import jax
    import jax.numpy as jnp

    c = (np.arange(3, dtype=np.float32) - 1.0) / 2.0  # channel vector (C = 3, last NHWC axis)

    progs = {
        "relu": (lambda x: jnp.maximum(x, 0.0), 1),
        "bias_add_channel_vector": (lambda x: x + c, 1),
        "max_channel_vector": (lambda x: jnp.maximum(x, c), 1),
        "scale_and_tanh": (lambda x: jnp.tanh(x * 2.0) - 0.5, 1),
        "residual_add": (lambda x, y: x + y * 2.0, 2),
        "mean_hw_keepdims": (lambda x: jnp.mean(x, axis=(1, 2), keepdims=True) + x, 1),
        "two_outputs_multi_consumer": (lambda x: (jnp.maximum(x, 0.0), x * 2.0), 1),
        "output_is_input": (lambda x, y: (x, x + y), 2),
        # an image argument the callable ignores (auxiliary input): flagged or not, it stays in the signature
        "ignored_first_input": (lambda x, y: y * 2.0 + 1.0, 2),
        "ignored_second_input": (lambda x, y: jnp.maximum(x, 0.25), 2),
        "mixed_rank_outputs": (lambda x: (x * 3.0, jnp.sum(x, axis=(1, 2, 3))), 1),
        "transpose_inside": (lambda x: jnp.transpose(jnp.transpose(x, (0, 3, 1, 2)) * 2.0, (0, 2, 3, 1)), 1),
        "reshape_inside": (lambda x: x.reshape(x.shape[0], -1, x.shape[3]).reshape(x.shape) + 1.0, 1),
        # programs that READ spatial / channel extents at run time (with symbolic dims the value comes from the
        # graph input through the recorded origin of each symbol, which a layout-flagged input permutes)
        "scale_by_height": (lambda x: x * (x.shape[1] * 1.0) + x.shape[2], 1),
        "flatten_hw": (lambda x: x.reshape(x.shape[0], x.shape[1] * x.shape[2], x.shape[3]) * 2.0, 1),
        "arange_over_width": (lambda x: x + jnp.arange(x.shape[2], dtype=x.dtype)[None, None, :, None], 1),
        "sum_scaled_by_dims": (lambda x: jnp.sum(x, axis=(1, 2)) * (x.shape[1] * 10.0 + x.shape[2]), 1),
    }
    try:
        from flax import nnx

        conv = nnx.Conv(3, 3, kernel_size=(3, 3), padding="SAME", rngs=nnx.Rngs(0))
        progs["nnx_conv"] = (lambda x: conv(x), 1)
        progs["avg_pool"] = (lambda x: nnx.avg_pool(x, window_shape=(2, 2), strides=(2, 2)), 1)
    except Exception:  # noqa: BLE001
        pass
    return progs


SHAPES = [(2, 4, 5, 3), (1, 4, 4, 3)]  # N, H, W, C (second: square spatial dims, a layout mix-up stays shape-valid)


def _nchw(a):
    return np.transpose(a, (0, 3, 1, 2))


def run_program(name: str, quick: bool) -> dict[str, Any]:
    import jax
    import jax.numpy as jnp

    import jax2onnx
    from harness import onnxutil as U

    fn, nin = programs()[name]
    out: dict[str, Any] = {"prog": name, "cases": [], "rejections": []}
    shapes = SHAPES[:1] if quick else SHAPES
    for shp, symbolic in [(s_, sy) for s_ in shapes for sy in (False, True)]:
        spec = ("B", "H", "W", shp[3]) if symbolic else shp
        xs = [(((np.arange(int(np.prod(shp))) * 7 + 3 * k) % 23 - 11) / 4.0).reshape(shp).astype(np.float32) for k in range(nin)]
        ref = [np.asarray(v) for v in jax.tree_util.tree_leaves(fn(*[jnp.asarray(x) for x in xs]))]
        nout = len(ref)
        four_d_out = [j for j, r in enumerate(ref) if r.ndim == 4]
        try:
            plain = jax2onnx.to_onnx(fn, [spec] * nin)
            plain_out = U.ort_run(plain, {i.name: x for i, x in zip(plain.graph.input, xs)})
        except Exception as ex:  # noqa: BLE001
            out["cases"].append({"shape": shp, "symbolic": symbolic, "in": [], "out": [], "ok": False, "why": f"plain export/run failed: {type(ex).__name__}: {str(ex)[:160]}", "plain_failed": True})
            continue
        in_subsets = [list(s) for r in range(nin + 1) for s in itertools.combinations(range(nin), r)]
        out_subsets = [list(s) for r in range(len(four_d_out) + 1) for s in itertools.combinations(four_d_out, r)]
        for ins in in_subsets:
            for outs in out_subsets:
                if not ins and not outs:
                    continue
                rec: dict[str, Any] = {"shape": list(shp), "symbolic": symbolic, "in": ins, "out": outs, "ok": True, "why": None}
                try:
                    m = jax2onnx.to_onnx(fn, [spec] * nin, inputs_as_nchw=ins or None, outputs_as_nchw=outs or None)
                except Exception as ex:  # noqa: BLE001
                    rec.update(ok=False, why=f"export raised: {type(ex).__name__}: {str(ex)[:160]}")
                    out["cases"].append(rec)
                    continue
                feeds = {}
                if len(m.graph.input) != len(plain.graph.input):
                    rec.update(ok=False, why=f"the layout selection changed the model signature: plain export has inputs {[i.name for i in plain.graph.input]}, flagged export has {[i.name for i in m.graph.input]}")
                    out["cases"].append(rec)
                    continue
                for k, (vi, x) in enumerate(zip(m.graph.input, xs)):
                    feeds[vi.name] = _nchw(x) if k in ins else x
                    want_shape = list(_nchw(x).shape if k in ins else x.shape)
                    decl = [d.dim_value for d in vi.type.tensor_type.shape.dim]
                    if symbolic:
                        decl = [dv if dv else ws for dv, ws in zip(decl, want_shape)]     # symbolic dims carry no value
                    if decl != want_shape:
                        rec.update(ok=False, why=f"input {k} declared {decl}, expected {want_shape}")
                try:
                    got = U.ort_run(m, feeds)
                except Exception as ex:  # noqa: BLE001
                    rec.update(ok=False, why=f"flagged model does not run: {str(ex)[:200]}")
                    out["cases"].append(rec)
                    continue
                if len(got) != nout:
                    rec.update(ok=False, why=f"output count {len(got)} vs {nout}")
                for j in range(min(len(got), nout)):
                    want_plain = _nchw(plain_out[j]) if j in outs else plain_out[j]
                    want_jax = _nchw(ref[j]) if j in outs else ref[j]
                    if got[j].shape != want_plain.shape or not np.array_equal(got[j], want_plain):
                        if got[j].shape == want_plain.shape and np.allclose(got[j], want_plain, rtol=1e-6, atol=1e-6):
                            continue  # kernels may pick a different but equivalent algorithm per layout
                        rec.update(ok=False, why=f"output {j} ({'flagged' if j in outs else 'unflagged'}) differs from {'NCHW of ' if j in outs else ''}the plain export")
                    elif not np.allclose(got[j], want_jax, rtol=1e-5, atol=1e-5):
                        rec.update(ok=False, why=f"output {j} differs from JAX")
                out["cases"].append(rec)
        if symbolic:
            continue
        # invalid selections
        bad = [
            ("index_out_of_range_in", dict(inputs_as_nchw=[nin])),
            ("negative_index_in", dict(inputs_as_nchw=[-1])),
            ("duplicate_index_in", dict(inputs_as_nchw=[0, 0])),
            ("index_out_of_range_out", dict(outputs_as_nchw=[nout])),
            ("bool_index", dict(inputs_as_nchw=[True])),
        ]
        non4 = [j for j, r in enumerate(ref) if r.ndim != 4]
        if non4:
            bad.append(("non_4d_output", dict(outputs_as_nchw=[non4[0]])))
        for label, kw in bad:
            try:
                jax2onnx.to_onnx(fn, [shp] * nin, **kw)
                out["rejections"].append({"label": label, "rejected": False})
            except Exception as ex:  # noqa: BLE001
                out["rejections"].append({"label": label, "rejected": True, "error": f"{type(ex).__name__}"})
    # rank-3 input flagged: must be rejected
    try:
        jax2onnx.to_onnx(lambda x: x * 2.0, [(2, 3, 4)], inputs_as_nchw=[0])
        out["rejections"].append({"label": "non_4d_input", "rejected": False})
    except Exception as ex:  # noqa: BLE001
        out["rejections"].append({"label": "non_4d_input", "rejected": True, "error": type(ex).__name__})
    return out
