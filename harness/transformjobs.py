"""C10: transformed templates (cases from J2O_Transform) and transformed corpus callables exported
with the real converter and compared with the transformed function evaluated by JAX."""

from __future__ import annotations

from typing import Any

import numpy as np


def _templates():
    import jax
    import jax.numpy as jnp

    def t1(v):
        return v * v + 3.0 * v

    def t2(v):
        return jnp.sum(v) * v

    def t3(v):
        return jnp.stack([v[0] * v[1], v[0] + v[1]])

    def t4(v):
        return jnp.prod(v) * jnp.ones(2, v.dtype)

    @jax.custom_jvp
    def cj(v):
        return v * v + 3.0 * v

    @cj.defjvp
    def cj_jvp(primals, tangents):
        (v,), (t,) = primals, tangents
        return cj(v), 2.0 * (2.0 * v + 3.0) * t

    @jax.custom_vjp
    def cv(v):
        return v * v + 3.0 * v

    def cv_fwd(v):
        return cv(v), v

    def cv_bwd(res, g):
        return (2.0 * (2.0 * res + 3.0) * g,)

    cv.defvjp(cv_fwd, cv_bwd)
    return {"t1": t1, "t2": t2, "t3": t3, "t4": t4, "cj": cj, "cv": cv}


def run_cases(cases: list[dict[str, Any]]) -> dict[str, Any]:
    import jax
    import jax.numpy as jnp

    import jax2onnx
    from harness import onnxutil as U

    T = _templates()
    f32 = np.float32
    out: dict[str, Any] = {"n": 0, "mismatch": [], "spec_vs_jax": [], "export_failed": []}
    models: dict[Any, Any] = {}
    refs: dict[Any, Any] = {}

    def get(key, fn, specs):
        if key not in models:
            try:
                m = jax2onnx.to_onnx(fn, specs)
                models[key] = (U.ort_session(m), [i.name for i in m.graph.input], fn)
            except Exception as ex:  # noqa: BLE001
                models[key] = None
                out["export_failed"].append({"template": str(key), "error": f"{type(ex).__name__}: {str(ex)[:200]}"})
        return models[key]

    for rec in cases:
        c = rec["c"]
        k = c["k"]
        if k == "identity":
            f = T[c["t"]]
            fn = {"jit": jax.jit(f), "nested_jit": jax.jit(lambda v, f=f: jax.jit(f)(v) * 1.0), "remat": jax.checkpoint(f)}[c["tr"]]
            key, specs, args = (k, c["tr"], c["t"]), [(2,)], [np.array(c["v"], f32)]
        elif k == "vmap":
            f = T[c["t"]]
            fn = jax.vmap(f, in_axes=c["a"], out_axes=c["b"])
            key, specs, args = (k, c["t"], c["a"], c["b"]), [(2, 2)], [np.array(c["X"], f32)]
        elif k == "jvp":
            f = T[c["t"]]
            fn = lambda v, t, f=f: jax.jvp(f, (v,), (t,))[1]  # noqa: E731
            key, specs, args = (k, c["t"]), [(2,), (2,)], [np.array(c["v"], f32), np.array(c["tg"], f32)]
        elif k == "grad":
            f = T[c["t"]]
            fn = jax.grad(lambda v, f=f: jnp.sum(f(v)))
            key, specs, args = (k, c["t"]), [(2,)], [np.array(c["v"], f32)]
        else:  # custom_jvp: both the custom_jvp rule and the equivalent custom_vjp rule
            fn = lambda v, t: jax.jvp(T["cj"], (v,), (t,))[1]  # noqa: E731
            key, specs, args = (k,), [(2,), (2,)], [np.array(c["v"], f32), np.array(c["tg"], f32)]
        exp = np.array(rec["r"], np.float64)
        variants = [(key, fn, specs, args, exp)]
        if k == "custom_jvp":
            fn2 = lambda v, t: jax.vjp(T["cv"], v)[1](t)[0]  # noqa: E731  (diagonal rule: vjp = same numbers)
            variants.append((("custom_vjp",), fn2, specs, args, exp))
        # reference first: a jit-wrapped callable that is traced for the first time DURING an export keeps
        # converter-only primitives in its trace cache (listed finding KF-C13-jit-trace-cache)
        for key2, fn2, specs2, args2, exp2 in variants:
            refs[id(rec), str(key2)] = np.asarray(fn2(*[jnp.asarray(a) for a in args2]), np.float64)
        for key2, fn2, specs2, args2, exp2 in variants:
            got_m = get(key2, fn2, specs2)
            if got_m is None:
                continue
            sess, names, _ = got_m
            out["n"] += 1
            got = np.asarray(sess.run(None, dict(zip(names, args2)))[0], np.float64)
            ref = refs[id(rec), str(key2)]
            if ref.shape != exp2.shape or not np.array_equal(ref, exp2):
                out["spec_vs_jax"].append({"case": c, "template": str(key2), "spec": exp2.tolist(), "jax": ref.tolist()})
                continue
            if got.shape != ref.shape or not np.array_equal(got, ref):
                out["mismatch"].append({"case": c, "template": str(key2), "ort": got.tolist(), "jax": ref.tolist()})
    return out


def corpus_transform_job(indices: list[int], transforms: list[str]) -> list[dict[str, Any]]:
    """vmap / jit / grad / jvp / remat applied to registered callables."""
    import jax
    import jax.numpy as jnp

    import jax2onnx
    from harness import corpus as C
    from harness import onnxutil as U
    from harness.diffjobs import compare

    vs = C.variants()
    out = []
    for i in indices:
        tp = vs[i]
        double = bool(tp.get("_enable_double_precision_test_setting", False))
        rec: dict[str, Any] = {"i": i, "key": C.key_of(tp), "per_transform": {}}
        if tp.get("input_params") or tp.get("inputs_as_nchw") or tp.get("outputs_as_nchw"):
            rec["status"] = "skipped_params_or_layout"
            out.append(rec)
            continue
        try:
            fn = C._instantiate(tp)
            xs = C.author_inputs(tp)
        except Exception:  # noqa: BLE001
            rec["status"] = "instantiate_failed"
            out.append(rec)
            continue
        if not xs or any(isinstance(d, str) for s in (tp.get("input_shapes") or []) for d in (s if isinstance(s, (list, tuple)) else [s])):
            rec["status"] = "skipped_no_inputs_or_symbolic"
            out.append(rec)
            continue
        rec["status"] = "ok"
        float_in = [k for k, x in enumerate(xs) if np.asarray(x).dtype.kind == "f"]
        def fresh(_fn=fn):
            # a new function object per use: jax.jit caches traces per underlying function, and the
            # reference evaluation must not share a trace cache entry with the export (or vice versa)
            return lambda *a: _fn(*a)

        # the second batch entry: a scaled copy for testcases the project itself feeds with arbitrary
        # draws (input_shapes); an identical copy where the author's values encode a domain (input_values)
        k2 = 0.5 if tp.get("input_values") is None else 1.0
        for tr in transforms:
            pr: dict[str, Any] = {}
            warm = False
            try:
                if tr == "vmap":
                    mk = lambda: jax.vmap(fresh())  # noqa: E731
                    txs = [np.stack([x, x * (k2 if np.asarray(x).dtype.kind == "f" else 1)]) for x in xs]
                elif tr in ("vmap1", "vmap_last"):
                    # batch dimension in the middle / at the end of every operand
                    if any(np.asarray(x).ndim < 1 for x in xs):
                        pr["status"] = "not_applicable"
                        rec["per_transform"][tr] = pr
                        continue
                    ax = 1 if tr == "vmap1" else -1
                    mk = lambda _ax=ax: jax.vmap(fresh(), in_axes=_ax, out_axes=0)  # noqa: E731
                    txs = [np.stack([x, x * (k2 if np.asarray(x).dtype.kind == "f" else 1)], axis=(1 if tr == "vmap1" else np.asarray(x).ndim)) for x in xs]
                elif tr == "jit":
                    mk = lambda: jax.jit(fresh())  # noqa: E731
                    txs = xs
                elif tr == "jit_warm":
                    # the user ran the jitted function eagerly before exporting THE SAME object
                    shared = jax.jit(fresh())
                    mk = lambda _s=shared: _s  # noqa: E731
                    txs = xs
                    warm = True
                elif tr == "remat":
                    mk = lambda: jax.checkpoint(fresh())  # noqa: E731
                    txs = xs
                elif tr == "grad":
                    if not float_in:
                        pr["status"] = "not_applicable"
                        rec["per_transform"][tr] = pr
                        continue
                    k0 = float_in[0]

                    def mk(_fn=fn, _k0=k0):
                        def scalar(*a):
                            leaves = jax.tree_util.tree_leaves(_fn(*a))
                            return sum(jnp.sum(l.astype(a[_k0].dtype)) for l in leaves if jnp.issubdtype(l.dtype, jnp.floating))

                        return jax.grad(scalar, argnums=_k0)

                    txs = xs
                else:  # jvp
                    if not float_in:
                        pr["status"] = "not_applicable"
                        rec["per_transform"][tr] = pr
                        continue
                    k0 = float_in[0]

                    def mk(_fn=fn, _k=k0):
                        def tfn(*a):
                            tang = tuple(jnp.ones_like(v) if j == _k else jnp.zeros_like(v) for j, v in enumerate(a))
                            if any(not jnp.issubdtype(v.dtype, jnp.floating) for v in a):
                                raise TypeError("jvp needs float primals")
                            return jax.jvp(_fn, a, tang)[1]

                        return tfn

                    txs = xs
                ref = C.jax_eval(mk(), txs, {}, double)
            except Exception as ex:  # noqa: BLE001  (JAX itself does not support T(f) on these inputs)
                pr["status"] = "jax_rejects"
                pr["why"] = f"{type(ex).__name__}"
                rec["per_transform"][tr] = pr
                continue
            if any(np.asarray(r).dtype.kind in "fc" and not np.all(np.isfinite(np.asarray(r))) for r in ref):
                pr["status"] = "jax_non_finite"
                rec["per_transform"][tr] = pr
                continue
            try:
                specs = [jax.ShapeDtypeStruct(np.asarray(x).shape, np.asarray(x).dtype) for x in txs]
                m = jax2onnx.to_onnx(mk(), specs, enable_double_precision=double, opset=int(tp.get("opset_version", 23)))
            except Exception as ex:  # noqa: BLE001
                pr["status"] = "export_failed"
                pr["why"] = f"{type(ex).__name__}: {str(ex)[:120]}"
                rec["per_transform"][tr] = pr
                continue
            try:
                feeds = C.feeds_for(m, txs, {}, None)
                got = U.ort_run(m, feeds)
            except Exception as ex:  # noqa: BLE001
                msg = str(ex)
                pr["status"] = "ort_runtime_limit" if ("NOT_IMPLEMENTED" in msg or "opset" in msg.lower()) else "ort_failed"
                pr["why"] = msg[:160]
                rec["per_transform"][tr] = pr
                continue
            pr["status"] = "compared"
            from harness.diffjobs import _tolerances

            rtol, atol = _tolerances(tp, double)
            rtol, atol = max(rtol, 1e-7 if double else 3e-5), max(atol, 1e-7 if double else 3e-5)
            if len(got) != len(ref):
                pr["problem"] = f"output count {len(ref)} vs {len(got)}"
            else:
                for k, (g, r) in enumerate(zip(got, ref)):
                    why = compare(g, np.asarray(r), None, rtol, atol, double)
                    if why:
                        pr["problem"] = f"output {k}: {why}"
                        break
            rec["per_transform"][tr] = pr
        out.append(rec)
    return out
