"""./check <ID> --tier quick|thorough [--replay <path>]"""

from __future__ import annotations

import argparse
import importlib
import json
import os
import sys
import traceback

from harness.common import Ctx, MachineryError

LEVELS = {}


def main() -> int:
    ap = argparse.ArgumentParser()
    ap.add_argument("pid")
    ap.add_argument("--tier", default=os.environ.get("VERIF_TIER", "quick"), choices=["quick", "thorough"])
    ap.add_argument("--replay", default=None)
    a = ap.parse_args()
    seed = int(os.environ.get("VERIF_SEED", "0") or 0)
    pid = a.pid.upper()
    mod = importlib.import_module(f"harness.checks.{pid.lower()}")
    ctx = Ctx(pid, a.tier, seed, getattr(mod, "LEVEL", "model_checking"))
    try:
        if a.replay:
            rec = json.loads(open(a.replay).read())
            if hasattr(mod, "replay"):
                return int(mod.replay(ctx, rec) or 0)
            print(json.dumps(rec, indent=1))
            return 0
        mod.run(ctx)
        return ctx.finish()
    except MachineryError as ex:
        print(f"MACHINERY-FAILURE [{pid}]: {ex}", file=sys.stderr)
        return 2
    except Exception:
        traceback.print_exc()
        print(f"MACHINERY-FAILURE [{pid}]: unexpected exception", file=sys.stderr)
        return 2


if __name__ == "__main__":
    sys.exit(main())
