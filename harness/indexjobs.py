"""Replay of J2O_Index: index-driven primitives at the edges of the index domain.  One export per
(primitive, static parameters) with the index as a run-time input; every TLC case runs through ORT and
is compared three ways: specification = JAX eager = exported model (exact integers)."""

from __future__ import annotations

from typing import Any

import numpy as np

N = 5
X = np.arange(10, 10 + N, dtype=np.int32)


def _templates():
    import jax.numpy as jnp
    from jax import lax

    T: dict[Any, Any] = {}
    for n in (1, 2, 3):
        T[("dynamic_slice", n)] = (lambda x, i, n=n: lax.dynamic_slice(x, (i,), (n,)), "dyn")
        T[("dynamic_slice_in_dim", n)] = (lambda x, i, n=n: lax.dynamic_slice_in_dim(x, i, n, axis=0), "dyn")
        T[("dynamic_update_slice", n)] = (lambda x, i, n=n: lax.dynamic_update_slice(x, -jnp.arange(1, n + 1, dtype=x.dtype), (i,)), "dyn")
    for m in ("clip", "wrap", "fill"):
        T[("take", m)] = (lambda x, i, m=m: jnp.take(x, i, mode=m, fill_value=-1) if m == "fill" else jnp.take(x, i, mode=m), "dyn")
    T[("index_get", 0)] = (lambda x, i: x[i], "dyn")
    T[("roll_dynamic", 0)] = (lambda x, s: jnp.roll(x, s), "dyn")
    return T


def run_cases(cases: list[dict[str, Any]]) -> dict[str, Any]:
    import jax
    import jax.numpy as jnp
    from jax import lax

    import jax2onnx
    from harness import onnxutil as U

    out: dict[str, Any] = {"n": 0, "mismatch": [], "spec_vs_jax": [], "export_failed": [], "per_template": {}}
    T = _templates()
    sessions: dict[Any, Any] = {}

    def dyn_session(key):
        if key not in sessions:
            fn = T[key][0]
            try:
                m = jax2onnx.to_onnx(fn, [jax.ShapeDtypeStruct((N,), np.int32), jax.ShapeDtypeStruct((), np.int32)])
                sessions[key] = (U.ort_session(m), [i.name for i in m.graph.input], fn)
            except Exception as ex:  # noqa: BLE001
                sessions[key] = None
                out["export_failed"].append({"template": str(key), "error": f"{type(ex).__name__}: {str(ex)[:200]}"})
        return sessions[key]

    def record(key, ok):
        d = out["per_template"].setdefault(str(key), {"ok": 0, "bad": 0})
        d["ok" if ok else "bad"] += 1

    def compare(key, c, exp, got, ref):
        out["n"] += 1
        e = np.asarray(exp, np.int64).reshape(-1) if np.asarray(exp).size else np.zeros((0,), np.int64)
        j = np.asarray(ref, np.int64).reshape(-1)
        g = np.asarray(got, np.int64).reshape(-1)
        if e.shape != j.shape or not np.array_equal(e, j):
            out["spec_vs_jax"].append({"template": str(key), "case": c, "spec": e.tolist(), "jax": j.tolist()})
            return
        ok = g.shape == j.shape and np.array_equal(g, j)
        record(key, ok)
        if not ok:
            out["mismatch"].append({"template": str(key), "case": c, "ort": g.tolist(), "jax": j.tolist()})

    for rec in cases:
        c, r = rec["c"], rec["r"]
        k = c["k"]
        keys = []
        if k == "dynamic_slice":
            keys = [("dynamic_slice", c["n"]), ("dynamic_slice_in_dim", c["n"])]
            arg = c["i"]
        elif k == "dynamic_update_slice":
            keys = [("dynamic_update_slice", c["n"])]
            arg = c["i"]
        elif k == "take":
            keys = [("take", c["mode"])]
            arg = c["i"]
        elif k == "index_get":
            keys = [("index_get", 0)]
            arg = c["i"]
        elif k == "roll":
            keys = [("roll_dynamic", 0)]
            arg = c["s"]
        if keys:
            for key in keys:
                s = dyn_session(key)
                if s is None:
                    continue
                sess, names, fn = s
                try:
                    got = sess.run(None, dict(zip(names, [X, np.asarray(arg, np.int32)])))[0]
                except Exception as ex:  # noqa: BLE001
                    out["n"] += 1
                    record(key, False)
                    out["mismatch"].append({"template": str(key), "case": c, "ort": f"run error: {str(ex)[:160]}", "jax": np.asarray(fn(jnp.asarray(X), jnp.int32(arg))).tolist()})
                    continue
                compare(key, c, r, got, np.asarray(fn(jnp.asarray(X), jnp.int32(arg))))
            if k == "roll":
                key = ("roll_static", c["s"])
                fn = lambda x, s=c["s"]: jnp.roll(x, s)  # noqa: E731
                _static(key, c, r, fn, out, compare, U)
            continue
        if k == "pad":
            key = ("pad", c["lo"], c["hi"])
            fn = lambda x, lo=c["lo"], hi=c["hi"]: lax.pad(x, jnp.int32(0), ((lo, hi, 0),))  # noqa: E731
        else:
            key = ("slice", c["a"], c["b"], c["st"])
            fn = lambda x, a=c["a"], b=c["b"], st=c["st"]: x[a:b:st]  # noqa: E731
        _static(key, c, r, fn, out, compare, U)
    return out


def _static(key, c, r, fn, out, compare, U) -> None:
    import jax
    import jax.numpy as jnp

    import jax2onnx

    try:
        ref = np.asarray(fn(jnp.asarray(X)))
    except Exception:  # noqa: BLE001  (JAX rejects this static configuration)
        return
    try:
        m = jax2onnx.to_onnx(fn, [jax.ShapeDtypeStruct((N,), np.int32)])
        got = U.ort_run(m, {m.graph.input[0].name: X} if m.graph.input else {})[0]
    except Exception as ex:  # noqa: BLE001
        msg = f"{type(ex).__name__}: {str(ex)[:200]}"
        if "ONNXRuntimeError" in msg or "INVALID" in msg:
            out["n"] += 1
            out["mismatch"].append({"template": str(key), "case": c, "ort": f"invalid model: {msg[:160]}", "jax": ref.tolist()})
        else:
            out["export_failed"].append({"template": str(key), "error": msg})
        return
    compare(key[:1], c, r, got, ref)
