"""J2O_Unwind facts and real-code confirmation: every @contextmanager of the working tree, the way its
teardown is attached (AST), and -- for the managers that guard process state -- execution of the real
manager with the with-body left on every exit path."""

from __future__ import annotations

import ast
from pathlib import Path
from typing import Any


def _style(fn: ast.FunctionDef) -> str:
    yields = [n for n in ast.walk(fn) if isinstance(n, (ast.Yield, ast.YieldFrom))]
    if not yields:
        return "no_state"
    parents: dict[int, ast.AST] = {}
    for p in ast.walk(fn):
        for c in ast.iter_child_nodes(p):
            parents[id(c)] = p
    styles = []
    for y in yields:
        cur: ast.AST = y
        found = None
        while id(cur) in parents:
            par = parents[id(cur)]
            if isinstance(par, ast.Try) and cur in par.body:
                if par.finalbody:
                    found = "finally"
                else:
                    allc = any(h.type is None or (isinstance(h.type, ast.Name) and h.type.id == "BaseException") for h in par.handlers)
                    found = "except_all" if allc else "except_exception"
                break
            if isinstance(par, ast.With) and cur in par.body:
                # teardown delegated to inner managers (ExitStack / nested with): runs on every path
                found = found or "finally"
            cur = par
        if found is None:
            # statements after the yield in the same block = teardown that only runs on normal return
            blk = parents.get(id(parents.get(id(y), y)))
            after = False
            body = getattr(blk, "body", []) if blk is not None else []
            stmt = parents.get(id(y))
            if stmt in body:
                after = any(not isinstance(t, (ast.Return, ast.Pass)) for t in body[body.index(stmt) + 1:])
            found = "bare" if after else "no_state"
        styles.append(found)
    order = ["bare", "except_exception", "except_all", "setup_outside", "finally", "no_state"]
    worst = min(styles, key=order.index)
    return worst


def manager_facts(repo: str) -> dict[str, str]:
    out: dict[str, str] = {}
    root = Path(repo) / "jax2onnx"
    for f in sorted(root.rglob("*.py")):
        if "examples" in f.parts or f.name.startswith("test_"):
            continue
        try:
            tree = ast.parse(f.read_text())
        except SyntaxError:
            continue
        for node in ast.walk(tree):
            if isinstance(node, (ast.FunctionDef,)) and any((isinstance(d, ast.Name) and d.id == "contextmanager") or (isinstance(d, ast.Attribute) and d.attr == "contextmanager") for d in node.decorator_list):
                rel = str(f.relative_to(root)).replace("/", ".")[:-3]
                out[f"{rel}.{node.name}"] = _style(node)
    return out


class _Base(BaseException):
    pass


def drive_real() -> list[dict[str, Any]]:
    """Leave the body of the real state-guarding managers on every exit path; report the observable state."""
    import jax

    import jax2onnx.converter.conversion_api as capi
    import jax2onnx.user_interface as ui

    res = []

    def x64():
        return bool(jax.config.read("jax_enable_x64"))

    mgrs = {"user_interface._temporary_x64": ui._temporary_x64}
    if hasattr(capi, "_force_jax_x64"):
        mgrs["converter.conversion_api._force_jax_x64"] = capi._force_jax_x64
    for name, mk in mgrs.items():
        for start in (False, True):
            for target in (False, True):
                for path in ("return", "exception", "base_exception", "generator_exit"):
                    jax.config.update("jax_enable_x64", start)
                    cm = mk(target)
                    raised = None
                    try:
                        if path == "generator_exit":
                            cm.__enter__()
                            cm.gen.close()       # the body never finishes: the generator is closed (GeneratorExit)
                        else:
                            with cm:
                                if path == "exception":
                                    raise ValueError("body")
                                if path == "base_exception":
                                    raise _Base("body")
                    except BaseException as ex:  # noqa: BLE001
                        raised = type(ex).__name__
                    after = x64()
                    res.append({"manager": name, "start": start, "target": target, "path": path, "after": after, "restored": after == start, "raised": raised})
    jax.config.update("jax_enable_x64", False)
    return res
