"""Replay of J2O_Promotion: mixed-operand expressions exported in single / double mode.

For every TLC case: (i) the specification's promoted type must equal what JAX eager produces in the
same 64-bit mode (binding of the lattice); (ii) the export: in single-precision mode the model must
contain no DOUBLE tensor / constant / cast anywhere and declare the predicted output type; in both
modes the model must load and return JAX's values."""

from __future__ import annotations

from typing import Any

import numpy as np


def _operand(kind: str):
    import jax.numpy as jnp

    return {"s_i64": np.int64(3), "s_f64": np.float64(0.5), "py_int": 3, "py_float": 0.5}.get(kind)


def run_cases(cases: list[dict[str, Any]]) -> dict[str, Any]:
    import jax
    import jax.numpy as jnp

    import jax2onnx
    from harness import onnxutil as U
    from harness.censusjobs import dtype_census

    out: dict[str, Any] = {"n": 0, "spec_vs_jax": [], "problems": [], "export_failed": []}
    tens = {"t_f32": np.array([[-1.5, 0.0, 2.5], [3.0, -0.5, 1.0]], np.float32), "t_i32": np.array([[-2, 0, 3], [4, -1, 1]], np.int32), "t_bool": np.array([[True, False, True], [False, False, True]])}
    for rec in cases:
        c, r = rec["c"], rec["r"]
        a_kind, b_kind, op, x64, tail = c["a"], c["b"], c["op"], bool(c["x64"]), bool(c["tail"])
        b_tensor = b_kind.startswith("t_")

        def fn(*xs, _op=op, _bk=b_kind, _tail=tail):
            a = xs[0]
            b = xs[1] if len(xs) > 1 else _operand(_bk)
            if _op == "where":
                cond = (a > 0) if a.dtype != jnp.bool_ else a
                lhs = a if a.dtype != jnp.bool_ else a
                y = jnp.where(cond, lhs, b)
            elif _op == "add":
                y = a + b
            else:
                y = jnp.maximum(a, b)
            return (y, y * 1) [1 if _tail else 0] if y.dtype != jnp.bool_ else y

        args = [tens[a_kind]] + ([tens[b_kind].T.copy().T] if b_tensor else [])
        prev = bool(jax.config.jax_enable_x64)
        jax.config.update("jax_enable_x64", x64)
        try:
            ref = np.asarray(fn(*[jnp.asarray(v) for v in args]))
        except Exception:  # noqa: BLE001
            jax.config.update("jax_enable_x64", prev)
            continue
        finally:
            jax.config.update("jax_enable_x64", prev)
        want = {("b", 8): "bool", ("i", 32): "int32", ("i", 64): "int64", ("f", 32): "float32", ("f", 64): "float64"}[(r["cls"], r["w"])]
        if str(ref.dtype) != want:
            out["spec_vs_jax"].append({"case": c, "spec": want, "jax": str(ref.dtype)})
            continue
        try:
            m = jax2onnx.to_onnx(fn, [jax.ShapeDtypeStruct(v.shape, v.dtype) for v in args], enable_double_precision=x64)
        except Exception as ex:  # noqa: BLE001
            out["export_failed"].append({"case": c, "error": f"{type(ex).__name__}: {str(ex)[:160]}"})
            continue
        out["n"] += 1
        cen = dtype_census(m)
        if not x64 and cen["double"]:
            out["problems"].append({"case": c, "what": "double_in_single_precision_model", "detail": str(cen["double"][:3])})
        try:
            from onnx import helper as oh

            # feeds in the element type the model declares (double-precision exports widen float inputs)
            feeds = {i.name: np.asarray(v).astype(oh.tensor_dtype_to_np_dtype(i.type.tensor_type.elem_type)) for i, v in zip(m.graph.input, args)}
            got = U.ort_run(m, feeds)[0]
        except Exception as ex:  # noqa: BLE001
            out["problems"].append({"case": c, "what": "model_does_not_run", "detail": str(ex)[:200]})
            continue
        if not x64 and str(got.dtype) != want:
            out["problems"].append({"case": c, "what": "output_type", "detail": f"model returns {got.dtype}, JAX (and the lattice) {want}"})
        if got.shape != ref.shape or not np.allclose(got.astype(np.float64), ref.astype(np.float64), rtol=1e-6, atol=1e-6):
            out["problems"].append({"case": c, "what": "values", "detail": f"{got.ravel()[:4].tolist()} vs {ref.ravel()[:4].tolist()}"})
    return out
