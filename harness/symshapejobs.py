"""spec -> code replay of J2O_SymShape: shape-changing operations exported with named dimensions B, N and run at
every binding the specification lists.  Three-way: specification's shape = JAX eager's shape (binds the algebra;
a mismatch is a specification bug) and ORT's output = JAX eager's output (shape and values)."""

from __future__ import annotations

from typing import Any

import numpy as np

SB, SN, SBN, INFER = -1, -2, -3, -9


def _dim(code: int, x_shape, insh):
    """dimension code -> expression over the traced input's shape"""
    ib = list(insh).index(SB)
    inn = list(insh).index(SN)
    if code == SB:
        return x_shape[ib]
    if code == SN:
        return x_shape[inn]
    if code == SBN:
        return x_shape[ib] * x_shape[inn]
    if code == INFER:
        return -1
    return int(code)


def build(c: dict[str, Any]):
    import jax.numpy as jnp

    op, insh, a, r = c["op"], c["insh"], c["a"], c["r"]

    def fn(x):
        d = lambda code: _dim(code, x.shape, insh)  # noqa: E731
        if op == "squeeze":
            return jnp.squeeze(x, axis=tuple(a))
        if op == "expand_dims":
            return jnp.expand_dims(x, a[0])
        if op == "transpose":
            return jnp.transpose(x, tuple(a))
        if op == "tile":
            return jnp.tile(x, tuple(d(k) for k in r))
        if op == "reshape":
            return x.reshape(tuple(d(k) for k in r))
        if op == "broadcast_to":
            return jnp.broadcast_to(x, tuple(d(k) for k in r))
        if op == "concat":
            return jnp.concatenate([x * (j + 1.0) for j in range(a[1])], axis=a[0])
        if op == "stack":
            return jnp.stack([x * (j + 1.0) for j in range(a[1])], axis=a[0])
        if op == "repeat":
            return jnp.repeat(x, a[1], axis=a[0])
        if op == "flip":
            return jnp.flip(x, axis=a[0])
        if op == "ones":
            return jnp.ones(tuple(d(k) for k in r), dtype=x.dtype) * x.sum()
        if op == "slice":
            sl = {1: slice(1, None), 2: slice(None, -1), 3: slice(None, None, 2), 4: slice(-1, None), 5: slice(None, None, -1), 6: slice(1, None, 2)}[a[1]]
            return x[sl] if a[0] == 0 else x[:, sl]
        if op == "pad":
            return jnp.pad(x, ((a[0], a[1]), (a[2], a[3])))
        if op == "roll":
            return jnp.roll(x, a[1], axis=a[0])
        if op == "swapaxes":
            return jnp.swapaxes(x, a[0], a[1])
        if op == "moveaxis":
            return jnp.moveaxis(x, a[0], a[1])
        if op == "sum_keepdims_squeeze":
            return jnp.squeeze(x.sum(axis=a[0], keepdims=True), axis=a[0])
        if op == "sum_reshape":
            return x.sum(axis=a[0]).reshape(x.shape[1 - a[0]], 1)
        raise AssertionError(op)

    specs = [tuple({SB: "B", SN: "N"}.get(k, k) for k in insh)]
    return fn, specs


def run_cases(cases: list[dict[str, Any]]) -> dict[str, Any]:
    import jax.numpy as jnp

    import jax2onnx
    from harness import onnxutil as U

    out: dict[str, Any] = {"n": 0, "spec_vs_jax": [], "problems": [], "export_failed": []}
    for rec in cases:
        c = rec["c"]
        fn, specs = build(c)
        try:
            m = jax2onnx.to_onnx(fn, specs)
        except Exception as ex:  # noqa: BLE001
            out["export_failed"].append({"case": c, "error": f"{type(ex).__name__}: {str(ex)[:200]}"})
            continue
        try:
            sess = U.ort_session(m)
        except Exception as ex:  # noqa: BLE001
            out["problems"].append({"case": c, "bind": {"B": 0, "N": 0}, "what": "invalid_model", "detail": f"the exported model does not load: {str(ex)[:200]}"})
            continue
        nm = sess.get_inputs()[0].name
        for bs in rec["shapes"]:
            b, want = bs["b"], [int(v) for v in bs["s"]]
            shp = tuple({SB: b["B"], SN: b["N"]}.get(k, k) for k in c["insh"])
            x = ((np.arange(int(np.prod(shp))) % 17 - 8) / 4.0).reshape(shp).astype(np.float32)
            out["n"] += 1
            try:
                ref = np.asarray(fn(jnp.asarray(x)))
            except Exception as ex:  # noqa: BLE001
                out["spec_vs_jax"].append({"case": c, "bind": b, "why": f"JAX eager fails: {type(ex).__name__}: {str(ex)[:120]}"})
                continue
            if list(ref.shape) != want:
                out["spec_vs_jax"].append({"case": c, "bind": b, "why": f"spec {want} vs JAX {list(ref.shape)}"})
                continue
            try:
                got = sess.run(None, {nm: x})[0]
            except Exception as ex:  # noqa: BLE001
                out["problems"].append({"case": c, "bind": b, "what": "ort_rejects_binding", "detail": str(ex)[:200]})
                continue
            if list(got.shape) != want:
                out["problems"].append({"case": c, "bind": b, "what": "shape", "detail": f"model returns shape {list(got.shape)}, J2O_SymShape and JAX say {want}"})
            elif not np.allclose(got, ref, rtol=1e-6, atol=1e-6):
                out["problems"].append({"case": c, "bind": b, "what": "values", "detail": "values differ from JAX"})
    return out
