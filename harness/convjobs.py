"""spec -> code replay of J2O_Conv: lax.conv_general_dilated along one spatial axis (window stride, input dilation,
kernel dilation, explicit padding) in exact integer arithmetic; specification = JAX eager = exported model in ORT.
Unsupported combinations (window stride and input dilation together) must raise or be right."""

from __future__ import annotations

from typing import Any

import numpy as np


def run_cases(cases: list[dict[str, Any]]) -> dict[str, Any]:
    import jax
    import jax.numpy as jnp
    from jax import lax

    import jax2onnx
    from harness import onnxutil as U

    out: dict[str, Any] = {"n": 0, "spec_vs_jax": [], "problems": [], "export_failed": []}
    for rec in cases:
        c = rec["c"]
        want = np.array(rec["want"], np.float64)
        for layout in ("NCHW", "NHWC"):
            x1 = np.array(rec["x"], np.float32)
            w1 = np.array(c["w"], np.float32)
            if layout == "NCHW":
                x = x1.reshape(1, 1, -1, 1)
                w = w1.reshape(1, 1, -1, 1)
                dn = ("NCHW", "OIHW", "NCHW")
            else:
                x = x1.reshape(1, -1, 1, 1)
                w = w1.reshape(-1, 1, 1, 1)
                dn = ("NHWC", "HWIO", "NHWC")

            def fn(a, _w=w, _dn=dn):
                return lax.conv_general_dilated(a, jnp.asarray(_w), (c["stride"], 1), ((c["plo"], c["phi"]), (0, 0)), lhs_dilation=(c["ldil"], 1), rhs_dilation=(c["rdil"], 1), dimension_numbers=_dn)

            out["n"] += 1
            tag = {"case": c, "layout": layout}
            try:
                ref = np.asarray(fn(jnp.asarray(x)))
            except Exception as ex:  # noqa: BLE001
                out["spec_vs_jax"].append({**tag, "why": f"JAX eager fails: {type(ex).__name__}: {str(ex)[:120]}"})
                continue
            if ref.size != want.size or not np.array_equal(ref.reshape(-1).astype(np.float64), want):
                out["spec_vs_jax"].append({**tag, "why": f"spec {want.tolist()} vs JAX {ref.reshape(-1).tolist()}"})
                continue
            try:
                m = jax2onnx.to_onnx(fn, [jax.ShapeDtypeStruct(x.shape, x.dtype)])
            except Exception as ex:  # noqa: BLE001
                out["export_failed"].append({**tag, "supported": bool(rec["supported"]), "error": f"{type(ex).__name__}: {str(ex)[:160]}"})
                continue
            try:
                _, got = U.run_model(m, {m.graph.input[0].name: x})
                g = np.asarray(got[0])
            except Exception as ex:  # noqa: BLE001
                out["problems"].append({**tag, "what": "invalid_model", "detail": str(ex)[:200]})
                continue
            if g.shape != ref.shape:
                out["problems"].append({**tag, "what": "shape", "detail": f"model returns shape {list(g.shape)}, J2O_Conv and JAX say {list(ref.shape)}"})
            elif not np.allclose(g.reshape(-1).astype(np.float64), want, rtol=1e-6, atol=1e-5):
                out["problems"].append({**tag, "what": "values", "detail": f"model returns {g.reshape(-1).tolist()}, J2O_Conv and JAX say {want.tolist()}"})
    return out
