"""spec -> code replay of J2O_Contract: lowerings that keep / break the output contract of one equation.

A real primitive with one or two results is registered with a lowering that behaves exactly as the TLC-emitted
case says (binds a node output it added, binds the output of a node it never added, binds an orphan value, binds
nothing; returns values or not).  The real to_onnx must raise exactly when the specification says so, in every
scope that lowers equations (top level, loop body, function body, branch); a returned model must be valid and equal.
"""

from __future__ import annotations

from typing import Any

import numpy as np

_STATE: dict[str, Any] = {"case": None}


def _prims():
    import jax.numpy as jnp
    from jax.extend import core as jex_core

    if "p1" in _STATE:
        return _STATE["p1"], _STATE["p2"]
    p1 = jex_core.Primitive("verif_contract_one")
    p1.def_impl(lambda x: x + 1.0)
    p1.def_abstract_eval(lambda x: x)
    p2 = jex_core.Primitive("verif_contract_two")
    p2.multiple_results = True
    p2.def_impl(lambda x: [x + 1.0, x * 2.0])
    p2.def_abstract_eval(lambda x: [x, x])
    _STATE["p1"], _STATE["p2"] = p1, p2
    return p1, p2


class _Plugin:
    """lower(ctx, eqn) driven by _STATE['case']"""

    def lower(self, ctx: Any, eqn: Any):
        import onnx_ir as ir

        from jax2onnx.converter.output_binding import is_drop_var

        c = _STATE["case"]
        x = ctx.get_value_for_var(eqn.invars[0])
        dt = np.float32 if x.type.dtype == ir.DataType.FLOAT else np.float64

        def make(j: int, kind: str):
            """a value of the given kind computing result j (1: x + 1, 2: x * 2)"""
            k = ctx.bind_const_for_var(object(), np.asarray(1.0 if j == 1 else 2.0, dtype=dt))
            out = ir.Value(name=ctx.fresh_name(f"contract_out{j}"), type=x.type, shape=x.shape)
            if kind == "orphan":
                return out
            node = ir.Node("", "Add" if j == 1 else "Mul", [x, k], outputs=[out], name=ctx.fresh_name("contract_node"))
            if kind == "connected":
                ctx.add_node(node)
            return out

        live = [j for j, v in enumerate(eqn.outvars, start=1) if not is_drop_var(v)]
        _STATE["seen_drop"] = sorted(set(range(1, len(eqn.outvars) + 1)) - set(live))
        for j in live:
            kind = c["bind"][j - 1]
            if kind != "none":
                ctx.bind_value_for_var(eqn.outvars[j - 1], make(j, kind))
        ret = c["ret"]
        if ret == "none":
            return None
        if ret == "not_values":
            return 7
        if ret in ("all_connected", "all_dangling"):
            return [make(j, "connected" if ret == "all_connected" else "dangling") for j in live]
        if ret == "too_many":
            return [make(j, "connected") for j in live] + [make(1, "connected")]
        if ret == "unbound_connected":
            return [make(j, "connected") for j in live if c["bind"][j - 1] != "connected"]
        raise AssertionError(ret)


def _callable(c: dict[str, Any], scope: str, ref: bool = False):
    import jax.numpy as jnp
    from jax import lax

    from harness import userfns

    p1, p2 = _prims()
    drop = set(c["drop"])

    def core(x):
        if c["n"] == 1:
            return (x + 1.0 if ref else p1.bind(x)) * 3.0
        a, b = (x + 1.0, x * 2.0) if ref else p2.bind(x)
        if 1 in drop:
            return b * 3.0
        if 2 in drop:
            return a * 3.0
        return a * 3.0 + b

    if scope == "top":
        return core
    if scope == "loop_body":
        return lambda x: lax.fori_loop(0, 2, lambda i, s: core(s), x)
    if scope == "cond_branch":
        return lambda x: lax.cond(x[0] > -100.0, core, lambda v: v * 0.0, x)
    if scope == "function_body":
        if ref:
            return lambda x: core(x) + 0.0
        userfns.SITE_CALL["any"] = core
        return lambda x: userfns.outer_body_any(x) + 0.0
    raise AssertionError(scope)


def run_cases(cases: list[dict[str, Any]], table_cases: list[dict[str, Any]] | None = None) -> dict[str, Any]:
    import jax
    import jax.numpy as jnp

    import jax2onnx
    from jax2onnx.plugins.plugin_system import PLUGIN_REGISTRY, import_all_plugins

    from harness import onnxutil as U
    from harness import userfns

    import_all_plugins()
    _prims()
    PLUGIN_REGISTRY["verif_contract_one"] = _Plugin()
    PLUGIN_REGISTRY["verif_contract_two"] = _Plugin()
    out = []
    x0 = np.array([0.5, -1.25, 2.0], np.float32)

    def live_key(c, drop):
        # what the specification's verdict depends on: the bindings of the live results and the return kind
        return (c["n"], tuple(drop), tuple(b for j, b in enumerate(c["bind"][: c["n"]], start=1) if j not in drop), c["ret"])

    table = {live_key(rec["c"], sorted(rec["c"]["drop"])): rec["result"] for rec in (table_cases or cases)}
    try:
        for rec in cases:
            c = rec["c"]
            for scope in ("top", "loop_body", "cond_branch", "function_body"):
                r: dict[str, Any] = {"c": c, "scope": scope, "predicted": rec["result"]}
                fn = _callable(c, scope)
                _STATE["case"] = c
                try:
                    _STATE["seen_drop"] = None
                    m = jax2onnx.to_onnx(fn, [(3,)])
                    r["observed"] = "accepted"
                except Exception as ex:  # noqa: BLE001
                    r["observed"] = "raised"
                    r["error"] = f"{type(ex).__name__}: {str(ex)[:160]}"
                    r["seen_drop"] = _STATE.get("seen_drop")
                    if r["seen_drop"] is not None:
                        r["predicted"] = table.get(live_key(c, r["seen_drop"]), r["predicted"])
                    out.append(r)
                    continue
                finally:
                    _STATE["case"] = None
                r["seen_drop"] = _STATE.get("seen_drop")
                if r["seen_drop"] is not None:
                    r["predicted"] = table.get(live_key(c, r["seen_drop"]), r["predicted"])
                probs = []
                try:
                    import onnx

                    onnx.checker.check_model(m, full_check=True)
                    ref = np.asarray(_callable(c, scope, ref=True)(jnp.asarray(x0)))
                    _, got = U.run_model(m, {m.graph.input[0].name: x0})
                    if got[0].shape != ref.shape or not np.allclose(got[0], ref, rtol=1e-6, atol=1e-6):
                        probs.append(f"model computes {got[0].tolist()} instead of {ref.tolist()}")
                except Exception as ex:  # noqa: BLE001
                    probs.append(f"returned model is not valid/runnable: {type(ex).__name__}: {str(ex)[:200]}")
                r["problems"] = probs
                out.append(r)
    finally:
        PLUGIN_REGISTRY.pop("verif_contract_one", None)
        PLUGIN_REGISTRY.pop("verif_contract_two", None)
    return {"results": out}
