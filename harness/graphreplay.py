"""Spec -> code replay for J2O_GraphRewrite: every initial graph TLC enumerates is built as a real
ONNX model (with the per-value metadata real exports carry), run through the REAL optimizer passes
one by one, and executed in ORT before and after every pass that changed it."""

from __future__ import annotations

from typing import Any

import numpy as np

DT = {"FLOAT": (1, np.float32), "DOUBLE": (11, np.float64), "FLOAT16": (10, np.float16), "INT32": (6, np.int32), "INT64": (7, np.int64)}


def _is_int(tok: Any) -> bool:
    try:
        int(tok)
        return True
    except (TypeError, ValueError):
        return False


def build_model(g: dict[str, Any], opset: int = 21):
    """Return (ModelProto, feeds)."""
    import onnx
    from onnx import TensorProto as TP
    from onnx import helper as oh

    from harness import onnxutil as U

    nodes = []
    inits = []
    vinfo = []
    shapes: dict[str, tuple] = {}
    metas: dict[str, list] = {}
    dts: dict[str, str] = {}
    inputs = []
    feeds = {}
    rng = np.random.RandomState(7)
    kind = g["kind"]
    for k, spec in sorted(g["ins"].items(), key=lambda kv: int(kv[0])):
        name = f"in_{k}"
        sh = tuple(spec["sh"])
        meta: list[Any] = list(sh)
        if kind in ("rpair", "idreshape"):
            meta = [int(t) if _is_int(t) else t for t in g["nodes"][0]["srcmeta"]]
        inputs.append(U.vi(name, DT[spec["dt"]][0], meta))
        shapes[name], metas[name], dts[name] = sh, meta, spec["dt"]
        n = int(np.prod(sh)) if sh else 1
        base = (np.arange(n) * 3 % 11 - 5 + int(k)).reshape(sh)
        if spec["dt"] in ("FLOAT", "DOUBLE", "FLOAT16"):
            arr = (base / 2.0).astype(DT[spec["dt"]][1])
        else:
            arr = (base * 1000003).astype(DT[spec["dt"]][1])
        feeds[name] = arr
    used_consts = {r[1] for nd in g["nodes"] for r in nd["ins"] if r[0] == "k"}
    for cname, spec in (g.get("consts") or {}).items():
        if cname not in used_consts:
            continue
        sh = tuple(spec["sh"])
        n = int(np.prod(sh)) if sh else 1
        arr = ((np.arange(n) * 5 % 7 - 3) / 2.0 + 0.25).reshape(sh).astype(DT[spec["dt"]][1])
        inits.append(U.const(f"c_{cname}", arr))
        shapes[f"c_{cname}"], metas[f"c_{cname}"], dts[f"c_{cname}"] = sh, list(sh), spec["dt"]

    def ref(r):
        if r[0] == "in":
            return f"in_{r[1]}"
        if r[0] == "k":
            return f"c_{r[1]}"
        return f"v{r[1]}"

    def bshape(a, b):
        n = max(len(a), len(b))
        pa = (1,) * (n - len(a)) + tuple(a)
        pb = (1,) * (n - len(b)) + tuple(b)
        return tuple(max(x, y) for x, y in zip(pa, pb))

    for idx, nd in enumerate(g["nodes"], start=1):
        out = f"v{idx}"
        ins = [ref(r) for r in nd["ins"]]
        op = nd["op"]
        name = f"n{idx}"
        if op == "Transpose":
            nodes.append(oh.make_node("Transpose", ins, [out], perm=nd["perm"], name=name))
            shapes[out] = tuple(shapes[ins[0]][p] for p in nd["perm"])
            metas[out] = [metas[ins[0]][p] for p in nd["perm"]]
            dts[out] = dts[ins[0]]
        elif op == "Reshape":
            meta = [int(t) if _is_int(t) else t for t in nd["meta"]]
            if nd["static"]:
                inits.append(U.const(f"shape_{idx}", np.array(nd["shape"], np.int64)))
                nodes.append(oh.make_node("Reshape", [ins[0], f"shape_{idx}"], [out], name=name))
            else:
                parts = []
                for j, t in enumerate(meta):
                    pn = f"dim_{idx}_{j}"
                    if isinstance(t, int):
                        inits.append(U.const(pn, np.array([t], np.int64)))
                    elif t in ("B", "N"):
                        ax = 0 if t == "B" else 1
                        if "shape_in0" not in shapes:
                            nodes.append(oh.make_node("Shape", ["in_0"], ["shape_in0"], name="shape_in0_node"))
                            shapes["shape_in0"] = (2,)
                            vinfo.append(U.vi("shape_in0", TP.INT64, [2]))
                        inits.append(U.const(f"idx_{idx}_{j}", np.array([ax], np.int64)))
                        nodes.append(oh.make_node("Gather", ["shape_in0", f"idx_{idx}_{j}"], [pn], axis=0, name=f"g_{idx}_{j}"))
                        vinfo.append(U.vi(pn, TP.INT64, [1]))
                    else:
                        inits.append(U.const(pn, np.array([-1], np.int64)))
                    parts.append(pn)
                nodes.append(oh.make_node("Concat", parts, [f"shape_{idx}"], axis=0, name=f"cat_{idx}"))
                vinfo.append(U.vi(f"shape_{idx}", TP.INT64, [len(parts)]))
                nodes.append(oh.make_node("Reshape", [ins[0], f"shape_{idx}"], [out], name=name))
            shapes[out] = tuple(nd["shape"])
            metas[out] = meta
            dts[out] = dts[ins[0]]
        elif op == "ReduceMean":
            axes = sorted(nd["axes"])
            inits.append(U.const(f"axes_{idx}", np.array(axes, np.int64)))
            nodes.append(oh.make_node("ReduceMean", [ins[0], f"axes_{idx}"], [out], keepdims=1, name=name))
            shapes[out] = tuple(1 if i in axes else d for i, d in enumerate(shapes[ins[0]]))
            metas[out] = [1 if i in axes else d for i, d in enumerate(metas[ins[0]])]
            dts[out] = dts[ins[0]]
        elif op == "Capture":
            # an If node (nested `depth` levels) whose innermost branches READ the outer value without it being an input
            src = ins[0]
            code = DT[dts[src]][0]

            def branch(depth, tag):
                if depth == 1:
                    inner = oh.make_node("Identity" if tag == "t" else "Neg", [src], [f"{out}_{tag}{depth}"], name=f"{name}_{tag}{depth}")
                    return oh.make_graph([inner], f"{name}_{tag}{depth}_g", [], [U.vi(f"{out}_{tag}{depth}", code, list(metas[src]))])
                sub = oh.make_node("If", [f"{out}_cond"], [f"{out}_{tag}{depth}"], name=f"{name}_{tag}{depth}_if", then_branch=branch(depth - 1, tag + "t"), else_branch=branch(depth - 1, tag + "e"))
                return oh.make_graph([sub], f"{name}_{tag}{depth}_g", [], [U.vi(f"{out}_{tag}{depth}", code, list(metas[src]))])

            inits.append(U.const(f"{out}_cond", np.array(True)))
            nodes.append(oh.make_node("If", [f"{out}_cond"], [out], name=name, then_branch=branch(int(nd["depth"]), "t"), else_branch=branch(int(nd["depth"]), "e")))
            shapes[out], metas[out], dts[out] = shapes[src], metas[src], dts[src]
        elif op == "Cast":
            nodes.append(oh.make_node("Cast", ins, [out], to=DT[nd["to"]][0], name=name))
            shapes[out], metas[out], dts[out] = shapes[ins[0]], metas[ins[0]], nd["to"]
        elif len(ins) == 1:
            nodes.append(oh.make_node(op, ins, [out], name=name))
            shapes[out], metas[out], dts[out] = shapes[ins[0]], metas[ins[0]], dts[ins[0]]
        else:
            # binary: operands must have one dtype in ONNX; cast the side constant like exports do
            a, b = ins
            if dts[a] != dts[b]:
                cb = f"{b}_as_{dts[a]}_{idx}"
                nodes.append(oh.make_node("Cast", [b], [cb], to=DT[dts[a]][0], name=f"cast_side_{idx}"))
                vinfo.append(U.vi(cb, DT[dts[a]][0], list(metas[b])))
                b = cb
            nodes.append(oh.make_node(op, [a, b], [out], name=name))
            shapes[out] = bshape(shapes[ins[0]], shapes[ins[1]])
            metas[out] = list(shapes[out]) if len(metas[ins[0]]) != len(shapes[out]) else list(metas[ins[0]])
            dts[out] = dts[a]
    out_names = [ref(r) for r in g["outs"]]
    outputs = [U.vi(n, DT[dts[n]][0], list(metas[n])) for n in out_names]
    for idx in range(1, len(g["nodes"]) + 1):
        n = f"v{idx}"
        if n not in out_names:
            vinfo.append(U.vi(n, DT[dts[n]][0], list(metas[n])))
    m = U.model(nodes, inputs, outputs, inits, opset=opset, value_info=vinfo)
    return m, feeds


def classify(g: dict[str, Any]) -> dict[str, Any]:
    """Canonical, input-specific signature fields of a pattern (used to match known findings)."""
    par = g.get("par", {})
    sig: dict[str, Any] = {"kind": g["kind"]}
    if g["kind"] == "tchain":
        ch = par.get("ch", [])
        sig["chain"] = [f"{c['op']}:{c['side']}" for c in ch]
        sig["nonscalar_side"] = any(c["side"] in ("vec", "full") for c in ch)
        sig["inverse"] = bool(par.get("inv"))
        sig["observed_intermediate"] = bool(par.get("to")) or bool(par.get("te"))
        if par.get("te", 0) >= 3:
            sig["captured_depth"] = par["te"] - 2
    elif g["kind"] in ("treduce", "addforest"):
        sig["inverse"] = bool(par.get("inv"))
        sig["observed_intermediate"] = bool(par.get("to")) or bool(par.get("te", 0))
        if "second" in par:
            sig["second"] = par["second"]
    elif g["kind"] in ("rpair", "idreshape"):
        sig.update({k: par[k] for k in par})
    elif g["kind"] == "rchain":
        sig.update({"k": par["k"], "follow": bool(par["follow"]), "observed_intermediate": par["to"] == 1})
        if par["to"] >= 2:
            sig["captured_depth"] = par["to"] - 1
    elif g["kind"] == "castpair":
        sig.update({"src": par["src"], "mid": par["mid"], "observed_intermediate": bool(par["to"]) or bool(par["te"])})
    elif g["kind"] == "mulsig":
        sig.update(par)
    return sig


def replay_graphs(graphs: list[dict[str, Any]], per_pass: bool = True) -> list[dict[str, Any]]:
    import onnx
    import onnx_ir as ir
    from jax2onnx.converter import ir_optimizations as io

    from harness import onnxutil as U

    out = []
    for gi, g in enumerate(graphs):
        rec: dict[str, Any] = {"i": gi, "sig": classify(g), "status": "ok", "changed_passes": []}
        try:
            m0, feeds = build_model(g)
            onnx.checker.check_model(m0, full_check=True)
            ref = U.ort_run(m0, feeds)
        except Exception as ex:  # noqa: BLE001  (harness could not build a valid model: not a verdict)
            rec["status"] = "unbuildable"
            rec["why"] = f"{type(ex).__name__}: {str(ex)[:200]}"
            out.append(rec)
            continue
        im = ir.from_proto(m0)
        prev = m0.SerializeToString()
        n0 = len(m0.graph.node)
        bad = None
        for p in io._OPTIMIZER_PASSES:
            try:
                io._run_top_level_optimizer_pass(p, im)
            except Exception as ex:  # noqa: BLE001
                rec["pass_raised"] = {"pass": p.name, "error": f"{type(ex).__name__}: {str(ex)[:160]}"}
                break
            cur_m = ir.to_proto(im)
            cur = cur_m.SerializeToString()
            if cur == prev:
                continue
            prev = cur
            rec["changed_passes"].append(p.name)
            if not per_pass:
                continue
            v = _compare(cur_m, feeds, ref, U)
            if v is not None:
                bad = {"pass": p.name, **v}
                break
        if bad is None and not per_pass:
            v = _compare(ir.to_proto(im), feeds, ref, U)
            if v is not None:
                bad = {"pass": "optimize_graph", **v}
        rec["nodes_before"] = n0
        rec["nodes_after"] = len(ir.to_proto(im).graph.node)
        if bad is not None:
            rec["status"] = "violation"
            rec["bad"] = bad
        out.append(rec)
    return out


def _compare(m, feeds, ref, U) -> dict[str, Any] | None:
    live = {i.name for i in m.graph.input}
    f2 = {k: v for k, v in feeds.items() if k in live}
    try:
        got = U.ort_run(m, f2)
    except Exception as ex:  # noqa: BLE001
        return {"how": "invalid_model", "detail": str(ex)[:240]}
    if len(got) != len(ref):
        return {"how": "output_count", "detail": f"{len(ref)} -> {len(got)}"}
    for j, (a, b) in enumerate(zip(ref, got)):
        if a.shape != b.shape:
            return {"how": "shape", "output": j, "detail": f"{a.shape} -> {b.shape}"}
        if a.dtype != b.dtype:
            return {"how": "dtype", "output": j, "detail": f"{a.dtype} -> {b.dtype}"}
        if not U.same_array(a, b):
            return {"how": "value", "output": j, "detail": f"{a.ravel()[:6].tolist()} -> {b.ravel()[:6].tolist()}"}
    return None
