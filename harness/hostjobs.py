"""Code -> spec observation of real conversions for J2O_Host (C13 / C09 flag / C18 flag).

A *history* is a list of request kinds; each request is a real ``jax2onnx.to_onnx`` (or ``allclose``)
call, optionally with a fault injected at the k-th patch application.  Around every call the
harness takes a namespace snapshot of the JAX / Flax / Equinox modules and classes, the x64 flag,
the ref-count table, the ContextVars and behavioural probes, and emits Begin / End trace events.
"""

from __future__ import annotations

import os
import sys
import tempfile
import types
from typing import Any, Callable

PREFIXES = ("jax", "flax", "equinox", "optax", "einops", "dm_pix", "jaxlib")


class Injected(Exception):
    pass


def _interesting(v: Any) -> bool:
    return callable(v) or isinstance(v, (type, types.ModuleType, staticmethod, classmethod, property))


def namespace_snapshot() -> dict[tuple[str, str], int]:
    snap: dict[tuple[str, str], int] = {}
    for name, mod in list(sys.modules.items()):
        if mod is None or not name.startswith(PREFIXES):
            continue
        if name.startswith("jax2onnx"):
            continue
        try:
            d = vars(mod)
        except TypeError:
            continue
        for k, v in list(d.items()):
            if k.startswith("__") and k.endswith("__"):
                continue
            if _interesting(v):
                snap[(name, k)] = id(v)
            if isinstance(v, type) and getattr(v, "__module__", "").startswith(PREFIXES):
                try:
                    cd = vars(v)
                except TypeError:
                    continue
                for ck, cv in list(cd.items()):
                    if ck in ("__dict__", "__weakref__", "__doc__", "__module__", "__abstractmethods__", "_abc_impl", "__parameters__", "__orig_bases__"):
                        continue
                    if _interesting(cv):
                        snap[(f"{v.__module__}.{v.__qualname__}", ck)] = id(cv)
    return snap


def snapshot_diff(a: dict, b: dict, allow_new_modules: bool = True) -> list[str]:
    out = []
    for k, v in a.items():
        if k not in b:
            out.append(f"removed {k[0]}.{k[1]}")
        elif b[k] != v:
            out.append(f"changed {k[0]}.{k[1]}")
    for k in b:
        if k not in a:
            # attributes that appear because a module / class was imported lazily are not patches;
            # an attribute added to a container that already existed before the call is
            owner_known = any(kk[0] == k[0] for kk in a) if False else (k[0] in _owners(a))
            if owner_known:
                out.append(f"added {k[0]}.{k[1]}")
    return out


_owner_cache: dict[int, set[str]] = {}


def _owners(a: dict) -> set[str]:
    key = id(a)
    if key not in _owner_cache:
        _owner_cache.clear()
        _owner_cache[key] = {k[0] for k in a}
    return _owner_cache[key]


# ----------------------------------------------------------------------------------------------
# request kinds
# ----------------------------------------------------------------------------------------------


def _requests() -> dict[str, Callable[[], dict[str, Any]]]:
    import jax
    import jax.numpy as jnp
    import numpy as np
    from jax.extend import core as jex_core

    from harness import userfns
    unsupported_p = userfns.unsupported_p

    def f_ok(x):
        return jnp.tanh(x) * 2.0 + jnp.sum(x, axis=-1, keepdims=True)

    def f_user_raise(x):
        raise ValueError("user function failure")

    def f_user_interrupt(x):
        raise KeyboardInterrupt("the user interrupts the conversion")      # BaseException, not Exception

    def f_user_exit(x):
        raise SystemExit(3)

    def f_unsupported(x):
        return unsupported_p.bind(jnp.sin(x))

    def f_fn_ok(x):
        return userfns.inner_ok(x) * userfns.inner_ok(x + 1.0)

    def f_fn_body_fail(x):
        return userfns.inner_unsupported(jnp.exp(x))

    userfns.CALLS["n"] = 0

    def f_fn_bodytrace_fail(x):
        return userfns.inner_second_trace_raises(x) + 1.0

    def f_loop(x):
        def body(i, c):
            return c + jnp.sin(c)

        return jax.lax.fori_loop(0, 3, body, x)

    def f_loop_fail(x):
        def body(i, c):
            return unsupported_p.bind(c)

        return jax.lax.fori_loop(0, 3, body, x)

    spec = [(2, 3)]

    def mk(fn, **kw):
        def build():
            d = dict(fn=fn, inputs=spec)
            d.update(kw)
            return d

        return build

    reqs: dict[str, Callable[[], dict[str, Any]]] = {
        "ok": mk(f_ok),
        "ok_double": mk(f_ok, enable_double_precision=True),
        "user_raise": mk(f_user_raise),
        "user_raise_double": mk(f_user_raise, enable_double_precision=True),
        "unsupported": mk(f_unsupported),
        "user_interrupt": mk(f_user_interrupt),
        "user_interrupt_double": mk(f_user_interrupt, enable_double_precision=True),
        "user_exit": mk(f_user_exit),
        "user_exit_double": mk(f_user_exit, enable_double_precision=True),
        "fn_ok": mk(f_fn_ok),
        "fn_ok_double": mk(f_fn_ok, enable_double_precision=True),
        "fn_body_fail": mk(f_fn_body_fail),
        "fn_bodytrace_fail": mk(f_fn_bodytrace_fail),
        "loop_ok": mk(f_loop),
        "loop_fail": mk(f_loop_fail, enable_double_precision=True),
        "bad_nchw": mk(f_ok, inputs_as_nchw=[0]),
        "bad_names": mk(f_ok, input_names=["a", "b"]),
        "save_fail": mk(f_ok, return_mode="file", output_path="/dev/null/not_a_dir/m.onnx"),
        "save_fail_double": mk(f_ok, return_mode="file", output_path="/dev/null/not_a_dir/m.onnx", enable_double_precision=True),
        "ir_mode": mk(f_ok, return_mode="ir"),
    }

    # one @onnx_function target, two requests: its body raises while it is traced for the function
    # definition (fail), or does not (ok).  The flag is set when the request is built.
    def mk_flaky(fail: bool):
        def build():
            userfns.CALLS["fail_even"] = fail
            return dict(fn=f_fn_bodytrace_fail, inputs=spec)

        return build

    reqs["fn_nested_multi"] = mk(lambda x: userfns.fn_encoder(x) * 1.0)
    reqs["fn_flaky_fail"] = mk_flaky(True)
    reqs["fn_flaky_ok"] = mk_flaky(False)

    # a user-owned jit function that was never called before the export (trace cache is cold)
    def mk_jit_user():
        @jax.jit
        def user_jitted(x):
            return jnp.tanh(x) * 2.0

        def probe():
            x = np.arange(6, dtype=np.float32).reshape(2, 3) / 4.0
            got = np.asarray(user_jitted(jnp.asarray(x)))
            return bool(np.allclose(got, np.tanh(x) * 2.0, rtol=1e-5, atol=1e-6))

        return dict(fn=lambda x: user_jitted(x) + 1.0, inputs=spec, _probe=probe)

    reqs["jit_user"] = mk_jit_user

    # framework modules: user objects must not be mutated
    try:
        from flax import nnx

        lin = nnx.Linear(3, 4, rngs=nnx.Rngs(0))
        reqs["nnx_linear"] = mk(lin)

        class Block(nnx.Module):
            def __init__(self):
                self.l1 = nnx.Linear(3, 3, rngs=nnx.Rngs(1))
                self.drop = nnx.Dropout(0.5, rngs=nnx.Rngs(2))

            def __call__(self, x):
                return self.drop(jax.nn.gelu(self.l1(x)), deterministic=True)

        reqs["nnx_block"] = mk(Block())
    except Exception:  # noqa: BLE001
        pass
    try:
        import equinox as eqx

        m = eqx.nn.Linear(3, 4, key=jax.random.PRNGKey(0))
        reqs["eqx_linear"] = mk(jax.vmap(m))
    except Exception:  # noqa: BLE001
        pass
    return reqs


def _pytree_digest(obj: Any) -> str:
    import hashlib

    import jax
    import numpy as np

    try:
        leaves, treedef = jax.tree_util.tree_flatten(obj)
    except Exception:  # noqa: BLE001
        return "n/a"
    h = hashlib.sha256(str(treedef).encode())
    for l in leaves:
        try:
            a = np.asarray(l)
            h.update(str(a.dtype).encode() + str(a.shape).encode() + a.tobytes())
        except Exception:  # noqa: BLE001
            h.update(repr(type(l)).encode())
    return h.hexdigest()[:16]


def _probes() -> dict[str, Any]:
    """Behavioural probes: eager / jitted library calls must behave the same before and after."""
    import jax
    import jax.numpy as jnp
    import numpy as np

    x = jnp.asarray(np.arange(6, dtype=np.float32).reshape(2, 3) / 4.0)
    out = {}
    try:
        out["tanh"] = np.asarray(jnp.tanh(x)).tobytes().hex()[:32]
        out["jit_fresh"] = np.asarray(jax.jit(lambda y: jnp.sin(y) @ y.T)(x)).tobytes().hex()[:32]
        out["nn"] = np.asarray(jax.nn.softmax(x) + jax.nn.gelu(x)).tobytes().hex()[:32]
        out["dtype"] = str(jnp.asarray(1.0).dtype)
    except Exception as ex:  # noqa: BLE001
        out["error"] = f"{type(ex).__name__}: {ex}"[:200]
    return out


def _patch_index_space() -> dict[str, Any]:
    """Enumerate patch applications of the REAL registry in activation order."""
    import jax2onnx.plugins.plugin_system as ps
    from jax2onnx.plugins._patching import MonkeyPatchSpec

    ps.import_all_plugins()
    leaf = []
    seen_cls = []
    within_dup = 0
    keys: dict[tuple[str, str], int] = {}
    for name, plugin in ps.PLUGIN_REGISTRY.items():
        if isinstance(plugin, ps.PrimitiveLeafPlugin):
            cls = plugin.__class__
            try:
                specs = cls.binding_specs()
            except Exception:  # noqa: BLE001
                continue
            local = [(str(s.target) if isinstance(s.target, str) else getattr(s.target, "__name__", repr(s.target)), s.attr) for s in specs]
            within_dup += int(len(set(local)) != len(local))
            for j, s in enumerate(specs):
                tgt = s.target if isinstance(s.target, str) else getattr(s.target, "__name__", repr(s.target))
                keys[(str(tgt), s.attr)] = keys.get((str(tgt), s.attr), 0) + 1
                if isinstance(s, MonkeyPatchSpec):
                    leaf.append({"plugin": name, "spec": j, "target": str(tgt), "attr": s.attr})
            seen_cls.append(cls)
    fns = []
    for name, plugin in ps.PLUGIN_REGISTRY.items():
        pinfo = getattr(plugin, "patch_info", None)
        if callable(pinfo) and not isinstance(plugin, ps.PrimitiveLeafPlugin):
            try:
                info = pinfo()
            except Exception:  # noqa: BLE001
                continue
            if info and info.get("patch_targets"):
                fns.append({"plugin": name, "ntargets": len(info["patch_targets"])})
    dup = sorted(f"{k[0]}.{k[1]}" for k, c in keys.items() if c > 1)
    return {"leaf": leaf, "fn": fns, "duplicate_keys": dup, "plugins_with_internal_duplicate_key": within_dup, "classes_registered_twice": len(seen_cls) - len(set(seen_cls))}


class _Fault:
    """Context manager: make the k-th patch application of the real registry raise."""

    def __init__(self, fault: dict[str, Any] | None) -> None:
        self.fault = fault
        self.undo: list[Callable[[], None]] = []
        self.fired = 0

    def __enter__(self):
        f = self.fault
        if not f:
            return self
        import jax2onnx.plugins.plugin_system as ps
        from jax2onnx.plugins._patching import MonkeyPatchSpec

        plugin = ps.PLUGIN_REGISTRY[f["plugin"]]
        outer = self
        if f["kind"] == "leaf":
            cls = plugin.__class__
            had = "binding_specs" in cls.__dict__
            orig_attr = cls.__dict__.get("binding_specs")
            orig_bound = cls.binding_specs

            def binding_specs(c, _j=f["spec"]):
                specs = list(orig_bound())
                s = specs[_j]
                if isinstance(s, MonkeyPatchSpec):
                    inner = s.make_value

                    def boom(o):
                        outer.fired += 1
                        raise Injected(f"make_value of {f['plugin']}[{_j}]")

                    specs[_j] = MonkeyPatchSpec(target=s.target, attr=s.attr, make_value=boom, delete_if_missing=s.delete_if_missing)
                return specs

            cls.binding_specs = classmethod(binding_specs)

            def undo():
                if had:
                    cls.binding_specs = orig_attr
                else:
                    del cls.binding_specs

            self.undo.append(undo)
        else:
            orig_pinfo = plugin.patch_info

            def patch_info():
                info = dict(orig_pinfo())

                def boom(o):
                    outer.fired += 1
                    raise Injected(f"patch_fn of {f['plugin']}")

                info["patch_function"] = boom
                return info

            plugin.patch_info = patch_info

            def undo():
                try:
                    del plugin.patch_info
                except AttributeError:
                    plugin.patch_info = orig_pinfo

            self.undo.append(undo)
        return self

    def __exit__(self, *a):
        for u in reversed(self.undo):
            u()
        return False


def run_history(history: list[dict[str, Any]], tid: int) -> dict[str, Any]:
    """Run one history in this process; returns trace events and violations found."""
    import jax
    import numpy as np

    import jax2onnx
    import jax2onnx.plugins.plugin_system as ps

    reqs = _requests()
    # warm-up WITHOUT a conversion (the first conversion of a process is part of the property): import every
    # plugin module and run the library eagerly once so that lazily imported modules are loaded
    import jax.numpy as jnp

    try:
        ps.import_all_plugins()
        np.asarray(reqs["ok"]()["fn"](jnp.ones((2, 3), jnp.float32)))
        np.asarray(reqs["fn_ok"]()["fn"](jnp.ones((2, 3), jnp.float32)))
    except Exception:  # noqa: BLE001
        pass
    events = []
    seq = 0
    for step, h in enumerate(history):
        kind = h["kind"]
        if kind not in reqs:
            continue
        # the flag the *user* had before the call: histories may also toggle it
        if "x64_before" in h:
            jax.config.update("jax_enable_x64", bool(h["x64_before"]))
        kw = reqs[kind]()
        fn = kw.pop("fn")
        inputs = kw.pop("inputs")
        user_probe = kw.pop("_probe", None)
        digest_before = _pytree_digest(fn)
        probes_before = _probes()
        x64_before = bool(jax.config.jax_enable_x64)
        snap_before = namespace_snapshot()
        seq += 1
        events.append({"tid": tid, "seq": seq, "ev": "Begin", "kind": kind, "x64": x64_before, "leaked": 0, "pstate": len(ps._PATCH_STATE), "inbuild": len(ps._IN_FUNCTION_BUILD.get()), "raised": False, "probe_ok": True, "mutated": False})
        raised = None
        import contextlib

        # the caller may itself sit inside JAX's thread-local jax.enable_x64(...) context: the PROCESS-WIDE
        # setting (what the property names) is read before / after, outside of that context
        outer = contextlib.nullcontext() if h.get("x64_ctx") is None else jax.enable_x64(bool(h["x64_ctx"]))
        if h.get("x64_ctx") is not None:
            x64_before = bool(jax.config.read("jax_enable_x64")) if hasattr(jax.config, "read") else x64_before
        with _Fault(h.get("fault")) as flt:
            try:
                with outer:
                    jax2onnx.to_onnx(fn, inputs, **kw)
            except BaseException as ex:  # noqa: BLE001
                raised = f"{type(ex).__name__}: {str(ex)[:120]}"
        snap_after = namespace_snapshot()
        diff = snapshot_diff(snap_before, snap_after)
        x64_after = bool(jax.config.jax_enable_x64)
        probes_after = _probes()
        if user_probe is not None:
            try:
                probes_after["user_jit"] = bool(user_probe())
            except Exception as ex:  # noqa: BLE001
                probes_after["user_jit"] = f"{type(ex).__name__}: {str(ex)[:160]}"
            probes_before["user_jit"] = True
        digest_after = _pytree_digest(fn)
        seq += 1
        ev = {
            "tid": tid,
            "seq": seq,
            "ev": "End",
            "kind": kind,
            "x64": x64_after,
            "leaked": len(diff),
            "pstate": len(ps._PATCH_STATE),
            "inbuild": len(ps._IN_FUNCTION_BUILD.get()),
            "raised": raised is not None,
            "probe_ok": probes_before == probes_after,
            "mutated": digest_before != digest_after,
        }
        events.append(ev)
        ev_detail = {"step": step, "kind": kind, "fault": h.get("fault"), "fault_fired": flt.fired, "raised": raised, "diff": diff[:12], "probes_before": probes_before, "probes_after": probes_after, "x64_before": x64_before, "x64_after": x64_after, "x64_ctx": h.get("x64_ctx")}
        events[-1]["_detail"] = ev_detail
    return {"events": events}


def patch_index_space() -> dict[str, Any]:
    return _patch_index_space()
