"""Replay of J2O_BroadcastBatch: binary elementwise substitutes under vmap with batch dimensions at
arbitrary positions, unmapped operands and per-example ranks that differ.  Oracle = the specification
of vmap: per-example eager evaluation (no vmap involved), stacked along axis 0."""

from __future__ import annotations

from typing import Any

import numpy as np


def _ops():
    import jax.numpy as jnp

    return {
        "add": jnp.add, "maximum": jnp.maximum, "minimum": jnp.minimum, "less": jnp.less, "greater_equal": jnp.greater_equal, "equal": jnp.equal,
        "divide": lambda a, b: jnp.divide(a, b + 4.0), "atan2": jnp.arctan2, "fmod": lambda a, b: jnp.fmod(a, b + 4.0), "copysign": jnp.copysign,
        "pow": lambda a, b: jnp.power(jnp.abs(a) + 1.0, b * 0.25), "where": lambda a, b: jnp.where(a > b, a, b), "floor_divide": lambda a, b: jnp.floor_divide(a, b + 4.0),
        "clip": lambda a, b: jnp.clip(a, -0.5, b),
    }


def run_cases(cases: list[dict[str, Any]], ops: list[str] | None = None) -> dict[str, Any]:
    import jax
    import jax.numpy as jnp

    import jax2onnx
    from harness import onnxutil as U

    OPS = _ops()
    out: dict[str, Any] = {"n": 0, "mismatch": [], "export_failed": [], "jax_rejects": 0, "per_op": {}}
    B = 2
    for c in cases:
        xs, ys, bx, by = list(c["xs"]), list(c["ys"]), c["bx"], c["by"]

        def mk(sh, bd, seed):
            full = list(sh)
            if bd:
                full.insert(bd - 1, B)
            n = int(np.prod(full))
            return (((np.arange(n) * (7 + seed) + 3 * seed) % 17 - 8) / 4.0).reshape(full).astype(np.float32)

        X, Y = mk(xs, bx, 1), mk(ys, by, 2)
        in_axes = (bx - 1 if bx else None, by - 1 if by else None)
        for name in (ops or sorted(OPS)):
            f = OPS[name]
            try:
                per = [np.asarray(f(jnp.asarray(np.take(X, b, axis=bx - 1) if bx else X), jnp.asarray(np.take(Y, b, axis=by - 1) if by else Y))) for b in range(B)]
                expected = np.stack(per, axis=0)
                vf = jax.vmap(f, in_axes=in_axes)
                jref = np.asarray(vf(jnp.asarray(X), jnp.asarray(Y)))
            except Exception:  # noqa: BLE001
                out["jax_rejects"] += 1
                continue
            if jref.shape != expected.shape or not np.allclose(jref.astype(np.float64), expected.astype(np.float64), rtol=1e-5, atol=1e-6, equal_nan=True):
                raise RuntimeError(f"vmap specification disagrees with JAX for {name} {c}")
            d = out["per_op"].setdefault(name, {"ok": 0, "bad": 0, "loud": 0})
            try:
                m = jax2onnx.to_onnx(vf, [jax.ShapeDtypeStruct(X.shape, X.dtype), jax.ShapeDtypeStruct(Y.shape, Y.dtype)])
                got = U.ort_run(m, {i.name: a for i, a in zip(m.graph.input, (X, Y))})[0]
            except Exception as ex:  # noqa: BLE001
                msg = f"{type(ex).__name__}: {str(ex)[:180]}"
                if "ONNXRuntimeError" in msg or "INVALID" in msg:
                    out["n"] += 1
                    d["bad"] += 1
                    out["mismatch"].append({"op": name, "case": c, "what": "invalid_model", "detail": msg})
                else:
                    d["loud"] += 1
                    out["export_failed"].append({"op": name, "case": c, "error": msg})
                continue
            out["n"] += 1
            ok = got.shape == expected.shape and np.allclose(got.astype(np.float64), expected.astype(np.float64), rtol=2e-5, atol=2e-6, equal_nan=True)
            d["ok" if ok else "bad"] += 1
            if not ok:
                out["mismatch"].append({"op": name, "case": c, "what": "values", "detail": f"shape {got.shape} vs {expected.shape}" if got.shape != expected.shape else f"max abs err {float(np.max(np.abs(got.astype(np.float64) - expected.astype(np.float64)))):.3g}"})
    return out
