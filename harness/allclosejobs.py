"""Spec -> code replay for J2O_Allclose: every abstract deviation case TLC enumerated is
instantiated as a concrete (fn, stored model) pair -- the model is hand-built ONNX computing fn's
outputs plus the prescribed deviation -- and the REAL jax2onnx.allclose is asked for its verdict."""

from __future__ import annotations

import os
import tempfile
from typing import Any

import numpy as np

X = np.array([[-1.3, 0.2, 0.7], [1.1, -0.4, 2.6]], dtype=np.float32)
X4 = (np.arange(2 * 3 * 4 * 5, dtype=np.float32).reshape(2, 3, 4, 5) % 7 - 3) / 2.0


def _fn_for(outs):
    import jax.numpy as jnp

    def fn(x):
        res = []
        for o in outs:
            if o["refc"] == "float":
                res.append(x * 2.0 + 0.5)
            elif o["refc"] == "int":
                res.append(jnp.floor(x * 4.0).astype(jnp.int32))
            else:
                res.append(x > 0)
        return tuple(res) if len(res) != 1 else res[0]

    return fn


def build_model(case: dict[str, Any]):
    from onnx import TensorProto as TP
    from onnx import helper as oh

    from harness import onnxutil as U

    nodes, inits, outputs = [], [], []
    onehot_f = np.zeros((2, 3), np.float32)
    onehot_f[1, 2] = 1.0
    inits += [U.const("two", np.array(2.0, np.float32)), U.const("half", np.array(0.5, np.float32)), U.const("four", np.array(4.0, np.float32)),
              U.const("zero", np.array(0.0, np.float32)), U.const("onehot_f", onehot_f), U.const("onehot_i", onehot_f.astype(np.int64)),
              U.const("onehot_b", onehot_f.astype(bool)), U.const("nan", np.array(np.nan, np.float32)), U.const("two_i", np.array(2, np.int64)),
              U.const("ax0", np.array([0], np.int64)), U.const("flat", np.array([-1], np.int64)), U.const("eps", np.array(1e-7, np.float32)),
              U.const("d05", np.array(0.5, np.float32)), U.const("d09", np.array(0.9, np.float32))]
    TPOF = {"float": TP.FLOAT, "int": TP.INT64, "bool": TP.BOOL}
    for i, o in enumerate(case["outs"]):
        p = f"o{i}_"
        if o["refc"] == "float":
            nodes += [oh.make_node("Mul", ["x", "two"], [p + "m"]), oh.make_node("Add", [p + "m", "half"], [p + "ref"])]
        elif o["refc"] == "int":
            nodes += [oh.make_node("Mul", ["x", "four"], [p + "m"]), oh.make_node("Floor", [p + "m"], [p + "f"]), oh.make_node("Cast", [p + "f"], [p + "ref"], to=TP.INT32)]
        else:
            nodes += [oh.make_node("Greater", ["x", "zero"], [p + "ref"])]
        cur = p + "ref"
        mc = o["modc"]
        # convert to the model's element class
        nodes.append(oh.make_node("Cast", [cur], [p + "conv"], to=TPOF[mc]))
        cur = p + "conv"
        dev = o["dev"]
        lossy = (o["refc"], mc) in {("float", "int"), ("float", "bool"), ("int", "bool")}
        if dev == "within_tol":
            nodes.append(oh.make_node("Add", [cur, "eps"], [p + "d"]))
            cur = p + "d"
        elif dev == "beyond_tol" and not lossy:
            if mc == "float":
                nodes += [oh.make_node("Mul", ["onehot_f", "d05"], [p + "dd"]), oh.make_node("Add", [cur, p + "dd"], [p + "d"])]
            elif mc == "int":
                nodes.append(oh.make_node("Add", [cur, "onehot_i"], [p + "d"]))
            else:
                nodes.append(oh.make_node("Xor", [cur, "onehot_b"], [p + "d"]))
            cur = p + "d"
        elif dev == "fractional":
            nodes += [oh.make_node("Mul", ["onehot_f", "d09"], [p + "dd"]), oh.make_node("Add", [cur, p + "dd"], [p + "d"])]
            cur = p + "d"
        elif dev == "nan_vs_num":
            nodes.append(oh.make_node("Where", ["onehot_b", "nan", cur], [p + "d"]))
            cur = p + "d"
        elif dev == "nonzero_vs_true":
            nodes.append(oh.make_node("Mul", [cur, "two_i"], [p + "d"]))
            cur = p + "d"
        shp = [2, 3]
        if o["shape"] == "unit_axis":
            nodes.append(oh.make_node("Unsqueeze", [cur, "ax0"], [p + "s"]))
            cur, shp = p + "s", [1, 2, 3]
        elif o["shape"] == "dims_swapped":
            nodes.append(oh.make_node("Transpose", [cur], [p + "s"], perm=[1, 0]))
            cur, shp = p + "s", [3, 2]
        elif o["shape"] == "flattened":
            nodes.append(oh.make_node("Reshape", [cur, "flat"], [p + "s"]))
            cur, shp = p + "s", [6]
        nodes.append(oh.make_node("Identity", [cur], [f"y{i}"]))
        outputs.append(U.vi(f"y{i}", TPOF[mc], shp))
    if case["count"] == "fewer":
        outputs = outputs[:-1]
    elif case["count"] == "more":
        nodes.append(oh.make_node("Identity", [outputs[-1].name], ["y_extra"]))
        last = outputs[-1]
        outputs.append(U.vi("y_extra", last.type.tensor_type.elem_type, [d.dim_value for d in last.type.tensor_type.shape.dim]))
    return U.model(nodes, [U.vi("x", TP.FLOAT, [2, 3])], outputs, inits)


def replay(cases: list[dict[str, Any]]) -> list[dict[str, Any]]:
    import jax
    import onnx

    import jax2onnx

    out = []
    tmp = tempfile.mkdtemp(prefix="j2o_allclose_")
    try:
        for ci, case in enumerate(cases):
            rec: dict[str, Any] = {"i": ci, "status": "ok"}
            if case["count"] == "fewer" and len(case["outs"]) == 1:
                rec["status"] = "skipped_no_outputs"
                out.append(rec)
                continue
            try:
                m = build_model(case)
                onnx.checker.check_model(m, full_check=True)
                path = os.path.join(tmp, f"m{ci}.onnx")
                onnx.save_model(m, path)
            except Exception as ex:  # noqa: BLE001
                rec["status"] = "unbuildable"
                rec["why"] = f"{type(ex).__name__}: {str(ex)[:200]}"
                out.append(rec)
                continue
            double = (ci % 3 == 2)
            x64_before = bool(jax.config.jax_enable_x64)
            try:
                ok, msg = jax2onnx.allclose(_fn_for(case["outs"]), path, [X], rtol=1e-3, atol=1e-5, enable_double_precision=double)
                rec["verdict"] = bool(ok)
                rec["msg"] = str(msg)[:160]
            except Exception as ex:  # noqa: BLE001
                rec["verdict"] = None
                rec["msg"] = f"raised {type(ex).__name__}: {str(ex)[:160]}"
            rec["x64_restored"] = bool(jax.config.jax_enable_x64) == x64_before
            rec["double"] = double
            os.unlink(path)
            out.append(rec)
    finally:
        import shutil

        shutil.rmtree(tmp, ignore_errors=True)
    return out


def nchw_cases() -> list[dict[str, Any]]:
    """Layout flags: the stored model takes / returns NCHW; allclose must transpose consistently."""
    import jax
    import onnx
    from onnx import TensorProto as TP
    from onnx import helper as oh

    import jax2onnx
    from harness import onnxutil as U

    def fn(x):
        return x * 2.0

    res = []
    tmp = tempfile.mkdtemp(prefix="j2o_allclose_nchw_")
    try:
        for in_nchw in (False, True):
            for out_nchw in (False, True):
                for wrong in (False, True):
                    nodes = []
                    cur = "x"
                    in_shape = [2, 5, 3, 4] if in_nchw else [2, 3, 4, 5]
                    if in_nchw:
                        nodes.append(oh.make_node("Transpose", [cur], ["x_nhwc"], perm=[0, 2, 3, 1]))
                        cur = "x_nhwc"
                    nodes.append(oh.make_node("Mul", [cur, "two"], ["y_nhwc"]))
                    cur = "y_nhwc"
                    out_shape = [2, 3, 4, 5]
                    if out_nchw:
                        # a wrong model permutes H and W as well
                        nodes.append(oh.make_node("Transpose", [cur], ["y"], perm=[0, 3, 2, 1] if wrong else [0, 3, 1, 2]))
                        out_shape = [2, 5, 4, 3] if wrong else [2, 5, 3, 4]
                    else:
                        if wrong:
                            nodes.append(oh.make_node("Neg", [cur], ["y"]))
                        else:
                            nodes.append(oh.make_node("Identity", [cur], ["y"]))
                    m = U.model(nodes, [U.vi("x", TP.FLOAT, in_shape)], [U.vi("y", TP.FLOAT, out_shape)], [U.const("two", np.array(2.0, np.float32))])
                    path = os.path.join(tmp, "m.onnx")
                    onnx.save_model(m, path)
                    ok, msg = jax2onnx.allclose(fn, path, [X4], inputs_as_nchw=[0] if in_nchw else None, outputs_as_nchw=[0] if out_nchw else None)
                    res.append({"in_nchw": in_nchw, "out_nchw": out_nchw, "wrong_model": wrong, "verdict": bool(ok), "msg": str(msg)[:120]})
    finally:
        import shutil

        shutil.rmtree(tmp, ignore_errors=True)
    return res
