"""Monitors over real exports (C03 scopes/validity, C08 annotations, C09 precision, C11 opset):
each export is walked / executed and reduced to events and verdicts."""

from __future__ import annotations

import re
from typing import Any

import numpy as np


# ------------------------------------------------------------------------------------------------
# C03: scope / SSA walk of a ModelProto
# ------------------------------------------------------------------------------------------------


def scope_events(model) -> list[dict[str, Any]]:
    """Define/Use/Enter/Exit events in execution order (one list per model)."""
    import onnx

    ev: list[dict[str, Any]] = []

    def walk(graph, kind: str) -> None:
        ev.append({"ev": "Enter", "kind": kind, "name": graph.name or kind})
        for i in graph.input:
            ev.append({"ev": "Define", "kind": "input", "name": i.name})
        for i in graph.initializer:
            if i.name not in {x.name for x in graph.input}:
                ev.append({"ev": "Define", "kind": "initializer", "name": i.name})
        for n in graph.node:
            for x in n.input:
                if x:
                    ev.append({"ev": "Use", "kind": n.op_type, "name": x})
            for a in n.attribute:
                if a.type == onnx.AttributeProto.GRAPH:
                    walk(a.g, "body")
                elif a.type == onnx.AttributeProto.GRAPHS:
                    for g in a.graphs:
                        walk(g, "body")
            for o in n.output:
                if o:
                    ev.append({"ev": "Define", "kind": "node", "name": o})
        for o in graph.output:
            ev.append({"ev": "Use", "kind": "graph_output", "name": o.name})
        ev.append({"ev": "Exit", "kind": kind, "name": graph.name or kind})

    walk(model.graph, "main")
    for f in model.functions:
        ev.append({"ev": "Enter", "kind": "function", "name": f.name})
        for i in f.input:
            ev.append({"ev": "Define", "kind": "input", "name": i})
        for n in f.node:
            for x in n.input:
                if x:
                    ev.append({"ev": "Use", "kind": n.op_type, "name": x})
            for a in n.attribute:
                if a.type == onnx.AttributeProto.GRAPH:
                    walk(a.g, "body")
                elif a.type == onnx.AttributeProto.GRAPHS:
                    for g in a.graphs:
                        walk(g, "body")
            for o in n.output:
                if o:
                    ev.append({"ev": "Define", "kind": "node", "name": o})
        for o in f.output:
            ev.append({"ev": "Use", "kind": "graph_output", "name": o})
        ev.append({"ev": "Exit", "kind": "function", "name": f.name})
    return ev


def scope_mirror(events: list[dict[str, Any]]) -> str | None:
    """Python mirror of J2O_Scopes (first broken rule, or None)."""
    stack: list[set[str]] = []
    base = [0]  # index of the innermost function/main scope start in stack
    for e in events:
        if e["ev"] == "Enter":
            if e["kind"] in ("main", "function"):
                base.append(len(stack))
            stack.append(set())
        elif e["ev"] == "Exit":
            stack.pop()
            if e["kind"] in ("main", "function"):
                base.pop()
        elif e["ev"] == "Define":
            vis = stack[base[-1]:]
            if any(e["name"] in s for s in vis):
                return f"value '{e['name']}' defined twice / shadows an enclosing scope"
            stack[-1].add(e["name"])
        elif e["ev"] == "Use":
            vis = stack[base[-1]:]
            if not any(e["name"] in s for s in vis):
                return f"value '{e['name']}' used by {e['kind']} before definition / not visible"
    return None


def function_problems(model) -> list[str]:
    probs = []
    fdefs = {(f.domain, f.name): f for f in model.functions}
    imports = {o.domain: o.version for o in model.opset_import}
    if len(fdefs) != len(model.functions):
        probs.append("two function definitions share (domain, name)")

    def check_nodes(nodes, where, fimports):
        import onnx

        for n in nodes:
            key = (n.domain, n.op_type)
            if n.domain not in ("", "ai.onnx") and key not in fdefs and not n.domain.startswith(("com.microsoft", "ai.onnx.")):
                probs.append(f"{where}: node {n.op_type} in domain '{n.domain}' has no function definition")
            if key in fdefs:
                f = fdefs[key]
                if len(n.input) > len(f.input) or len(n.output) > len(f.output):
                    probs.append(f"{where}: call {n.op_type} has {len(n.input)}/{len(n.output)} inputs/outputs, definition {len(f.input)}/{len(f.output)}")
                if n.domain not in fimports:
                    probs.append(f"{where}: domain '{n.domain}' of call {n.op_type} is not imported")
            for a in n.attribute:
                if a.type == onnx.AttributeProto.GRAPH:
                    check_nodes(a.g.node, where + "/" + n.op_type, fimports)
                elif a.type == onnx.AttributeProto.GRAPHS:
                    for g in a.graphs:
                        check_nodes(g.node, where + "/" + n.op_type, fimports)

    check_nodes(model.graph.node, "main", imports)
    for f in model.functions:
        fi = {o.domain: o.version for o in f.opset_import} or imports
        check_nodes(f.node, f"function {f.name}", {**imports, **fi})
        if "" in fi and "" in imports and fi[""] != imports[""]:
            probs.append(f"function {f.name} imports opset {fi['']} but the model declares {imports['']}")
    return probs


def classify_ort_load(model) -> tuple[str, str]:
    from harness import onnxutil as U

    try:
        U.ort_session(model)
        return "ok", ""
    except Exception as ex:  # noqa: BLE001
        msg = str(ex)
        if "NOT_IMPLEMENTED" in msg or "Could not find an implementation" in msg:
            return "runtime_limit", msg[:160]
        if "opset" in msg.lower() and ("not supported" in msg.lower() or "only" in msg.lower() or "under development" in msg.lower()):
            return "runtime_limit", msg[:160]
        return "invalid", msg[:300]


def validity(model) -> dict[str, Any]:
    import onnx

    rec: dict[str, Any] = {"problems": []}
    try:
        onnx.checker.check_model(model, full_check=True)
    except Exception as ex:  # noqa: BLE001
        rec["problems"].append("checker: " + str(ex)[:240])
    try:
        onnx.shape_inference.infer_shapes(model, strict_mode=True, check_type=True)
    except Exception as ex:  # noqa: BLE001
        rec["problems"].append("strict shape inference: " + str(ex)[:240])
    st, why = classify_ort_load(model)
    rec["ort"] = st
    if st == "invalid":
        rec["problems"].append("ORT load: " + why)
    ev = scope_events(model)
    rec["scope_events"] = len(ev)
    m = scope_mirror(ev)
    if m:
        rec["problems"].append("scopes: " + m)
    rec["problems"] += ["functions: " + p for p in function_problems(model)]
    return rec, ev


# ------------------------------------------------------------------------------------------------
# C09: dtype census
# ------------------------------------------------------------------------------------------------

DOUBLE, FLOAT = 11, 1


def dtype_census(model) -> dict[str, Any]:
    """Where do DOUBLE / FLOAT element types occur (recursively)?"""
    import onnx

    found: dict[int, list[str]] = {DOUBLE: [], FLOAT: []}

    def note(dt: int, where: str) -> None:
        if dt in found and len(found[dt]) < 12:
            found[dt].append(where)

    def vi(v, where: str) -> None:
        if v.type.HasField("tensor_type"):
            note(v.type.tensor_type.elem_type, f"{where}:{v.name}")

    def graph(g, where: str) -> None:
        for i in g.input:
            vi(i, where + " input")
        for o in g.output:
            vi(o, where + " output")
        for v in g.value_info:
            vi(v, where + " value")
        for t in g.initializer:
            note(t.data_type, f"{where} initializer:{t.name}")
        nodes(g.node, where)

    def nodes(ns, where: str) -> None:
        for n in ns:
            for a in n.attribute:
                if a.type == onnx.AttributeProto.TENSOR:
                    note(a.t.data_type, f"{where} {n.op_type}.{a.name}")
                elif a.type == onnx.AttributeProto.GRAPH:
                    graph(a.g, where + "/" + n.op_type)
                elif a.type == onnx.AttributeProto.GRAPHS:
                    for g in a.graphs:
                        graph(g, where + "/" + n.op_type)
                elif n.op_type in ("Cast", "CastLike", "ConstantOfShape", "EyeLike", "RandomUniform", "RandomNormal", "RandomUniformLike", "RandomNormalLike") and a.name in ("to", "dtype") and a.type == onnx.AttributeProto.INT:
                    note(a.i, f"{where} {n.op_type}.{a.name}")

    graph(model.graph, "main")
    for f in model.functions:
        nodes(f.node, f"function {f.name}")
        for v in f.value_info:
            vi(v, f"function {f.name} value")
    return {"double": found[DOUBLE], "float": found[FLOAT]}


def jaxpr_float_dtypes(fn, specs, params, x64: bool) -> set[str]:
    """Floating dtypes that occur anywhere in the jaxpr of fn traced under the given x64 mode."""
    import jax

    prev = bool(jax.config.jax_enable_x64)
    jax.config.update("jax_enable_x64", x64)
    try:
        closed = jax.make_jaxpr(lambda *a: fn(*a, **params))(*specs)
    finally:
        jax.config.update("jax_enable_x64", prev)
    seen: set[str] = set()

    def walk(jaxpr) -> None:
        for v in list(jaxpr.invars) + list(jaxpr.constvars) + list(jaxpr.outvars):
            dt = getattr(getattr(v, "aval", None), "dtype", None)
            if dt is not None and np.issubdtype(dt, np.floating):
                seen.add(str(dt))
        for e in jaxpr.eqns:
            for v in list(e.invars) + list(e.outvars):
                dt = getattr(getattr(v, "aval", None), "dtype", None)
                if dt is not None and np.issubdtype(dt, np.floating):
                    seen.add(str(dt))
            for p in e.params.values():
                for sub in (p if isinstance(p, (list, tuple)) else [p]):
                    j = getattr(sub, "jaxpr", None)
                    if j is not None and hasattr(j, "eqns"):
                        walk(j)
                    elif hasattr(sub, "eqns"):
                        walk(sub)

    walk(closed.jaxpr)
    return seen


# ------------------------------------------------------------------------------------------------
# C11: node census vs schema table
# ------------------------------------------------------------------------------------------------


def opset_census(model) -> list[str]:
    import onnx
    from onnx import defs

    probs = []
    imports = {o.domain or "": o.version for o in model.opset_import}
    fdefs = {(f.domain, f.name) for f in model.functions}

    def nodes(ns, where: str, ver: int) -> None:
        for n in ns:
            dom = n.domain or ""
            if (n.domain, n.op_type) in fdefs:
                pass
            elif dom in ("", "ai.onnx"):
                try:
                    sch = defs.get_schema(n.op_type, ver, "")
                except Exception:  # noqa: BLE001
                    try:
                        since = defs.get_schema(n.op_type, "").since_version
                        probs.append(f"{where}: {n.op_type} does not exist at opset {ver} (introduced in {since})")
                    except Exception:  # noqa: BLE001
                        probs.append(f"{where}: unknown operator {n.op_type}")
                    continue
                if sch.since_version > ver:
                    probs.append(f"{where}: {n.op_type} resolved to version {sch.since_version} > declared {ver}")
                allowed = set(sch.attributes.keys())
                for a in n.attribute:
                    if a.name not in allowed:
                        probs.append(f"{where}: attribute '{a.name}' of {n.op_type} does not exist at opset {ver} (schema v{sch.since_version})")
                if len(n.input) > sch.max_input:
                    probs.append(f"{where}: {n.op_type} has {len(n.input)} inputs, opset {ver} allows {sch.max_input}")
                nreq = sch.min_input
                if len(n.input) < nreq:
                    probs.append(f"{where}: {n.op_type} has {len(n.input)} inputs, opset {ver} needs {nreq}")
            for a in n.attribute:
                if a.type == onnx.AttributeProto.GRAPH:
                    nodes(a.g.node, where + "/" + n.op_type, ver)
                elif a.type == onnx.AttributeProto.GRAPHS:
                    for g in a.graphs:
                        nodes(g.node, where + "/" + n.op_type, ver)

    ver = imports.get("", 0)
    nodes(model.graph.node, "main", ver)
    for f in model.functions:
        fv = {o.domain or "": o.version for o in f.opset_import}.get("", ver)
        if fv != ver:
            probs.append(f"function {f.name} declares opset {fv}, model {ver}")
        nodes(f.node, f"function {f.name}", fv)
    return probs


# ------------------------------------------------------------------------------------------------
# C08: declared annotations vs runtime
# ------------------------------------------------------------------------------------------------


def annotation_check(model, feeds_list: list[dict[str, np.ndarray]]) -> dict[str, Any]:
    """Expose every main-graph value that has value_info (and the graph outputs) as outputs, run ORT,
    compare declared dtype / static dims / symbol consistency with the observed tensors."""
    import onnx
    from onnx import helper as oh

    from harness import onnxutil as U

    m = onnx.ModelProto()
    m.CopyFrom(model)
    existing = {o.name for o in m.graph.output}
    produced = {o for n in m.graph.node for o in n.output}
    decl: dict[str, Any] = {o.name: o for o in m.graph.output}
    extra = []
    for v in m.graph.value_info:
        if v.name in produced and v.name not in existing and v.type.HasField("tensor_type") and v.type.tensor_type.elem_type != 0:
            extra.append(v)
            decl[v.name] = v
    for v in extra:
        m.graph.output.append(v)
    rec: dict[str, Any] = {"values": 0, "runs": 0, "problems": [], "unobserved": None, "events": []}

    def _dims(tt):
        out = []
        if not tt.HasField("shape"):
            return out
        for d in tt.shape.dim:
            if d.HasField("dim_value"):
                out.append({"k": "int", "v": int(d.dim_value)})
            elif d.dim_param and re.fullmatch(r"[A-Za-z_][A-Za-z0-9_]*", d.dim_param) and "DYNAMIC_DIM_SENTINEL" not in d.dim_param:
                # (JAX2ONNX_DYNAMIC_DIM_SENTINEL is the project's spelling of "unknown", not a symbol)
                out.append({"k": "sym", "s": d.dim_param})
            else:
                out.append({"k": "unk"})
        return out

    try:
        sess = U.ort_session(m)
    except Exception as ex:  # noqa: BLE001
        rec["unobserved"] = f"instrumented model does not load: {str(ex)[:160]}"
        return rec
    onames = [o.name for o in sess.get_outputs()]
    for feeds in feeds_list:
        try:
            outs = sess.run(None, feeds)
        except Exception as ex:  # noqa: BLE001
            rec["unobserved"] = f"instrumented model does not run: {str(ex)[:160]}"
            continue
        rec["runs"] += 1
        rec["events"].append({"ev": "Run"})
        for i in m.graph.input:
            if i.name in feeds and i.type.HasField("tensor_type"):
                rec["events"].append({"ev": "Value", "name": i.name, "ddt": str(np.dtype(oh.tensor_dtype_to_np_dtype(i.type.tensor_type.elem_type))), "odt": str(feeds[i.name].dtype),
                                      "ddims": _dims(i.type.tensor_type), "odims": [int(x) for x in feeds[i.name].shape]})
        sym: dict[str, int] = {}
        for i in m.graph.input:
            if i.name in feeds and i.type.HasField("tensor_type"):
                for d, size in zip(i.type.tensor_type.shape.dim, feeds[i.name].shape):
                    if d.dim_param:
                        sym.setdefault(d.dim_param, size)
        for name, arr in zip(onames, outs):
            v = decl.get(name)
            if v is None or arr is None:
                continue
            rec["values"] += 1
            tt = v.type.tensor_type
            want = oh.tensor_dtype_to_np_dtype(tt.elem_type)
            if len(rec["events"]) < 4000:
                rec["events"].append({"ev": "Value", "name": name, "ddt": str(np.dtype(want)), "odt": str(arr.dtype), "ddims": _dims(tt) if tt.HasField("shape") else [], "odims": [int(x) for x in arr.shape]})
            if np.dtype(want) != arr.dtype:
                rec["problems"].append(f"value '{name}': declared {np.dtype(want)} but runtime produces {arr.dtype}")
                continue
            if tt.HasField("shape"):
                dims = list(tt.shape.dim)
                if len(dims) != arr.ndim:
                    rec["problems"].append(f"value '{name}': declared rank {len(dims)} but runtime rank {arr.ndim}")
                    continue
                for a, (d, size) in enumerate(zip(dims, arr.shape)):
                    if d.HasField("dim_value") and d.dim_value != size:
                        rec["problems"].append(f"value '{name}' axis {a}: declared {d.dim_value} but runtime {size}")
                    elif d.dim_param and d.dim_param in sym and re.fullmatch(r"[A-Za-z_][A-Za-z0-9_]*", d.dim_param) and sym[d.dim_param] != size:
                        rec["problems"].append(f"value '{name}' axis {a}: declared symbol {d.dim_param}={sym[d.dim_param]} but runtime {size}")
    return rec


class PostprocessRecorder:
    """Snapshot value annotations right before / after user_interface.postprocess_ir_model."""

    def __init__(self) -> None:
        self.events: list[dict[str, Any]] = []

    @staticmethod
    def _snap(model) -> dict[str, Any]:
        import onnx_ir as ir

        out = {}
        g = model.graph
        io = {id(v) for v in list(g.inputs) + list(g.outputs)}
        vals = list(g.inputs) + list(g.outputs)
        for n in g:
            vals += [o for o in n.outputs if o is not None]
        for v in vals:
            if v.name is None or v.name in out:
                continue
            dims = []
            if v.shape is not None:
                for d in v.shape.dims:
                    if isinstance(d, (int, np.integer)):
                        dims.append({"k": "int", "v": int(d)})
                    elif isinstance(d, ir.SymbolicDim) and d.value is not None:
                        dims.append({"k": "sym", "s": str(d.value)})
                    else:
                        dims.append({"k": "unk"})
            out[v.name] = {"io": id(v) in io, "dt": str(v.dtype) if v.dtype is not None else "none", "dims": dims, "has_shape": v.shape is not None}
        return out

    def __enter__(self):
        import jax2onnx.user_interface as ui

        self._ui = ui
        self._orig = ui.postprocess_ir_model
        rec = self

        def wrapped(model, *a, **k):
            before = rec._snap(model)
            r = rec._orig(model, *a, **k)
            after = rec._snap(model)
            for name, b in before.items():
                a2 = after.get(name)
                if a2 is None:
                    continue
                if b["has_shape"] and not a2["has_shape"]:
                    adims = [{"k": "unk"} for _ in b["dims"]]
                else:
                    adims = a2["dims"]
                if len(rec.events) < 3000 and (b["dims"] != adims or b["dt"] != a2["dt"] or b["io"]):
                    rec.events.append({"ev": "Post", "name": name, "io": b["io"], "bdt": b["dt"], "adt": a2["dt"], "bdims": b["dims"], "adims": adims})
            return r

        ui.postprocess_ir_model = wrapped
        return self

    def __exit__(self, *a):
        self._ui.postprocess_ir_model = self._orig
        return False


def function_annotation_check(model, feeds_list: list[dict[str, np.ndarray]]) -> dict[str, Any]:
    """C08 inside function bodies: every FunctionProto is executed as a stand-alone graph on the inputs of each
    of its call sites in the main graph (observed at run time); the element types / static dims its value_info
    declares are compared with what the body really produces for THAT call site."""
    import onnx
    from onnx import helper as oh

    from harness import onnxutil as U

    rec: dict[str, Any] = {"values": 0, "calls": 0, "problems": [], "unobserved": None}
    fdefs = {(f.domain, f.name): f for f in model.functions}
    calls = [n for n in model.graph.node if (n.domain, n.op_type) in fdefs]
    if not calls or not feeds_list:
        return rec
    m = onnx.ModelProto()
    m.CopyFrom(model)
    existing = {o.name for o in m.graph.output}
    known = {v.name: v for v in list(m.graph.value_info) + list(m.graph.input) + list(m.graph.output)}
    inits = {i.name: i for i in m.graph.initializer}
    want = []
    for n in calls:
        for name in n.input:
            if name and name not in existing and name not in inits and name not in want:
                want.append(name)
    for name in want:
        m.graph.output.append(known[name] if name in known else oh.make_empty_tensor_value_info(name))
    try:
        sess = U.ort_session(m)
    except Exception as ex:  # noqa: BLE001
        rec["unobserved"] = f"instrumented model does not load: {str(ex)[:140]}"
        return rec
    from onnx import numpy_helper as onh

    for feeds in feeds_list[:1]:
        try:
            outs = dict(zip([o.name for o in sess.get_outputs()], sess.run(None, feeds)))
        except Exception as ex:  # noqa: BLE001
            rec["unobserved"] = f"instrumented model does not run: {str(ex)[:140]}"
            continue
        env = dict(feeds)
        env.update(outs)
        for k, t in inits.items():
            env.setdefault(k, onh.to_array(t))
        for n in calls:
            f = fdefs[(n.domain, n.op_type)]
            args = []
            ok = True
            for name in n.input:
                if name == "":
                    args.append(None)
                elif name in env:
                    args.append(np.asarray(env[name]))
                else:
                    ok = False
            if not ok or len(args) != len(f.input):
                continue
            vinfo = {v.name: v for v in f.value_info if v.type.HasField("tensor_type") and v.type.tensor_type.elem_type != 0}
            if not vinfo:
                continue
            produced = {o for nd in f.node for o in nd.output}
            g_inputs = [oh.make_tensor_value_info(nm, oh.np_dtype_to_tensor_dtype(a.dtype), list(a.shape)) for nm, a in zip(f.input, args) if a is not None]
            g_outputs = [oh.make_empty_tensor_value_info(nm) for nm in vinfo if nm in produced]
            if not g_outputs:
                continue
            g = oh.make_graph(list(f.node), f"body_of_{f.name}", g_inputs, g_outputs)
            fm = oh.make_model(g, opset_imports=list(f.opset_import) or list(model.opset_import), ir_version=model.ir_version, functions=[x for x in model.functions if x is not f])
            for imp in model.opset_import:
                if imp.domain not in {o.domain for o in fm.opset_import}:
                    fm.opset_import.append(imp)
            try:
                got = U.ort_run(fm, {nm: a for nm, a in zip(f.input, args) if a is not None})
            except Exception as ex:  # noqa: BLE001
                rec["unobserved"] = f"body of {f.name} does not run stand-alone: {str(ex)[:120]}"
                continue
            rec["calls"] += 1
            for vo, arr in zip(g_outputs, got):
                v = vinfo[vo.name]
                tt = v.type.tensor_type
                rec["values"] += 1
                wantdt = np.dtype(oh.tensor_dtype_to_np_dtype(tt.elem_type))
                if wantdt != arr.dtype:
                    rec["problems"].append(f"function {f.domain}::{f.name} as called by node '{n.name}': value '{vo.name}' declared {wantdt} but runtime produces {arr.dtype}")
                    continue
                if tt.HasField("shape"):
                    dims = list(tt.shape.dim)
                    if len(dims) != arr.ndim:
                        rec["problems"].append(f"function {f.name} (call '{n.name}'): value '{vo.name}' declared rank {len(dims)} but runtime rank {arr.ndim}")
                        continue
                    for a_, (d, size) in enumerate(zip(dims, arr.shape)):
                        if d.HasField("dim_value") and d.dim_value != size:
                            rec["problems"].append(f"function {f.name} (call '{n.name}'): value '{vo.name}' axis {a_}: declared {d.dim_value} but runtime {size}")
    return rec
