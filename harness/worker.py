"""Worker process: reads JSON tasks on stdin, writes '@@RESULT <json>' lines on stdout."""

from __future__ import annotations

import importlib
import json
import os
import sys
import traceback


def _die_with_parent() -> None:
    """Exit hard when the parent goes away (a worker stuck in native code must not linger)."""
    import threading
    import time

    parent = os.getppid()

    def watch() -> None:
        while True:
            time.sleep(2.0)
            if os.getppid() != parent:
                os._exit(3)

    threading.Thread(target=watch, daemon=True).start()


def main() -> None:
    os.environ.setdefault("JAX_PLATFORMS", "cpu")
    _die_with_parent()
    out = sys.stdout
    # keep library prints away from the protocol channel
    sys.stdout = sys.stderr
    for line in sys.stdin:
        line = line.strip()
        if not line:
            continue
        t = json.loads(line)
        try:
            modname, fn = t["fn"].split(":")
            mod = importlib.import_module(modname)
            res = getattr(mod, fn)(**t.get("args", {}))
            payload = {"status": "ok", "result": res}
        except BaseException as ex:  # noqa: BLE001
            payload = {
                "status": "error",
                "error": f"{type(ex).__name__}: {ex}"[:2000],
                "tb": traceback.format_exc()[-3000:],
            }
        from harness.common import _json_default

        out.write("@@RESULT " + json.dumps(payload, default=_json_default) + "\n")
        out.flush()


if __name__ == "__main__":
    main()
