"""Code -> spec observation of the optimizer on real exports: the model is serialised before the
pipeline and after every pass that changed it; ORT runs all snapshots on the same feeds."""

from __future__ import annotations

import traceback
from typing import Any

import numpy as np


class PassRecorder:
    """Wraps ir_optimizations._run_top_level_optimizer_pass / optimize_graph from outside."""

    def __init__(self, max_nodes_per_pass: int = 1500, abort_at: int | None = None, abort_exc: type | None = None, abort_fn_at: int | None = None, abort_mutation_at: int | None = None) -> None:
        self.snaps: list[tuple[int, str, bytes]] = []  # (pass idx, name, proto bytes)
        self.before: bytes | None = None
        self.after: bytes | None = None
        self.max_nodes = max_nodes_per_pass
        self.abort_at = abort_at
        self.abort_exc = abort_exc or RuntimeError
        self.passes_run: list[str] = []
        self.raised_in_optimizer = False
        self.abort_fn_at = abort_fn_at
        self.abort_mutation_at = abort_mutation_at
        self.mutations = 0
        self.fn_passes = 0

    def __enter__(self):
        import onnx_ir as ir
        from jax2onnx.converter import conversion_api as capi
        from jax2onnx.converter import ir_optimizations as io

        self._io, self._capi = io, capi
        self._orig_pass = io._run_top_level_optimizer_pass
        self._orig_opt_capi = capi.optimize_graph
        self._orig_opt = io.optimize_graph
        names = [p.name for p in io._OPTIMIZER_PASSES]
        rec = self

        def run_pass(opt_pass, model):
            idx = names.index(opt_pass.name) + 1 if opt_pass.name in names else 0
            # several passes may share a runner; use position in registry by identity
            for k, p in enumerate(io._OPTIMIZER_PASSES, start=1):
                if p is opt_pass:
                    idx = k
            if rec.abort_at is not None and idx == rec.abort_at:
                rec.raised_in_optimizer = True
                raise rec.abort_exc(f"injected abort in optimizer pass {idx} ({opt_pass.name})")
            rec._orig_pass(opt_pass, model)
            rec.passes_run.append(opt_pass.name)
            if rec.per_pass:
                b = ir.to_proto(model).SerializeToString()
                if b != rec._last:
                    rec.snaps.append((idx, opt_pass.name, b))
                    rec._last = b

        def optimize(model):
            try:
                proto = ir.to_proto(model)
                rec.before = proto.SerializeToString()
                rec.per_pass = len(proto.graph.node) <= rec.max_nodes
            except Exception:  # noqa: BLE001
                rec.before = None
                rec.per_pass = False
            rec._last = rec.before
            try:
                return rec._orig_opt(model)
            finally:
                try:
                    rec.after = ir.to_proto(model).SerializeToString()
                except Exception:  # noqa: BLE001
                    rec.after = None

        self._orig_fn_pass = io._run_function_optimizer_pass

        def run_fn_pass(opt_pass, graph):
            rec.fn_passes += 1
            if rec.abort_fn_at is not None and rec.fn_passes == rec.abort_fn_at:
                rec.raised_in_optimizer = True
                raise rec.abort_exc(f"injected abort in function-body optimizer pass #{rec.fn_passes} ({opt_pass.name})")
            return rec._orig_fn_pass(opt_pass, graph)

        io._run_function_optimizer_pass = run_fn_pass
        # abort INSIDE a pass: at the n-th graph mutation through replace_all_uses_with
        self._orig_rauw = ir.convenience.replace_all_uses_with
        self._in_opt = False

        def rauw(*a, **k):
            if rec._in_opt:
                rec.mutations += 1
                if rec.abort_mutation_at is not None and rec.mutations == rec.abort_mutation_at:
                    rec.raised_in_optimizer = True
                    raise rec.abort_exc(f"injected abort at graph mutation #{rec.mutations}")
            return rec._orig_rauw(*a, **k)

        ir.convenience.replace_all_uses_with = rauw
        orig_optimize = optimize

        def optimize2(model):
            rec._in_opt = True
            try:
                return orig_optimize(model)
            finally:
                rec._in_opt = False

        io._run_top_level_optimizer_pass = run_pass
        capi.optimize_graph = optimize2
        return self

    def __exit__(self, *a):
        import onnx_ir as ir

        self._io._run_top_level_optimizer_pass = self._orig_pass
        self._io._run_function_optimizer_pass = self._orig_fn_pass
        ir.convenience.replace_all_uses_with = self._orig_rauw
        self._capi.optimize_graph = self._orig_opt_capi
        return False


def run_outputs(model_bytes: bytes, xs, input_params, nchw_in):
    import onnx

    from harness import corpus as C
    from harness import onnxutil as U

    m = onnx.load_model_from_string(model_bytes)
    feeds = C.feeds_for(m, xs, input_params, nchw_in)
    return U.ort_run(model_bytes, feeds)


def corpus_opt_job(indices: list[int]) -> list[dict[str, Any]]:
    from harness import corpus as C
    from harness import onnxutil as U

    vs = C.variants()
    out = []
    for i in indices:
        tp = vs[i]
        rec: dict[str, Any] = {"i": i, "key": C.key_of(tp), "status": "ok", "events": []}
        try:
            with PassRecorder() as pr:
                model, fn = C.export(tp)
        except Exception as ex:  # noqa: BLE001
            rec["status"] = "export_failed"
            rec["why"] = f"{type(ex).__name__}: {str(ex)[:160]}"
            out.append(rec)
            continue
        if pr.before is None:
            rec["status"] = "no_snapshot"
            out.append(rec)
            continue
        try:
            xs = C.author_inputs(tp)
            params = tp.get("input_params", {})
            ref = run_outputs(pr.before, xs, params, tp.get("inputs_as_nchw"))
        except Exception as ex:  # noqa: BLE001
            rec["status"] = "unrunnable_before"
            rec["why"] = f"{type(ex).__name__}: {str(ex)[:200]}"
            out.append(rec)
            continue
        snaps = pr.snaps if pr.snaps else ([(0, "optimize_graph", pr.after)] if pr.after and pr.after != pr.before else [])
        rec["changed"] = [s[1] for s in snaps]
        for idx, name, b in snaps:
            ev = {"idx": idx, "name": name, "equiv": True}
            try:
                got = run_outputs(b, xs, params, tp.get("inputs_as_nchw"))
                if len(got) != len(ref):
                    ev["equiv"] = False
                    ev["how"] = f"output count {len(ref)} -> {len(got)}"
                else:
                    for j, (a, c) in enumerate(zip(ref, got)):
                        if a.shape != c.shape or a.dtype != c.dtype:
                            ev["equiv"] = False
                            ev["how"] = f"output {j}: {a.dtype}{a.shape} -> {c.dtype}{c.shape}"
                            break
                        if not U.same_array(a, c):
                            # passes are structural; allow last-bit float noise only for fused ops
                            if a.dtype.kind in "fc" and np.allclose(a, c, rtol=1e-6, atol=1e-7, equal_nan=True):
                                ev["fuzzy"] = True
                                continue
                            ev["equiv"] = False
                            ev["how"] = f"output {j} values differ"
                            break
            except Exception as ex:  # noqa: BLE001
                ev["equiv"] = False
                ev["how"] = f"invalid after pass: {str(ex)[:200]}"
            rec["events"].append(ev)
            if not ev["equiv"]:
                rec["status"] = "violation"
                break
        out.append(rec)
    return out
