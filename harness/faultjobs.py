"""C16 fault enumeration on the real code: optimizer aborts at every pass index (top level and
function bodies) and inside passes at the n-th graph mutation; unsupported constructs at top level,
in loop bodies and in function bodies."""

from __future__ import annotations

import os
from typing import Any

import numpy as np


class Injected(RuntimeError):
    pass


def programs():
    import jax
    import jax.numpy as jnp
    from jax import lax

    from harness import userfns

    c = np.arange(3, dtype=np.float32)

    def p_tchain(x):
        return jnp.transpose(jnp.tanh(jnp.transpose(x, (0, 2, 1))) * 2.0, (0, 2, 1))

    def p_treduce(x):
        y = jnp.transpose(x, (0, 2, 1))
        return jnp.transpose(jnp.mean(y, axis=1, keepdims=True), (0, 2, 1)) + x[:, :1, :]

    def p_reshape_cast(x):
        y = x.reshape(-1).reshape(x.shape)
        return y.astype(jnp.float64).astype(jnp.float32) + jnp.maximum(y, 0.25)

    def p_addforest(x, y):
        a = jnp.transpose(x, (0, 2, 1)) + jnp.transpose(y, (0, 2, 1))
        return jnp.transpose(a, (0, 2, 1)), jnp.sum(a)

    def p_function(x):
        return userfns.inner_ok(jnp.transpose(jnp.transpose(x, (0, 2, 1)), (0, 2, 1))) + userfns.inner_ok(x * 2.0)

    def p_loop(x):
        return lax.fori_loop(0, 3, lambda i, s: jnp.transpose(jnp.tanh(jnp.transpose(s, (0, 2, 1))), (0, 2, 1)) + 1.0, x)

    def p_silu(x):
        return x * jax.nn.sigmoid(x) + jnp.maximum(jnp.transpose(x, (0, 2, 1)), 0.0).transpose((0, 2, 1))

    def p_fanout(x):
        # four leaves that are ONE value after optimisation (three aliases of it)
        y = jnp.tanh(x)
        return y, jnp.transpose(jnp.transpose(y, (0, 2, 1)), (0, 2, 1)), y.reshape(-1).reshape(y.shape), jnp.swapaxes(jnp.swapaxes(y, 1, 2), 1, 2)

    spec3 = [(2, 3, 4)]
    progs = {
        "fanout_one_value": (p_fanout, spec3, {}),
        "tchain": (p_tchain, spec3, {}),
        "treduce": (p_treduce, spec3, {}),
        "reshape_cast": (p_reshape_cast, spec3, {}),
        "addforest": (p_addforest, [(2, 3, 4), (2, 3, 4)], {}),
        "function": (p_function, spec3, {}),
        "loop": (p_loop, spec3, {}),
        "silu_opset24": (p_silu, spec3, {"opset": 24}),
        "nchw": (lambda x: jnp.maximum(x, 0.0) * 2.0, [(1, 4, 5, 3)], {"inputs_as_nchw": [0], "outputs_as_nchw": [0]}),
    }
    try:
        from flax import nnx

        class Block(nnx.Module):
            def __init__(self):
                self.l = nnx.Linear(4, 4, rngs=nnx.Rngs(0))
                self.d = nnx.Dropout(0.5, rngs=nnx.Rngs(1))

            def __call__(self, x):
                return self.d(nnx.gelu(self.l(x)), deterministic=True)

        progs["nnx_dropout"] = (Block(), spec3, {})
    except Exception:  # noqa: BLE001
        pass
    return progs


def _inputs(specs):
    xs = []
    for k, s in enumerate(specs):
        n = int(np.prod(s))
        xs.append(((np.arange(n) * 7 % 11 - 5) / 4.0 + k).reshape(s).astype(np.float32))
    return xs


def _valid_and_equal(model, fn, specs, kw) -> list[str]:
    import jax
    import jax.numpy as jnp
    import onnx

    from harness import onnxutil as U

    probs = []
    try:
        onnx.checker.check_model(model, full_check=True)
        onnx.shape_inference.infer_shapes(model, strict_mode=True)
    except Exception as ex:  # noqa: BLE001
        return [f"invalid model: {str(ex)[:200]}"]
    # several input points: data-dependent control flow (branch index, loop bound) takes more than one path
    for tag, f in (("base", lambda x: x), ("negated", lambda x: -x), ("shifted", lambda x: x + np.float32(3.0))):
        xs = [f(x) for x in _inputs(specs)]
        ref = [np.asarray(v) for v in jax.tree_util.tree_leaves(fn(*[jnp.asarray(x) for x in xs]))]
        feeds = {}
        for k, (vi, x) in enumerate(zip(model.graph.input, xs)):
            feeds[vi.name] = np.transpose(x, (0, 3, 1, 2)) if k in (kw.get("inputs_as_nchw") or []) else x
        try:
            _, got = U.run_model(model, feeds)
        except Exception as ex:  # noqa: BLE001
            return [f"not loadable/runnable: {str(ex)[:200]}"]
        if len(got) != len(ref):
            return [f"output count {len(got)} vs {len(ref)}"]
        for j, (g, r) in enumerate(zip(got, ref)):
            if j in (kw.get("outputs_as_nchw") or []):
                r = np.transpose(r, (0, 3, 1, 2))
            if g.shape != r.shape or not np.allclose(g, r, rtol=2e-5, atol=2e-6):
                probs.append(f"output {j} differs from JAX ({tag} inputs)")
        if probs:
            break
    return probs


def abort_job(cases: list[dict[str, Any]]) -> list[dict[str, Any]]:
    """cases: [{prog, where: top|fn|mutation, at: k, strict: none|env|arg}]"""
    import jax2onnx
    from harness.optjobs import PassRecorder

    P = programs()
    out = []
    for c in cases:
        rec = dict(c)
        if c["prog"] not in P:
            rec["status"] = "no_such_program"
            out.append(rec)
            continue
        fn, specs, kw = P[c["prog"]]
        prev = os.environ.get("JAX2ONNX_STRICT_OPTIMIZER_FAILURES")
        if c["strict"] == "env":
            os.environ["JAX2ONNX_STRICT_OPTIMIZER_FAILURES"] = "1"
        else:
            os.environ.pop("JAX2ONNX_STRICT_OPTIMIZER_FAILURES", None)
        args = dict(abort_exc=Injected, max_nodes_per_pass=0)
        if c["where"] == "top":
            args["abort_at"] = c["at"]
        elif c["where"] == "fn":
            args["abort_fn_at"] = c["at"]
        else:
            args["abort_mutation_at"] = c["at"]
        model = None
        raised = None
        try:
            with PassRecorder(**args) as pr:
                try:
                    model = jax2onnx.to_onnx(fn, specs, **kw)
                except BaseException as ex:  # noqa: BLE001
                    raised = f"{type(ex).__name__}: {str(ex)[:120]}"
        finally:
            if prev is None:
                os.environ.pop("JAX2ONNX_STRICT_OPTIMIZER_FAILURES", None)
            else:
                os.environ["JAX2ONNX_STRICT_OPTIMIZER_FAILURES"] = prev
        rec["fired"] = pr.raised_in_optimizer
        rec["raised"] = raised
        rec["problems"] = []
        if not pr.raised_in_optimizer:
            rec["status"] = "fault_not_reached"
            if raised is not None:
                rec["problems"].append(f"export failed without injected fault: {raised}")
        elif c["strict"] == "env":
            rec["status"] = "strict"
            if raised is None or "Injected" not in raised:
                rec["problems"].append(f"strict policy did not re-raise the optimizer failure (raised={raised})")
        else:
            rec["status"] = "non_strict"
            if model is None:
                rec["problems"].append(f"default policy raised instead of returning a model: {raised}")
            else:
                rec["problems"] += _valid_and_equal(model, fn, specs, kw)
        out.append(rec)
    return out


def unsupported_job() -> list[dict[str, Any]]:
    import jax
    import jax.numpy as jnp
    from jax import lax

    import jax2onnx
    from harness import userfns

    U = userfns.unsupported_p
    f32, i32 = np.float32, np.int32

    def in_loop(g):
        return lambda *a: lax.fori_loop(0, 2, lambda i, s: g(s), a[0])

    def three_way(x):
        return lax.switch(jnp.int32(1) + (x[0] > 0).astype(jnp.int32), [lambda v: v + 1, lambda v: v * 2, lambda v: v - 1], x)

    def rev_scan(x):
        return lax.scan(lambda c, e: (c + e, c), jnp.float32(0.0), x, reverse=True)[1]

    # variants of one construct the converter cannot represent (J2O_ControlFlow: reverse scans have no wiring):
    # with / without scanned inputs, stacked outputs that depend on the carry, nested in a conditional
    def rev_scan_counted(x):
        return lax.scan(lambda c, _: (c * 2.0 + 1.0, c), x[0], None, length=4, reverse=True)

    def rev_scan_counted_in_cond(x):
        return lax.cond(x[0] > -100.0, lambda v: lax.scan(lambda c, _: (c + 1.0, c * 3.0), v[0], None, length=3, reverse=True)[1], lambda v: v * 0.0, x)

    def rev_scan_two_outputs(x):
        return lax.scan(lambda c, e: (c + e, (c, e * 2.0)), jnp.float32(1.0), x, reverse=True)

    cases = {
        "reverse_scan_counted/top": (rev_scan_counted, [(3,)]),
        "reverse_scan_counted/cond_branch": (rev_scan_counted_in_cond, [(3,)]),
        "reverse_scan_two_outputs/top": (rev_scan_two_outputs, [(3,)]),
        "unregistered_primitive/top": (lambda x: U.bind(x) + 1, [(3,)]),
        "unregistered_primitive/loop_body": (in_loop(lambda s: U.bind(s)), [(3,)]),
        "unregistered_primitive/function_body": (lambda x: userfns.inner_unsupported(x), [(3,)]),
        "unregistered_primitive/cond_branch": (lambda x: lax.cond(x[0] > 0, lambda v: U.bind(v), lambda v: v, x), [(3,)]),
        "switch_3way/top": (three_way, [(3,)]),
        "switch_3way/loop_body": (in_loop(three_way), [(3,)]),
        "switch_3way/clamped_index": (lambda x: lax.switch((x[0] * 2.0).astype(jnp.int32), [lambda v: v + 1, lambda v: v * 2, lambda v: v - 1], x), [(3,)]),
        "switch_4way/function_body": (lambda x: userfns.switch4_fn(x), [(3,)]),
        "switch_3way/cond_branch": (lambda x: lax.cond(x[1] > -100.0, three_way, lambda v: v * 0.0, x), [(3,)]),
        "reverse_scan/top": (rev_scan, [(3,)]),
        "reverse_scan/function_body": (lambda x: userfns.rev_scan_fn(x), [(3,)]),
        "fori_dynamic_bounds/top": (lambda x: lax.fori_loop(0, x.shape[0] if False else (x[0] > 0).astype(jnp.int32) + 1, lambda i, v: v + 1, x), [(3,)]),
    }
    out = []
    for name, (fn, specs) in cases.items():
        rec: dict[str, Any] = {"construct": name}
        try:
            m = jax2onnx.to_onnx(fn, specs)
            rec["exported"] = True
        except BaseException as ex:  # noqa: BLE001
            rec["exported"] = False
            rec["error"] = f"{type(ex).__name__}: {str(ex)[:140]}"
            out.append(rec)
            continue
        # a model came back: it must then be complete and right
        try:
            rec["problems"] = _valid_and_equal(m, fn, specs, {})
        except Exception as ex:  # noqa: BLE001
            rec["problems"] = [f"cannot evaluate reference: {type(ex).__name__}: {str(ex)[:120]}"]
            rec["reference_unavailable"] = True
        out.append(rec)
    return out


def pass_space() -> dict[str, Any]:
    from jax2onnx.converter import ir_optimizations as io

    return {"names": [p.name for p in io._OPTIMIZER_PASSES], "fn_passes": [p.name for p in io._OPTIMIZER_PASSES if p.function_graph_runner is not None], "programs": sorted(programs().keys())}
