"""C09: dtype census of real exports in both precisions, exact float64 probes, flag restoration."""

from __future__ import annotations

from typing import Any

import numpy as np

EPS30 = 2.0 ** -30
TINY = 2.0 ** -40


def corpus_job(indices: list[int]) -> list[dict[str, Any]]:
    import jax

    from harness import corpus as C
    from harness.censusjobs import dtype_census, jaxpr_float_dtypes

    vs = C.variants()
    out = []
    for i in indices:
        tp = vs[i]
        double = bool(tp.get("_enable_double_precision_test_setting", False))
        rec: dict[str, Any] = {"i": i, "key": C.key_of(tp), "double": double, "status": "ok"}
        x64_before = bool(jax.config.jax_enable_x64)
        try:
            fn = C._instantiate(tp)
            specs = C.input_specs(tp, fn)
            model, _ = C.export(tp, callable_obj=fn)
        except Exception as ex:  # noqa: BLE001
            rec["status"] = "export_failed"
            rec["x64_before"], rec["x64_after"] = x64_before, bool(jax.config.jax_enable_x64)
            out.append(rec)
            continue
        rec["x64_before"], rec["x64_after"] = x64_before, bool(jax.config.jax_enable_x64)
        cen = dtype_census(model)
        rec["ndouble"], rec["nfloat"] = len(cen["double"]), len(cen["float"])
        rec["where_double"], rec["where_float"] = cen["double"][:4], cen["float"][:4]
        explicit64 = any(hasattr(s, "dtype") and np.dtype(s.dtype) == np.float64 for s in specs) or any(
            np.asarray(v).dtype == np.float64 for v in (tp.get("input_values") or []) if not double)
        rec["explicit64"] = bool(explicit64) and not double
        rec["outs_single_ok"] = all(o.type.tensor_type.elem_type != 11 for o in model.graph.output)
        rec["allf64"] = False
        if double:
            try:
                sds = [s if hasattr(s, "dtype") else jax.ShapeDtypeStruct(_sym(s), np.float64) for s in specs]
                sds = [jax.ShapeDtypeStruct(_sym(s.shape), s.dtype) for s in sds]
                fl = jaxpr_float_dtypes(fn, sds, dict(tp.get("input_params") or {}), True)
                rec["jax_float_dtypes"] = sorted(fl)
                rec["allf64"] = bool(fl) and fl == {"float64"}
            except Exception as ex:  # noqa: BLE001
                rec["allf64"] = False
                rec["jaxpr_error"] = f"{type(ex).__name__}: {str(ex)[:100]}"
        out.append(rec)
    return out


def _sym(shape):
    return tuple(3 if isinstance(d, str) else d for d in shape)


def probes() -> list[dict[str, Any]]:
    """Programs whose float64 arithmetic is EXACT but loses everything in float32."""
    import jax
    import jax.numpy as jnp
    from jax import lax

    import jax2onnx
    from harness import onnxutil as U
    from harness import userfns

    c_np = np.array([1.0 + EPS30, 2.0 + EPS30, TINY], dtype=np.float64)

    def p_identity(x):
        return x * 1.0

    def p_python_const(x):
        return (x + (1.0 + EPS30)) - 1.0

    def p_numpy_const(x):
        return x + c_np

    def p_where_concat(x):
        y = jnp.where(x > 0, x, -x)
        return jnp.concatenate([y, y * 2.0]).reshape(2, 3).T

    def p_loop_sum(x):
        return lax.fori_loop(0, 8, lambda i, s: s + EPS30, x)

    def p_while(x):
        return lax.while_loop(lambda s: s[1] < 4, lambda s: (s[0] + TINY, s[1] + 1), (x, 0))[0]

    def p_scan(x):
        return lax.scan(lambda c, e: (c + e, c * 2.0), jnp.zeros(()), x)

    def p_cond(x):
        return lax.cond(x[0] > 0, lambda v: v + EPS30, lambda v: v - EPS30, x)

    def p_function(x):
        return userfns.add_eps30(x)

    def p_mean(x):
        return jnp.sum(x) * 0.5 + jnp.mean(x * 0.0)

    def p_matmul(x):
        return x.reshape(1, 3) @ jnp.eye(3) * 2.0

    progs = {"identity": p_identity, "python_const": p_python_const, "numpy_const": p_numpy_const, "where_concat": p_where_concat, "fori_sum": p_loop_sum,
             "while_sum": p_while, "scan": p_scan, "cond": p_cond, "onnx_function_body": p_function, "reductions": p_mean, "matmul_eye": p_matmul}
    try:
        from flax import nnx

        class M(nnx.Module):
            def __init__(self):
                self.w = nnx.Param(jnp.asarray(np.array([1.0 + EPS30, 1.0, 1.0])))

            def __call__(self, x):
                return x * self.w.value

        prev = bool(jax.config.jax_enable_x64)
        jax.config.update("jax_enable_x64", True)
        try:
            progs["module_parameter"] = M()
        finally:
            jax.config.update("jax_enable_x64", prev)
    except Exception:  # noqa: BLE001
        pass
    x = np.array([1.0 + EPS30, 0.5 + TINY, 3.0], dtype=np.float64)
    out = []
    for name, fn in progs.items():
        rec: dict[str, Any] = {"probe": name}
        x64_before = bool(jax.config.jax_enable_x64)
        try:
            m = jax2onnx.to_onnx(fn, [jax.ShapeDtypeStruct((3,), np.float64)], enable_double_precision=True)
        except Exception as ex:  # noqa: BLE001
            rec["export_error"] = f"{type(ex).__name__}: {str(ex)[:160]}"
            rec["flag_restored"] = bool(jax.config.jax_enable_x64) == x64_before
            out.append(rec)
            continue
        rec["flag_restored"] = bool(jax.config.jax_enable_x64) == x64_before
        prev = bool(jax.config.jax_enable_x64)
        jax.config.update("jax_enable_x64", True)
        try:
            ref = [np.asarray(v) for v in jax.tree_util.tree_leaves(fn(jnp.asarray(x)))]
        finally:
            jax.config.update("jax_enable_x64", prev)
        try:
            got = U.ort_run(m, {m.graph.input[0].name: x})
        except Exception as ex:  # noqa: BLE001
            rec["run_error"] = str(ex)[:200]
            out.append(rec)
            continue
        rec["exact"] = len(got) == len(ref) and all(g.dtype == np.float64 and g.shape == r.shape and np.array_equal(g, r) for g, r in zip(got, ref))
        # would a float32 detour have been visible?
        lo = [np.asarray(v) for v in jax.tree_util.tree_leaves(fn(jnp.asarray(x.astype(np.float32))))]
        rec["f32_would_differ"] = any(not np.array_equal(np.asarray(a, np.float64), r) for a, r in zip(lo, ref))
        if not rec["exact"]:
            rec["got"] = [g.tolist() for g in got][:2]
            rec["ref"] = [r.tolist() for r in ref][:2]
            rec["got_dtypes"] = [str(g.dtype) for g in got]
        # single precision export of the same program must contain no DOUBLE
        from harness.censusjobs import dtype_census

        try:
            if name == "module_parameter":
                raise RuntimeError("skipped: the module was built with float64 parameters, i.e. the callable itself requests the width")
            ms = jax2onnx.to_onnx(fn, [(3,)], enable_double_precision=False)
            rec["single_ndouble"] = len(dtype_census(ms)["double"])
            rec["single_where"] = dtype_census(ms)["double"][:3]
        except Exception as ex:  # noqa: BLE001
            rec["single_export_error"] = f"{type(ex).__name__}: {str(ex)[:120]}"
        out.append(rec)
    return out
