"""C11: exports at several target opsets: node census (events for J2O_Opset), validity, and
equality of outputs with the default-opset export."""

from __future__ import annotations

from typing import Any

import numpy as np


def node_events(model) -> list[dict[str, Any]]:
    import onnx

    fdefs = {(f.domain, f.name) for f in model.functions}
    imports = {o.domain or "": o.version for o in model.opset_import}
    ev = []

    def nodes(ns, ver):
        for n in ns:
            if (n.domain, n.op_type) not in fdefs and (n.domain or "") in ("", "ai.onnx"):
                ev.append({"op": n.op_type, "declared": int(ver), "attrs": sorted(a.name for a in n.attribute), "nin": len(n.input)})
            for a in n.attribute:
                if a.type == onnx.AttributeProto.GRAPH:
                    nodes(a.g.node, ver)
                elif a.type == onnx.AttributeProto.GRAPHS:
                    for g in a.graphs:
                        nodes(g.node, ver)

    ver = imports.get("", 0)
    nodes(model.graph.node, ver)
    for f in model.functions:
        fv = {o.domain or "": o.version for o in f.opset_import}.get("", ver)
        nodes(f.node, fv)
    return ev


def schema_facts(ops: set[str]) -> dict[str, list[dict[str, Any]]]:
    from onnx import defs

    out: dict[str, list[dict[str, Any]]] = {}
    allv: dict[str, list] = {}
    for s in defs.get_all_schemas_with_history():
        if s.domain in ("", "ai.onnx") and s.name in ops:
            allv.setdefault(s.name, []).append(s)
    for name, lst in allv.items():
        lst.sort(key=lambda s: s.since_version)
        out[name] = [{"v": int(s.since_version), "attrs": sorted(s.attributes.keys()), "minin": int(s.min_input), "maxin": int(min(s.max_input, 10**6))} for s in lst]
    return out


def corpus_job(indices: list[int], opsets: list[int]) -> list[dict[str, Any]]:
    import onnx

    from harness import corpus as C
    from harness import onnxutil as U
    from harness.censusjobs import classify_ort_load

    vs = C.variants()
    out = []
    for i in indices:
        tp = vs[i]
        base_opset = int(tp.get("opset_version", 23))
        rec: dict[str, Any] = {"i": i, "key": C.key_of(tp), "per_opset": {}}
        fn = None
        ref_out = None
        xs = None
        try:
            fn = C._instantiate(tp)
            xs = C.author_inputs(tp)
        except Exception:  # noqa: BLE001
            rec["status"] = "instantiate_failed"
            out.append(rec)
            continue
        for ops in [base_opset] + [o for o in opsets if o != base_opset]:
            pr: dict[str, Any] = {}
            try:
                m, _ = C.export(tp, callable_obj=fn, opset=ops)
            except Exception as ex:  # noqa: BLE001
                pr["export_error"] = f"{type(ex).__name__}: {str(ex)[:140]}"
                rec["per_opset"][str(ops)] = pr
                continue
            declared = {o.domain or "": o.version for o in m.opset_import}.get("", None)
            pr["declared"] = declared
            pr["events"] = node_events(m)
            try:
                onnx.checker.check_model(m, full_check=True)
                pr["checker"] = "ok"
            except Exception as ex:  # noqa: BLE001
                pr["checker"] = str(ex)[:200]
            st, why = classify_ort_load(m)
            pr["ort"] = st
            pr["ort_why"] = why
            if st == "ok" and not tp.get("skip_numeric_validation"):
                try:
                    feeds = C.feeds_for(m, xs, tp.get("input_params", {}), tp.get("inputs_as_nchw"))
                    got = U.ort_run(m, feeds)
                    if ops == base_opset:
                        ref_out = got
                        pr["equal_to_default"] = True
                    elif ref_out is not None:
                        pr["equal_to_default"] = len(got) == len(ref_out) and all(
                            g.shape == r.shape and g.dtype == r.dtype and (np.array_equal(g, r) or (g.dtype.kind in "fc" and np.allclose(g, r, rtol=1e-5, atol=1e-6, equal_nan=True)))
                            for g, r in zip(got, ref_out))
                except Exception as ex:  # noqa: BLE001
                    pr["run_error"] = str(ex)[:160]
            rec["per_opset"][str(ops)] = pr
        rec["status"] = "ok"
        rec["base_opset"] = base_opset
        out.append(rec)
    return out
