"""C11: exports at several target opsets: node census (events for J2O_Opset), validity, and
equality of outputs with the default-opset export."""

from __future__ import annotations

from typing import Any

import numpy as np


def node_events(model) -> list[dict[str, Any]]:
    import onnx

    fdefs = {(f.domain, f.name) for f in model.functions}
    imports = {o.domain or "": o.version for o in model.opset_import}
    ev = []

    def nodes(ns, ver):
        for n in ns:
            if (n.domain, n.op_type) not in fdefs and (n.domain or "") in ("", "ai.onnx"):
                ev.append({"op": n.op_type, "declared": int(ver), "attrs": sorted(a.name for a in n.attribute), "nin": len(n.input)})
            for a in n.attribute:
                if a.type == onnx.AttributeProto.GRAPH:
                    nodes(a.g.node, ver)
                elif a.type == onnx.AttributeProto.GRAPHS:
                    for g in a.graphs:
                        nodes(g.node, ver)

    ver = imports.get("", 0)
    nodes(model.graph.node, ver)
    for f in model.functions:
        fv = {o.domain or "": o.version for o in f.opset_import}.get("", ver)
        nodes(f.node, fv)
    return ev


def schema_facts(ops: set[str]) -> dict[str, list[dict[str, Any]]]:
    from onnx import defs

    out: dict[str, list[dict[str, Any]]] = {}
    allv: dict[str, list] = {}
    for s in defs.get_all_schemas_with_history():
        if s.domain in ("", "ai.onnx") and s.name in ops:
            allv.setdefault(s.name, []).append(s)
    for name, lst in allv.items():
        lst.sort(key=lambda s: s.since_version)
        out[name] = [{"v": int(s.since_version), "attrs": sorted(s.attributes.keys()), "minin": int(s.min_input), "maxin": int(min(s.max_input, 10**6))} for s in lst]
    return out


def corpus_job(indices: list[int], opsets: list[int]) -> list[dict[str, Any]]:
    import onnx

    from harness import corpus as C
    from harness import onnxutil as U
    from harness.censusjobs import classify_ort_load

    vs = C.variants()
    out = []
    for i in indices:
        tp = vs[i]
        base_opset = int(tp.get("opset_version", 23))
        rec: dict[str, Any] = {"i": i, "key": C.key_of(tp), "per_opset": {}}
        fn = None
        ref_out = None
        xs = None
        try:
            fn = C._instantiate(tp)
            xs = C.author_inputs(tp)
        except Exception:  # noqa: BLE001
            rec["status"] = "instantiate_failed"
            out.append(rec)
            continue
        for ops in [base_opset] + [o for o in opsets if o != base_opset]:
            pr: dict[str, Any] = {}
            try:
                m, _ = C.export(tp, callable_obj=fn, opset=ops)
            except Exception as ex:  # noqa: BLE001
                pr["export_error"] = f"{type(ex).__name__}: {str(ex)[:140]}"
                rec["per_opset"][str(ops)] = pr
                continue
            declared = {o.domain or "": o.version for o in m.opset_import}.get("", None)
            pr["declared"] = declared
            pr["events"] = node_events(m)
            try:
                onnx.checker.check_model(m, full_check=True)
                pr["checker"] = "ok"
            except Exception as ex:  # noqa: BLE001
                pr["checker"] = str(ex)[:200]
            st, why = classify_ort_load(m)
            pr["ort"] = st
            pr["ort_why"] = why
            if st == "ok" and not tp.get("skip_numeric_validation"):
                try:
                    feeds = C.feeds_for(m, xs, tp.get("input_params", {}), tp.get("inputs_as_nchw"))
                    got = U.ort_run(m, feeds)
                    if ops == base_opset:
                        ref_out = got
                        pr["equal_to_default"] = True
                    elif ref_out is not None:
                        pr["equal_to_default"] = len(got) == len(ref_out) and all(
                            g.shape == r.shape and g.dtype == r.dtype and (np.array_equal(g, r) or (g.dtype.kind in "fc" and np.allclose(g, r, rtol=1e-5, atol=1e-6, equal_nan=True)))
                            for g, r in zip(got, ref_out))
                except Exception as ex:  # noqa: BLE001
                    pr["run_error"] = str(ex)[:160]
            rec["per_opset"][str(ops)] = pr
        rec["status"] = "ok"
        rec["base_opset"] = base_opset
        out.append(rec)
    return out


def opset_sensitive_keys() -> dict[str, Any]:
    """Facts: plugins whose lowering branches on the target opset (source scan), and their testcases."""
    import os
    import re
    from pathlib import Path

    from harness import corpus as C

    root = Path(os.environ.get("J2O_REPO", "/repo")) / "jax2onnx" / "plugins"
    pat = re.compile(r"opset\w*\s*(<|>|<=|>=)\s*\d\d|_graph_default_opset|\d\d\s*(<|>|<=|>=)\s*\w*opset")
    comps = set()
    files = []
    for f in sorted(root.rglob("*.py")):
        if "examples" in f.parts:
            continue
        txt = f.read_text()
        if pat.search(txt):
            files.append(str(f.relative_to(root)))
            for m in re.finditer(r'component\s*=\s*"([^"]+)"', txt):
                comps.add(m.group(1))
    vs = C.variants()
    # single-precision, real-valued testcases only: the width policy of double-precision exports and complex
    # layouts have their own findings and are not what the opset question is about
    idx = [i for i, tp in enumerate(vs) if tp.get("component") in comps and not tp.get("input_params") and not tp.get("inputs_as_nchw") and not tp.get("outputs_as_nchw")
           and not tp.get("_enable_double_precision_test_setting") and "complex" not in C.key_of(tp)]
    return {"files": files, "components": sorted(comps), "indices": idx, "component_of": {str(i): vs[i].get("component") for i in idx}}


def context_job(indices: list[int], opsets: list[int]) -> list[dict[str, Any]]:
    """Opset-sensitive testcases placed in other CONTEXTS (an @onnx_function body, a cond branch) and driven
    with steering values for integer scalar operands (start indices ...): census + checker + ORT at
    every opset, results compared with JAX eager."""
    import jax
    import jax.numpy as jnp
    import onnx
    from jax import lax

    import jax2onnx
    from harness import corpus as C
    from harness import onnxutil as U
    from harness import userfns
    from harness.censusjobs import classify_ort_load

    vs = C.variants()
    out = []
    for i in indices:
        tp = vs[i]
        double = bool(tp.get("_enable_double_precision_test_setting", False))
        try:
            fn = C._instantiate(tp)
            xs = [np.asarray(x) for x in C.author_inputs(tp)]
        except Exception:  # noqa: BLE001
            continue
        if not xs or any(isinstance(d, str) for s_ in (tp.get("input_shapes") or []) for d in (s_ if isinstance(s_, (list, tuple)) else [s_])):
            continue

        def in_function(*a, _fn=fn):
            userfns.SITE_CALL["any"] = _fn
            return userfns.outer_body_any(*a)

        def in_cond(*a, _fn=fn):
            leaves_t = lambda ops: _fn(*ops)  # noqa: E731
            return lax.cond(jnp.sum(jnp.asarray(a[0]).astype(jnp.float32)) * 0.0 == 0.0, leaves_t, leaves_t, a)

        # steering: integer scalar operands take out-of-range / negative values too
        steer = [xs]
        int_scalars = [k for k, x in enumerate(xs) if x.shape == () and x.dtype.kind in "iu"]
        for k in int_scalars:
            for val in (-1, 0, 2, 6, 11, 1000):
                alt = list(xs)
                alt[k] = np.asarray(val, xs[k].dtype)
                steer.append(alt)
        for cname, cfn in (("function_body", in_function), ("cond_branch", in_cond)):
            rec: dict[str, Any] = {"i": i, "key": C.key_of(tp), "context": cname, "per_opset": {}, "status": "ok"}
            prev = bool(jax.config.jax_enable_x64)
            jax.config.update("jax_enable_x64", double)
            refs = []
            try:
                for a in steer:
                    try:
                        refs.append([np.asarray(v) for v in jax.tree_util.tree_leaves(fn(*[jnp.asarray(v) for v in a]))])
                    except Exception:  # noqa: BLE001
                        refs.append(None)
            finally:
                jax.config.update("jax_enable_x64", prev)
            for ops in opsets:
                pr: dict[str, Any] = {}
                try:
                    m = jax2onnx.to_onnx(cfn, [jax.ShapeDtypeStruct(x.shape, x.dtype) for x in xs], enable_double_precision=double, opset=ops)
                except Exception as ex:  # noqa: BLE001
                    pr["export_error"] = f"{type(ex).__name__}: {str(ex)[:140]}"
                    rec["per_opset"][str(ops)] = pr
                    continue
                pr["declared"] = {o.domain or "": o.version for o in m.opset_import}.get("", None)
                pr["events"] = node_events(m)
                try:
                    onnx.checker.check_model(m, full_check=True)
                    pr["checker"] = "ok"
                except Exception as ex:  # noqa: BLE001
                    pr["checker"] = str(ex)[:200]
                st, why = classify_ort_load(m)
                pr["ort"], pr["ort_why"] = st, why
                pr["mismatch"] = []
                # skip_numeric_validation marks RNG-driven testcases -- and a few deterministic ones the project's
                # own runtime could not execute; only the random ones have no reference value
                if st == "ok" and not (tp.get("skip_numeric_validation") and str(tp.get("component", "")).startswith("random")):
                    for a, r in zip(steer, refs):
                        if r is None or any(v.dtype.kind in "fc" and not np.all(np.isfinite(v)) for v in r):
                            continue
                        try:
                            got = U.ort_run(m, C.feeds_for(m, a, {}, None))
                        except Exception as ex:  # noqa: BLE001
                            pr["mismatch"].append({"inputs": [np.asarray(v).tolist() for v in a if np.asarray(v).size < 8], "what": "run_error", "detail": str(ex)[:160]})
                            continue
                        ok = len(got) == len(r) and all(g.shape == e.shape and (np.array_equal(g, e) or (e.dtype.kind in "fc" and np.allclose(g.astype(np.float64), e.astype(np.float64), rtol=float(tp.get("rtol", 1e-4)), atol=float(tp.get("atol", 1e-5)), equal_nan=True))) for g, e in zip(got, r))
                        if not ok:
                            pr["mismatch"].append({"inputs": [np.asarray(v).tolist() for v in a if np.asarray(v).size < 8], "what": "values"})
                rec["per_opset"][str(ops)] = pr
            out.append(rec)
    return out
