"""spec -> code replay of J2O_Fusion: reductions over producers at the fusion boundary, order operations on ties.
The specification's exact integer results are the prediction; JAX eager must agree with it (binding of the spec),
the exported model run in ORT must return it."""

from __future__ import annotations

from typing import Any

import numpy as np


def build(c: dict[str, Any], dtype, via: str = "jnp"):
    import jax
    import jax.numpy as jnp

    if c["kind"] == "reduce":
        axes = tuple(c["axes"])
        keep = bool(c["keep"])
        p = c["prod"]
        ex = c["ex"][0] / c["ex"][1]
        yv = np.array([[1, 2, 3], [3, 1, 2]], dtype)

        def fn(x):
            if p == "abs":
                t = jnp.abs(x)
            elif p == "neg_abs":
                t = -jnp.abs(x)
            elif p == "mul_same":
                t = x * x
            elif p == "mul_other":
                t = x * jnp.asarray(yv)
            else:
                t = x ** (int(ex) if float(ex).is_integer() and c["ex"][1] == 1 else ex)
            if via == "method":          # ndarray.sum reaches lax.reduce_sum directly; jnp.sum is a substituted primitive of its own
                return t.sum(axis=axes, keepdims=keep)
            if via == "lax":
                r = jax.lax.reduce_sum(t, axes=tuple(a % 2 for a in axes))
                return jnp.expand_dims(r, tuple(sorted(a % 2 for a in axes))) if keep else r
            return jnp.sum(t, axis=axes, keepdims=keep)

        return fn
    if c["kind"] == "lpnorm":
        ax = c["axis"]
        axn = ax % 2

        def fn(x):
            kd = c["layout"] == "keepdims"
            t = jnp.abs(x) if c["p"] == 1 else x * x
            n = t.sum(axis=ax, keepdims=kd) if via == "method" else jnp.sum(t, axis=ax, keepdims=kd)
            if c["p"] == 2:
                n = jnp.sqrt(n)
            if c["layout"] == "restore":
                n = jnp.expand_dims(n, axn)
            elif c["layout"] == "other_side":
                n = jnp.expand_dims(n, 1 - axn)
            return x / n

        return fn
    if c["kind"] == "norm":
        ax = c["axis"]

        def fn(x):
            t = jnp.abs(x) if c["p"] == 1 else x * x
            s_ = t.sum(axis=ax, keepdims=bool(c["keep"])) if via == "method" else jnp.sum(t, axis=ax, keepdims=bool(c["keep"]))
            n = jnp.sqrt(s_) if c["p"] == 2 else s_
            return n + s_ if c["shared"] else n

        return fn
    if c["kind"] == "halfsum":
        yv = np.array([[1, 2, 3], [3, 1, 2]], dtype)
        if c["int"]:
            return lambda x: jax.lax.div(x + jnp.asarray(yv), jnp.asarray(c["k"], dtype))     # truncating
        return lambda x: (x + jnp.asarray(yv)) / c["k"]
    bins = np.array(c["bins"], dtype)
    if c["kind"] == "digitize":
        return lambda x: jnp.digitize(x, jnp.asarray(bins), right=bool(c["right"]))
    if c["kind"] == "searchsorted":
        return lambda x: jnp.searchsorted(jnp.asarray(bins), x, side="right" if c["right"] else "left")
    if c["kind"] == "argmax":
        return lambda x: (jnp.argmin if c["right"] else jnp.argmax)(jnp.asarray(bins) + x[:1] * 0)[None]
    raise AssertionError(c["kind"])


def run_cases(cases: list[dict[str, Any]]) -> dict[str, Any]:
    import jax
    import jax.numpy as jnp

    import jax2onnx
    from harness import onnxutil as U

    out: dict[str, Any] = {"n": 0, "spec_vs_jax": [], "problems": [], "export_failed": []}
    for rec in cases:
        c = rec["c"]
        for dtype in ((np.int32,) if c["kind"] == "halfsum" and c["int"] else (np.float32,) if c["kind"] in ("lpnorm", "halfsum", "norm") or (c["kind"] == "reduce" and c["prod"] == "pow" and c["ex"][1] != 1) else (np.float32, np.int32)):
          for via in (("method", "jnp", "lax") if c["kind"] == "reduce" else ("method", "jnp") if c["kind"] in ("lpnorm", "norm") else ("jnp",)):
              x = np.array(rec["x"], dtype)
              if c["kind"] not in ("reduce", "lpnorm", "halfsum", "norm"):
                  x = x.reshape(-1)
              want = np.array(rec["want"], np.int64)
              if c["kind"] in ("lpnorm", "halfsum"):      # exact rationals <<num, den>>
                  want = want[..., 0].astype(np.float64) / want[..., 1].astype(np.float64)
              fn = build(c, dtype, via)
              out["n"] += 1
              tag = {"case": c, "dtype": np.dtype(dtype).name, "via": via}
              try:
                  ref = np.asarray(fn(jnp.asarray(x)))
              except Exception as ex:  # noqa: BLE001
                  out["spec_vs_jax"].append({**tag, "why": f"JAX eager fails: {type(ex).__name__}: {str(ex)[:120]}"})
                  continue
              if not np.allclose(ref.reshape(-1).astype(np.float64), want.reshape(-1), rtol=1e-5, atol=1e-4):
                  out["spec_vs_jax"].append({**tag, "why": f"spec {want.reshape(-1).tolist()} vs JAX {ref.reshape(-1).tolist()}"})
                  continue
              try:
                  m = jax2onnx.to_onnx(fn, [jax.ShapeDtypeStruct(x.shape, dtype)])
              except Exception as ex:  # noqa: BLE001
                  out["export_failed"].append({**tag, "error": f"{type(ex).__name__}: {str(ex)[:160]}"})
                  continue
              try:
                  _, got = U.run_model(m, {m.graph.input[0].name: x})
              except Exception as ex:  # noqa: BLE001
                  out["problems"].append({**tag, "what": "invalid_model", "detail": f"the exported model does not load / run: {str(ex)[:200]}", "ops": sorted({n.op_type for n in m.graph.node})})
                  continue
              g = np.asarray(got[0])
              ops = sorted({n.op_type for n in m.graph.node})
              if g.shape != ref.shape:
                  out["problems"].append({**tag, "what": "shape", "detail": f"model {list(g.shape)} vs JAX {list(ref.shape)}", "ops": ops})
              elif np.issubdtype(ref.dtype, np.integer) and not np.array_equal(g, ref):
                  out["problems"].append({**tag, "what": "values", "detail": f"model returns {g.reshape(-1).tolist()}, J2O_Fusion and JAX say {want.reshape(-1).tolist()}", "ops": ops})
              elif not np.allclose(g.astype(np.float64).reshape(-1), want.reshape(-1), rtol=1e-5, atol=1e-4):
                  out["problems"].append({**tag, "what": "values", "detail": f"model returns {g.reshape(-1).tolist()}, J2O_Fusion and JAX say {want.reshape(-1).tolist()}", "ops": ops})
    return out
