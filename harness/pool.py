"""Process pool with per-task wall-clock kill.

Workers are ``/venv/bin/python -m harness.worker`` processes; tasks are JSON lines
``{"id":..,"fn":"harness.jobs.xxx:func","args":{...}}``; results are JSON lines.  A task that exceeds
its budget gets its worker killed and respawned and yields ``{"status":"timeout"}``.
"""

from __future__ import annotations

import json
import os
import queue
import subprocess
import threading
import time
from typing import Any, Callable, Iterable

from .common import PY, VERIF, repo_env


class _Worker:
    def __init__(self, env: dict[str, str]) -> None:
        self.env = env
        self.proc: subprocess.Popen | None = None
        self.spawn()

    def spawn(self) -> None:
        self.proc = subprocess.Popen(
            [PY, "-m", "harness.worker"],
            cwd=str(VERIF),
            env=self.env,
            stdin=subprocess.PIPE,
            stdout=subprocess.PIPE,
            stderr=subprocess.DEVNULL,
            text=True,
            bufsize=1,
        )

    def kill(self) -> None:
        if self.proc is not None:
            try:
                self.proc.kill()
                self.proc.wait(timeout=10)
            except Exception:
                pass
        self.proc = None


_IDLE: list[_Worker] = []
_IDLE_LOCK = threading.Lock()


def _shutdown_idle() -> None:
    with _IDLE_LOCK:
        ws = list(_IDLE)
        _IDLE.clear()
    for w in ws:
        try:
            assert w.proc and w.proc.stdin
            w.proc.stdin.close()
        except Exception:
            pass
    for w in ws:
        try:
            assert w.proc
            w.proc.wait(timeout=3)
        except Exception:
            w.kill()


import atexit  # noqa: E402

atexit.register(_shutdown_idle)


def run_tasks(
    tasks: Iterable[dict[str, Any]],
    *,
    nworkers: int = 12,
    timeout: float = 120.0,
    env: dict[str, str] | None = None,
    on_result: Callable[[dict[str, Any], dict[str, Any]], None] | None = None,
    fresh_each: bool = False,
) -> list[tuple[dict[str, Any], dict[str, Any]]]:
    """Run tasks; returns [(task, result)] in completion order."""
    tasks = list(tasks)
    q: "queue.Queue[dict[str, Any]]" = queue.Queue()
    for i, t in enumerate(tasks):
        t.setdefault("id", i)
        q.put(t)
    e = repo_env()
    e.update(env or {})
    results: list[tuple[dict[str, Any], dict[str, Any]]] = []
    lock = threading.Lock()
    nworkers = max(1, min(nworkers, len(tasks)))

    def loop() -> None:
        w: _Worker | None = None
        while True:
            try:
                t = q.get_nowait()
            except queue.Empty:
                break
            if w is None or w.proc is None or w.proc.poll() is not None:
                w = None
                if not env and not fresh_each:
                    with _IDLE_LOCK:
                        while _IDLE:
                            cand = _IDLE.pop()
                            if cand.proc is not None and cand.proc.poll() is None:
                                w = cand
                                break
                if w is None:
                    w = _Worker(e)
            res: dict[str, Any]
            try:
                assert w.proc and w.proc.stdin and w.proc.stdout
                w.proc.stdin.write(json.dumps(t) + "\n")
                w.proc.stdin.flush()
                box: list[str] = []

                def rd() -> None:
                    assert w and w.proc and w.proc.stdout
                    while True:
                        line = w.proc.stdout.readline()
                        if not line:
                            return
                        if line.startswith("@@RESULT "):
                            box.append(line[len("@@RESULT "):])
                            return

                th = threading.Thread(target=rd, daemon=True)
                th.start()
                th.join(t.get("timeout", timeout) + (60 if not getattr(w, "warm", False) else 0))
                if th.is_alive() or not box:
                    crashed = not th.is_alive()
                    w.kill()
                    w = None
                    res = {"status": "crash" if crashed else "timeout"}
                else:
                    w.warm = True  # type: ignore[attr-defined]
                    res = json.loads(box[0])
            except Exception as ex:  # machinery
                if w:
                    w.kill()
                w = None
                res = {"status": "crash", "error": repr(ex)}
            if fresh_each and w is not None:
                w.kill()
                w = None
            with lock:
                results.append((t, res))
            if on_result:
                try:
                    on_result(t, res)
                except Exception:
                    pass
        if w:
            if not env and not fresh_each and w.proc is not None and w.proc.poll() is None:
                with _IDLE_LOCK:
                    _IDLE.append(w)
            else:
                try:
                    assert w.proc and w.proc.stdin
                    w.proc.stdin.close()
                    w.proc.wait(timeout=5)
                except Exception:
                    w.kill()

    threads = [threading.Thread(target=loop, daemon=True) for _ in range(nworkers)]
    for th in threads:
        th.start()
    for th in threads:
        th.join()
    return results
