"""Spec -> code replay for J2O_ControlFlow: table-driven JAX templates (the loop body / predicate /
branch functions are lookup tables passed as model inputs) are exported ONCE per template with the
real converter and executed in ORT on every program TLC enumerated; ORT must return the final
state, iteration count and stacked outputs the specification predicts."""

from __future__ import annotations

from typing import Any

import numpy as np


def _templates():
    import jax
    import jax.numpy as jnp
    from jax import lax

    def t_while(s0, tb, tc):
        def cond(st):
            return tc[st[0]]

        def body(st):
            return (tb[st[0]], st[1] + 1)

        return lax.while_loop(cond, body, (s0, jnp.int32(0)))

    def t_while_nested_in_cond(s0, tb, tc, p):
        # the same loop under a conditional (nesting: Loop inside If)
        def run(s):
            return lax.while_loop(lambda st: tc[st[0]], lambda st: (tb[st[0]], st[1] + 1), (s, jnp.int32(0)))

        return lax.cond(p, run, lambda s: (s, jnp.int32(-1)), s0)

    def t_vwhile(s0, tb, tc):
        def one(s):
            return lax.while_loop(lambda st: tc[st[0]], lambda st: (tb[st[0]], st[1] + 1), (s, jnp.int32(0)))

        return jax.vmap(one)(s0)

    def mk_fori(lo, hi):
        def t_fori(s0, tb):
            # the table travels in the carry: a counted-loop body that closes over a traced value
            # is rejected by the converter (listed under unsupported constructs)
            def body(i, st):
                return (st[2][i % 3, st[0]], st[1] + 1, st[2])

            out = lax.fori_loop(lo, hi, body, (s0, jnp.int32(0), tb))
            return out[0], out[1]

        return t_fori

    def t_scan(c0, xs, tf):
        def f(c, x):
            return tf[c, x], jnp.stack([c, x])

        return lax.scan(f, c0, xs)

    def mk_scan(rev, hx, L):
        # the scan variants of the specification: reverse, and the counted scan without scanned inputs
        if hx:
            def t_scan_v(c0, xs, tf):
                return lax.scan(lambda c, x: (tf[c, x], jnp.stack([c, x])), c0, xs, reverse=rev)
        else:
            def t_scan_v(c0, xs, tf):
                del xs
                return lax.scan(lambda c, _: (tf[c, 0], jnp.stack([c, jnp.int32(0)])), c0, None, length=L, reverse=rev)

        return t_scan_v

    def t_scan_in_while(c0, xs, tf, reps):
        # scan nested in a while loop that repeats it `reps` times (Loop inside Loop)
        def body(st):
            c, k = st
            c2, _ = lax.scan(lambda c_, x: (tf[c_, x], x), c, xs)
            return (c2, k + 1)

        return lax.while_loop(lambda st: st[1] < reps, body, (c0, jnp.int32(0)))

    def t_switch(idx, s, t0, t1):
        return lax.switch(idx, [lambda v: t0[v], lambda v: t1[v]], s)

    def t_cond_bool(p, s, t0, t1):
        return lax.cond(p, lambda v: t1[v], lambda v: t0[v], s)

    return dict(t_while=t_while, t_while_nested_in_cond=t_while_nested_in_cond, t_vwhile=t_vwhile, mk_fori=mk_fori, t_scan=t_scan, mk_scan=mk_scan, t_scan_in_while=t_scan_in_while, t_switch=t_switch, t_cond_bool=t_cond_bool)


def _export(fn, specs):
    import jax

    import jax2onnx

    sds = [jax.ShapeDtypeStruct(tuple(s), d) for s, d in specs]
    return jax2onnx.to_onnx(fn, sds)


class _Runner:
    def __init__(self, model):
        from harness import onnxutil as U

        self.sess = U.ort_session(model)
        self.names = [i.name for i in self.sess.get_inputs()]

    def __call__(self, *arrs, budget_s: float = 20.0):
        """Run with a watchdog: a model that does not halt is terminated (RunOptions.terminate)."""
        import threading

        import onnxruntime as ort

        ro = ort.RunOptions()
        done = threading.Event()

        def watchdog():
            if not done.wait(budget_s):
                ro.terminate = True

        th = threading.Thread(target=watchdog, daemon=True)
        th.start()
        try:
            return self.sess.run(None, dict(zip(self.names, arrs)), run_options=ro)
        finally:
            done.set()


def replay(records: list[dict[str, Any]], jax_crosscheck_every: int = 17) -> dict[str, Any]:
    """Run every record on the real export; returns mismatches + counts."""
    import jax.numpy as jnp

    T = _templates()
    i32, b1 = np.int32, np.bool_
    out: dict[str, Any] = {"n": 0, "mismatch": [], "export_failed": [], "spec_vs_jax": [], "per_kind": {}, "templates": 0}
    runners: dict[Any, Any] = {}
    timeouts: dict[Any, int] = {}
    may_reject: set[Any] = set()

    def runner(key, fn, specs):
        if key not in runners:
            try:
                runners[key] = (_Runner(_export(fn, specs)), fn)
                out["templates"] += 1
            except Exception as ex:  # noqa: BLE001
                runners[key] = None
                if key in may_reject:
                    out.setdefault("rejected_at_export", []).append({"template": str(key), "error": f"{type(ex).__name__}: {str(ex)[:120]}"})
                else:
                    out["export_failed"].append({"template": str(key), "error": f"{type(ex).__name__}: {str(ex)[:200]}"})
        return runners[key]

    for ri, r in enumerate(records):
        k = r["k"]
        out["per_kind"][k] = out["per_kind"].get(k, 0) + 1
        cases = []  # (template key, runner, args, expected list)
        if k == "while":
            nS = len(r["tb"])
            args = (np.array(r["s0"], i32), np.array(r["tb"], i32), np.array(r["tc"], b1))
            cases.append((("while", nS), T["t_while"], [((), i32), ((nS,), i32), ((nS,), b1)], args, [r["s"], r["n"]]))
            if ri % 3 == 0:
                for p in (True, False):
                    exp = [r["s"], r["n"]] if p else [r["s0"], -1]
                    cases.append((("while_in_cond", nS), T["t_while_nested_in_cond"], [((), i32), ((nS,), i32), ((nS,), b1), ((), b1)], args + (np.array(p),), exp))
        elif k == "vwhile":
            nS = len(r["tb"])
            args = (np.array(r["s0"], i32), np.array(r["tb"], i32), np.array(r["tc"], b1))
            cases.append((("vwhile", nS), T["t_vwhile"], [((2,), i32), ((nS,), i32), ((nS,), b1)], args, [r["s"], r["n"]]))
        elif k == "fori":
            nS = len(r["tb"][0])
            args = (np.array(r["s0"], i32), np.array(r["tb"], i32))
            cases.append((("fori", r["lo"], r["hi"], nS), T["mk_fori"](r["lo"], r["hi"]), [((), i32), ((3, nS), i32)], args, [r["s"], r["n"]]))
        elif k == "scan":
            nS = len(r["tf"])
            L = len(r["xs"])
            xs = np.array(r["xs"], i32).reshape(L)
            ys = np.array(r["ys"], i32).reshape(L, 2)
            args = (np.array(r["c0"], i32), xs, np.array(r["tf"], i32))
            rev, hx = bool(r.get("rev", False)), bool(r.get("hx", True))
            if rev or not hx:
                # variant programs: the specification's JAX machine gives the expected result; where the
                # specification has no wiring (reject) the export may raise instead
                key = ("scan_variant", rev, hx, L, nS)
                if r.get("reject"):
                    may_reject.add(key)
                cases.append((key, T["mk_scan"](rev, hx, L), [((), i32), ((L,), i32), ((nS, 2), i32)], args, [r["s"], ys]))
            else:
                cases.append((("scan", L, nS), T["t_scan"], [((), i32), ((L,), i32), ((nS, 2), i32)], args, [r["s"], ys]))
            if L > 0 and not rev and hx:
                cases.append((("scan_sym", nS), T["t_scan"], [((), i32), (("L",), i32), ((nS, 2), i32)], args, [r["s"], ys]))
            if ri % 11 == 0 and L > 0 and not rev and hx:
                # nested: repeat the scan `reps` times inside a while loop; expectation by iterating the spec's scan
                for reps in (0, 2):
                    c = r["c0"]
                    for _ in range(reps):
                        for x in r["xs"]:
                            c = r["tf"][c][x]
                    cases.append((("scan_in_while", L, nS), T["t_scan_in_while"], [((), i32), ((L,), i32), ((nS, 2), i32), ((), i32)], args + (np.array(reps, i32),), [c, reps]))
        elif k == "cond":
            nS = len(r["t0"])
            args = (np.array(r["idx"], i32), np.array(r["s0"], i32), np.array(r["t0"], i32), np.array(r["t1"], i32))
            cases.append((("switch", nS), T["t_switch"], [((), i32), ((), i32), ((nS,), i32), ((nS,), i32)], args, [r["s"]]))
            if r["idx"] in (0, 1):
                a2 = (np.array(bool(r["idx"])),) + args[1:]
                cases.append((("cond_bool", nS), T["t_cond_bool"], [((), b1), ((), i32), ((nS,), i32), ((nS,), i32)], a2, [r["s"]]))
        for key, fn, specs, args, exp in cases:
            rn = runner(key, fn, specs)
            if rn is None or timeouts.get(key, 0) >= 3:
                continue
            out["n"] += 1
            try:
                got = rn[0](*args, budget_s=6.0)
            except Exception as ex:  # noqa: BLE001
                if "erminat" in str(ex):
                    timeouts[key] = timeouts.get(key, 0) + 1
                out["mismatch"].append({"template": str(key), "record": r, "got": f"ORT error: {str(ex)[:200]}", "expected": _js(exp)})
                continue
            ok = len(got) == len(exp) and all(np.array_equal(np.asarray(g), np.asarray(e)) and np.asarray(g).shape == np.asarray(e).shape for g, e in zip(got, exp))
            if not ok:
                out["mismatch"].append({"template": str(key), "record": r, "got": _js(got), "expected": _js(exp)})
            if (out["n"] % jax_crosscheck_every) == 0:
                import jax

                ref = jax.tree_util.tree_leaves(fn(*[jnp.asarray(a) for a in args]))
                okj = len(ref) == len(exp) and all(np.array_equal(np.asarray(g), np.asarray(e)) for g, e in zip(ref, exp))
                if not okj:
                    out["spec_vs_jax"].append({"template": str(key), "record": r, "jax": _js(ref), "spec": _js(exp)})
    return out


def _js(xs):
    return [np.asarray(x).tolist() for x in xs]


def unsupported_constructs() -> list[dict[str, Any]]:
    """Constructs the converter cannot represent must be rejected at export time (C06 / C16)."""
    import jax
    import jax.numpy as jnp
    from jax import lax

    import jax2onnx

    i32 = np.int32
    cases = {
        "switch_3way": (lambda i, s: lax.switch(i, [lambda v: v + 1, lambda v: v + 2, lambda v: v + 3], s), [((), i32), ((), i32)], (np.array(2, i32), np.array(5, i32))),
        "scan_reverse": (lambda c, xs: lax.scan(lambda c_, x: (c_ * 2 + x, c_), c, xs, reverse=True), [((), i32), ((3,), i32)], (np.array(1, i32), np.array([1, 2, 3], i32))),
        "fori_dynamic_bounds": (lambda n, s: lax.fori_loop(0, n, lambda i, v: v + i, s), [((), i32), ((), i32)], (np.array(3, i32), np.array(5, i32))),
        "fori_body_captures_tracer": (lambda s, t: lax.fori_loop(0, 2, lambda i, v: t[v], s), [((), i32), ((3,), i32)], (np.array(1, i32), np.array([2, 0, 1], i32))),
        "scan_length_only": (lambda c: lax.scan(lambda c_, _: (c_ + 1, c_), c, None, length=3), [((), i32)], (np.array(1, i32),)),
    }
    out = []
    for name, (fn, specs, args) in cases.items():
        rec: dict[str, Any] = {"construct": name}
        try:
            m = _export(fn, specs)
            rec["exported"] = True
        except Exception as ex:  # noqa: BLE001
            rec["exported"] = False
            rec["error"] = f"{type(ex).__name__}: {str(ex)[:160]}"
            out.append(rec)
            continue
        # exported: then it must be right
        try:
            got = _Runner(m)(*args)
            ref = jax.tree_util.tree_leaves(fn(*[jnp.asarray(a) for a in args]))
            rec["correct"] = len(got) == len(ref) and all(np.array_equal(np.asarray(g), np.asarray(e)) for g, e in zip(got, ref))
            rec["got"], rec["ref"] = _js(got), _js(ref)
        except Exception as ex:  # noqa: BLE001
            rec["correct"] = False
            rec["got"] = f"ORT error: {str(ex)[:200]}"
        out.append(rec)
    return out


def while_iteration_traces(records: list[dict[str, Any]], tid0: int = 0) -> list[dict[str, Any]]:
    """Run the exported while template in the ONNX reference evaluator with a tracing Loop kernel;
    return Prog / Iter / Done events for J2O_ControlFlowTrace."""
    from onnx.reference import ReferenceEvaluator
    from onnx.reference.ops.op_loop import Loop as RefLoop

    T = _templates()
    i32, b1 = np.int32, np.bool_
    log: list[dict[str, Any]] = []
    cur = {"tid": 0}

    class Loop(RefLoop):  # noqa: D401 - kernel with the name the evaluator dispatches on
        op_domain = ""

        def __init__(self, onnx_node, run_params):
            RefLoop.__init__(self, onnx_node, run_params)
            inner = self._run_body  # instance attribute installed by OpRun for the graph attribute

            def traced(inputs, attributes=None):
                names = self.body.input_names
                if len(log) > 64:
                    raise RuntimeError("iteration cap exceeded: the exported loop does not halt")
                outs = inner(inputs, attributes=attributes)
                onames = self.body.output_names
                st_in = [inputs[n] for n in names[2:]]
                st_out = [outs[self.output_index[o]] for o in onames[1:1 + len(names) - 2]]
                log.append({"names_in": list(names), "it": int(np.asarray(inputs[names[0]])), "cond_in": bool(np.asarray(inputs[names[1]])),
                            "st_in": st_in, "st_out": st_out, "cond_out": bool(np.asarray(outs[self.output_index[onames[0]]]))})
                return outs

            self._run_body = traced

    events: list[dict[str, Any]] = []
    models: dict[int, Any] = {}
    for k, r in enumerate(records):
        if r["k"] != "while":
            continue
        nS = len(r["tb"])
        if nS not in models:
            m = _export(T["t_while"], [((), i32), ((nS,), i32), ((nS,), b1)])
            models[nS] = (m, ReferenceEvaluator(m, new_ops=[Loop]))
        m, ev = models[nS]
        names = [i.name for i in m.graph.input]
        del log[:]
        tid = tid0 + k
        try:
            outs = ev.run(None, dict(zip(names, (np.array(r["s0"], i32), np.array(r["tb"], i32), np.array(r["tc"], b1)))))
        except RuntimeError as ex:
            if "iteration cap" not in str(ex):
                raise
            events.append({"tid": tid, "ev": "Prog", "tb": r["tb"], "tc": r["tc"], "s0": r["s0"]})
            events.append({"tid": tid, "ev": "Done", "s": -1, "n": -1})
            continue
        events.append({"tid": tid, "ev": "Prog", "tb": r["tb"], "tc": r["tc"], "s0": r["s0"]})
        for it in log:
            # identify the carried state `s` and counter: the template carries (.., s, n) as the scalar int32 states
            scal_in = [int(np.asarray(v)) for v in it["st_in"] if np.asarray(v).shape == () and np.asarray(v).dtype == np.int32]
            scal_out = [int(np.asarray(v)) for v in it["st_out"] if np.asarray(v).shape == () and np.asarray(v).dtype == np.int32]
            if len(scal_in) < 2 or len(scal_out) < 2:
                return [{"error": "cannot project loop state", "names": it["names_in"]}]
            events.append({"tid": tid, "ev": "Iter", "it": it["it"], "cond_in": it["cond_in"], "s_in": scal_in[-2], "s_out": scal_out[-2], "cond_out": it["cond_out"], "n_in": scal_in[-1]})
        events.append({"tid": tid, "ev": "Done", "s": int(np.asarray(outs[0])), "n": int(np.asarray(outs[1]))})
    return events
