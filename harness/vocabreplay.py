"""Vocabulary sweep for the optimizer (C02 / C12 / C17): the op-name sets the REAL passes consult
(ELEMENTWISE_UNARY_OPS, ELEMENTWISE_BINARY_OPS, ALLOWED_ELEMWISE, UNARY_DATAFLOW_OPS,
_INTEGER_VALUE_PRESERVING_OPS, ...) are facts read from the working tree.  Every op name found in a
layout set is instantiated -- generically, from its ONNX schema -- inside the pattern neighbourhoods
of J2O_Patterns (Transpose pair around it, Reshape pair around it, with and without a neighbour) for
every axis-like attribute value and every side-operand kind, pushed through the real passes and
compared in ORT before / after.  The specification side (J2O_GraphRewrite `OpClass`) says which op
classes commute with a layout change; an implementation set that contains an op of another class
is a TLC counterexample (MC_GraphVocab.cfg) -- the alarm itself comes only from the ORT differential."""

from __future__ import annotations

from typing import Any

import numpy as np

# op classes of the specification (J2O_GraphRewrite.OpClass): which ONNX ops are pointwise
POINTWISE_UNARY = {
    "Abs", "Acos", "Acosh", "Asin", "Asinh", "Atan", "Atanh", "BitwiseNot", "Cast", "CastLike", "Ceil", "Celu", "Clip", "Cos",
    "Cosh", "Dropout", "Elu", "Erf", "Exp", "Floor", "Gelu", "HardSigmoid", "HardSwish", "Identity", "IsInf", "IsNaN",
    "LeakyRelu", "Log", "Mish", "Neg", "Not", "Reciprocal", "Relu", "Round", "Selu", "Shrink", "Sigmoid", "Sign", "Sin", "Sinh",
    "Softplus", "Softsign", "Sqrt", "Swish", "Tan", "Tanh", "ThresholdedRelu",
}
POINTWISE_BINARY = {"Add", "And", "BitwiseAnd", "BitwiseOr", "BitwiseXor", "Div", "Equal", "Greater", "GreaterOrEqual", "Less",
                    "LessOrEqual", "Max", "Mean", "Min", "Mod", "Mul", "Or", "Pow", "PRelu", "Sub", "Sum", "Xor", "Where"}


def op_class(op: str) -> str:
    if op in POINTWISE_UNARY:
        return "pointwise"
    if op in POINTWISE_BINARY:
        return "pointwise_nary"
    if op in ("Softmax", "LogSoftmax", "Hardmax", "CumSum", "ArgMax", "ArgMin", "LpNormalization", "MeanVarianceNormalization",
              "LayerNormalization", "TopK", "ReduceMean", "ReduceSum", "ReduceMax", "ReduceMin", "ReduceProd", "Flatten", "Concat",
              "Split", "Gather", "Squeeze", "Unsqueeze", "Transpose", "Slice", "Tile", "Pad"):
        return "axis"
    return "unknown"


SELECTS_FIRST = {"Reshape", "Transpose", "Squeeze", "Unsqueeze", "Flatten", "Identity", "Expand", "Gather", "GatherElements", "GatherND",
                 "Slice", "Tile", "DepthToSpace", "SpaceToDepth", "ReverseSequence", "Compress", "Split"}


def int_class(op: str) -> str:
    """Class of an operator for the static integer-range prover (J2O_Vocab.IntClassOf)."""
    if op in SELECTS_FIRST:
        return "selects_first"
    if op in ("Concat", "Where", "ScatterElements", "ScatterND", "Pad"):
        return "joins"
    if op in POINTWISE_BINARY:
        return "pointwise_nary"
    if op in POINTWISE_UNARY:
        return "pointwise"
    return "unknown"


def impl_sets() -> dict[str, list[str]]:
    """Every module-level set / frozenset of ONNX operator names in ir_optimizations (facts)."""
    import onnx.defs as od
    from jax2onnx.converter import ir_optimizations as io

    known = {s.name for s in od.get_all_schemas_with_history()}
    out = {}
    for name, val in vars(io).items():
        if isinstance(val, (set, frozenset)) and val and all(isinstance(x, str) for x in val):
            ops = sorted(x for x in val if x in known)
            if len(ops) >= max(1, len(val) // 2):
                out[name] = ops
    return out


def _schema(op: str, opset: int):
    import onnx.defs as od

    try:
        return od.get_schema(op, opset, "")
    except Exception:  # noqa: BLE001
        return None


def instantiations(op: str) -> list[dict[str, Any]]:
    """Generic instantiations of an ONNX op as `y = op(x, sides...)` with y shaped like x.
    Returns dicts: {opset, dtype, attrs, sides: [kind...], label}."""
    import onnx.defs as od

    sch = None
    opset = 21
    for v in (21, 22, 23, 24):
        sch = _schema(op, v)
        if sch is not None:
            opset = v
            break
    if sch is None:
        return []
    allowed = set()
    if sch.inputs:
        ts = sch.inputs[0].type_str
        for tc in sch.type_constraints:
            if tc.type_param_str == ts:
                allowed = set(tc.allowed_type_strs)
        if not allowed:
            allowed = {ts}
    if "tensor(float)" in allowed:
        dtype = "FLOAT"
    elif "tensor(bool)" in allowed:
        dtype = "BOOL"
    elif "tensor(int32)" in allowed:
        dtype = "INT32"
    else:
        return []
    nmin = sch.min_input
    attr_variants: list[dict[str, Any]] = [{}]
    for an, a in sch.attributes.items():
        if a.required:
            if op == "Cast" and an == "to":
                attr_variants = [dict(v, to=11) for v in attr_variants]
            else:
                return []
        elif an == "axis":
            attr_variants = [dict(v, axis=ax) for v in attr_variants for ax in (-1, 0, 1)] + attr_variants
        elif an == "axes":
            attr_variants = [dict(v, axes=[ax]) for v in attr_variants for ax in (0, 2)] + attr_variants
    side_sets: list[list[str]]
    if op == "Clip":
        side_sets = [["scalar", "scalar_hi"]]
    elif op == "CastLike":
        side_sets = [["like_double"]]
    elif op == "Where":
        return []
    elif nmin <= 1 and op not in POINTWISE_BINARY:
        side_sets = [[]]
    else:
        k = max(nmin, 2) - 1
        side_sets = [[s] * k for s in ("scalar", "vec", "full")]
    out = []
    for av in attr_variants:
        for ss in side_sets:
            out.append({"op": op, "opset": opset, "dtype": dtype, "attrs": av, "sides": ss,
                        "label": op + ("" if not av else str(sorted(av.items()))) + ("" if not ss else ":" + "+".join(ss))})
    return out


def vocab_graphs(sets: dict[str, list[str]], quick: bool) -> list[dict[str, Any]]:
    """Pattern neighbourhoods around every instantiation of every op in a layout-relevant set."""
    layout_sets = {k: v for k, v in sets.items() if "INTEGER_VALUE" not in k}
    ops = sorted({o for v in layout_sets.values() for o in v})
    graphs = []
    perms = [[0, 2, 1], [1, 2, 0]] if quick else [[0, 2, 1], [1, 2, 0], [2, 0, 1], [2, 1, 0], [1, 0, 2]]
    shapes = [[2, 2, 3]] if quick else [[2, 2, 3], [2, 3, 4], [2, 2, 2]]
    for op in ops:
        for inst in instantiations(op):
            member_of = sorted(k for k, v in layout_sets.items() if op in v)
            for sh in shapes:
                for p in perms:
                    inv = [p.index(i) for i in range(3)]
                    for nb in ("none", "relu_after", "relu_before"):
                        if quick and nb == "relu_before":
                            continue
                        graphs.append({"kind": "vocab", "pattern": "tpair", "inst": inst, "sh": sh, "perm": p, "inv": inv, "nb": nb, "sets": member_of})
                for mid in ([sh[0] * sh[1], sh[2]], [sh[0], sh[1] * sh[2]]) if not quick else ([sh[0] * sh[1], sh[2]],):
                    graphs.append({"kind": "vocab", "pattern": "rpair", "inst": inst, "sh": sh, "mid": mid, "nb": "none", "sets": member_of})
    return graphs


_NP = {"FLOAT": (1, np.float32), "BOOL": (9, np.bool_), "INT32": (6, np.int32), "DOUBLE": (11, np.float64)}


def build_vocab_model(g: dict[str, Any]):
    from onnx import helper as oh

    from harness import onnxutil as U

    inst = g["inst"]
    code, npdt = _NP[inst["dtype"]]
    sh = list(g["sh"])
    n = int(np.prod(sh))
    base = (np.arange(n) * 7 % 13 - 6).reshape(sh)
    if inst["dtype"] == "FLOAT":
        x = (base / 4.0 + 0.125).astype(npdt)
    elif inst["dtype"] == "BOOL":
        x = (base % 3 == 0)
    else:
        x = base.astype(npdt)
    nodes, inits, vinfo = [], [], []
    if g["pattern"] == "tpair":
        mid_sh = [sh[i] for i in g["perm"]]
        nodes.append(oh.make_node("Transpose", ["in_0"], ["t1"], perm=g["perm"], name="n_t1"))
    else:
        mid_sh = list(g["mid"])
        inits.append(U.const("s1", np.array(mid_sh, np.int64)))
        nodes.append(oh.make_node("Reshape", ["in_0", "s1"], ["t1"], name="n_t1"))
    vinfo.append(U.vi("t1", code, mid_sh))
    cur = "t1"
    cur_code = code

    def add_relu(src, dst):
        nodes.append(oh.make_node("Relu" if inst["dtype"] != "BOOL" else "Not", [src], [dst], name="n_" + dst))
        vinfo.append(U.vi(dst, code, mid_sh))

    if g["nb"] == "relu_before":
        add_relu(cur, "rb")
        cur = "rb"
    ins = [cur]
    for j, kind in enumerate(inst["sides"]):
        cn = f"side{j}"
        if kind == "scalar":
            arr = np.array(0.25 if inst["dtype"] == "FLOAT" else 1).astype(npdt)
        elif kind == "scalar_hi":
            arr = np.array(1.0 if inst["dtype"] == "FLOAT" else 2).astype(npdt)
        elif kind == "like_double":
            arr = np.array(0.0, np.float64)
        elif kind == "vec":
            arr = ((np.arange(mid_sh[-1]) % 3 - 1) / 2.0 + 0.25).astype(npdt) if inst["dtype"] == "FLOAT" else (np.arange(mid_sh[-1]) % 2).astype(npdt)
        else:
            m = int(np.prod(mid_sh))
            arr = (((np.arange(m) * 5) % 7 - 3) / 2.0 + 0.25).reshape(mid_sh).astype(npdt) if inst["dtype"] == "FLOAT" else ((np.arange(m) * 5) % 2).reshape(mid_sh).astype(npdt)
        inits.append(U.const(cn, arr))
        ins.append(cn)
    out_code = cur_code
    if inst["op"] == "Cast" or inst["op"] == "CastLike":
        out_code = 11
    schema_out_bool = inst["op"] in ("Equal", "Greater", "GreaterOrEqual", "Less", "LessOrEqual", "IsInf", "IsNaN")
    if schema_out_bool:
        out_code = 9
    nodes.append(oh.make_node(inst["op"], ins, ["y"], name="n_y", **inst["attrs"]))
    vinfo.append(U.vi("y", out_code, mid_sh))
    cur = "y"
    if g["nb"] == "relu_after" and out_code == code:
        add_relu(cur, "ra")
        cur = "ra"
    if g["pattern"] == "tpair":
        nodes.append(oh.make_node("Transpose", [cur], ["out"], perm=g["inv"], name="n_t2"))
    else:
        inits.append(U.const("s2", np.array(sh, np.int64)))
        nodes.append(oh.make_node("Reshape", [cur, "s2"], ["out"], name="n_t2"))
    m = U.model(nodes, [U.vi("in_0", code, sh)], [U.vi("out", out_code, sh)], inits, opset=inst["opset"], value_info=vinfo)
    return m, {"in_0": x}


def replay_vocab(graphs: list[dict[str, Any]]) -> list[dict[str, Any]]:
    import onnx
    import onnx_ir as ir
    from jax2onnx.converter import ir_optimizations as io

    from harness import onnxutil as U
    from harness.graphreplay import _compare

    out = []
    for gi, g in enumerate(graphs):
        inst = g["inst"]
        rec: dict[str, Any] = {"i": gi, "status": "ok", "changed_passes": [],
                               "sig": {"kind": "vocab", "pattern": g["pattern"], "op": inst["op"], "label": inst["label"], "nb": g["nb"], "sets": g["sets"]}}
        try:
            m0, feeds = build_vocab_model(g)
            onnx.checker.check_model(m0, full_check=True)
            kind, ref = U.run_model(m0, feeds)
        except Exception as ex:  # noqa: BLE001
            rec["status"] = "unbuildable"
            rec["why"] = f"{type(ex).__name__}: {str(ex)[:160]}"
            out.append(rec)
            continue
        im = ir.from_proto(m0)
        prev = m0.SerializeToString()
        bad = None
        for p in io._OPTIMIZER_PASSES:
            try:
                io._run_top_level_optimizer_pass(p, im)
            except Exception as ex:  # noqa: BLE001
                rec["pass_raised"] = {"pass": p.name, "error": f"{type(ex).__name__}: {str(ex)[:160]}"}
                break
            cur_m = ir.to_proto(im)
            cur = cur_m.SerializeToString()
            if cur == prev:
                continue
            prev = cur
            rec["changed_passes"].append(p.name)
            if kind == "ort":
                v = _compare(cur_m, feeds, ref, U)
            else:
                try:
                    got = U.ref_run(cur_m, feeds)
                    v = None if len(got) == len(ref) and all(U.same_array(a, b) for a, b in zip(ref, got)) else {"how": "value", "detail": "reference evaluator outputs differ"}
                except Exception as ex:  # noqa: BLE001
                    v = {"how": "invalid_model", "detail": str(ex)[:200]}
            if v is not None:
                bad = {"pass": p.name, **v}
                break
        rec["nodes_after"] = len(ir.to_proto(im).graph.node)
        if bad is not None:
            rec["status"] = "violation"
            rec["bad"] = bad
        out.append(rec)
    return out


# ---------------------------------------------------------------------------------------------
# C17: members of _INTEGER_VALUE_PRESERVING_OPS between a bounded Range and a narrowing cast pair
# ---------------------------------------------------------------------------------------------
_INT_OPERANDS = {
    # op -> (extra inputs after the data operand, attrs); "x" = run-time tensor of the data type,
    # ("c", array) = integer constant
    "Concat": (["x"], {"axis": 0}),
    "Gather": ([("c", np.array([0, 5, 99], np.int64))], {"axis": 0}),
    "Slice": ([("c", np.array([0], np.int64)), ("c", np.array([50], np.int64))], {}),
    "Tile": ([("c", np.array([2], np.int64))], {}),
    "Expand": ([("c", np.array([2, 100], np.int64))], {}),
    "Reshape": ([("c", np.array([10, 10], np.int64))], {}),
    "Squeeze": ([], {}),
    "Unsqueeze": ([("c", np.array([0], np.int64))], {}),
    "Transpose": ([], {}),
    "Flatten": ([], {"axis": 0}),
    "Identity": ([], {}),
    "Pad": ([("c", np.array([1, 1], np.int64)), "xs"], {}),
    "Where": None,
}


def int_vocab_cases(ops: list[str]) -> list[dict[str, Any]]:
    out = []
    for op in ops:
        for src, mid in (("INT32", "INT8"), ("INT64", "UINT8")):
            out.append({"op": op, "src": src, "mid": mid})
    return out


def replay_int_vocab(cases: list[dict[str, Any]]) -> list[dict[str, Any]]:
    """Range(0, 100) -> op(range, run-time operands with out-of-range values) -> Cast(narrow) -> Cast(back)."""
    import onnx
    import onnx.defs as od
    import onnx_ir as ir
    from onnx import TensorProto as TP
    from onnx import helper as oh
    from jax2onnx.converter import ir_optimizations as io

    from harness import onnxutil as U

    res = []
    for c in cases:
        op = c["op"]
        rec: dict[str, Any] = {"op": op, "src": c["src"], "mid": c["mid"], "status": "ok"}
        code = getattr(TP, c["src"])
        npdt = np.int32 if c["src"] == "INT32" else np.int64
        spec = _INT_OPERANDS.get(op, "generic")
        extra: list[Any]
        attrs: dict[str, Any]
        if spec is None:
            rec["status"] = "uninstantiable"
            res.append(rec)
            continue
        if spec == "generic":
            sch = None
            for v in (21, 22, 23, 24):
                try:
                    sch = od.get_schema(op, v, "")
                    break
                except Exception:  # noqa: BLE001
                    continue
            if sch is None or not sch.inputs or any(a.required for a in sch.attributes.values()):
                rec["status"] = "uninstantiable"
                res.append(rec)
                continue
            t0 = sch.inputs[0].type_str
            extra = []
            ok = True
            for inp in sch.inputs[1:max(sch.min_input, 2)]:
                if inp.type_str == t0:
                    extra.append("x")
                else:
                    ok = False
            if not ok:
                rec["status"] = "uninstantiable"
                res.append(rec)
                continue
            attrs = {}
        else:
            extra, attrs = spec
        inits = [U.const("start", np.array(0, npdt)), U.const("limit", np.array(100, npdt)), U.const("delta", np.array(1, npdt))]
        nodes = [oh.make_node("Range", ["start", "limit", "delta"], ["r"], name="range")]
        ins = ["r"]
        inputs = []
        feeds = {}
        for j, e in enumerate(extra):
            if e == "x":
                inputs.append(U.vi(f"x{j}", code, [100]))
                feeds[f"x{j}"] = (np.array([200, -300, 70000, -129, 128, 255, 256, -1] * 13)[:100]).astype(npdt)
                ins.append(f"x{j}")
            elif e == "xs":
                inputs.append(U.vi(f"x{j}", code, []))
                feeds[f"x{j}"] = np.array(70000, npdt)
                ins.append(f"x{j}")
            else:
                inits.append(U.const(f"k{j}", e[1]))
                ins.append(f"k{j}")
        nodes.append(oh.make_node(op, ins, ["y"], name="op", **attrs))
        nodes.append(oh.make_node("Cast", ["y"], ["m"], to=getattr(TP, c["mid"]), name="c1"))
        nodes.append(oh.make_node("Cast", ["m"], ["z"], to=code, name="c2"))
        nodes.append(oh.make_node("Identity", ["z"], ["out"], name="id"))
        m0 = U.model(nodes, inputs, [U.vi("out", code, None)], inits, opset=21,
                     value_info=[U.vi("r", code, [100]), U.vi("y", code, None), U.vi("m", getattr(TP, c["mid"]), None), U.vi("z", code, None)])
        try:
            before = U.ort_run(m0, feeds)
        except Exception as ex:  # noqa: BLE001
            rec["status"] = "uninstantiable"
            rec["why"] = str(ex)[:120]
            res.append(rec)
            continue
        im = ir.from_proto(m0)
        io.remove_redundant_casts_ir(im.graph)
        m1 = ir.to_proto(im)
        rec["casts_after"] = sum(1 for n in m1.graph.node if n.op_type == "Cast")
        try:
            after = U.ort_run(m1, feeds)
            rec["same"] = U.same_array(before[0], after[0])
            if not rec["same"]:
                bad = np.flatnonzero(before[0].ravel() != after[0].ravel())
                rec["witness"] = {"index": int(bad[0]), "before": int(before[0].ravel()[bad[0]]), "after": int(after[0].ravel()[bad[0]])}
        except Exception as ex:  # noqa: BLE001
            rec["same"] = False
            rec["witness"] = {"invalid_after": str(ex)[:160]}
        res.append(rec)
    return res
