"""C07: call-site configurations enumerated by TLC (J2O_FnDedup) are instantiated with real
@onnx_function targets; the decorated export must equal the undecorated export and JAX, define at
least one function per distinct semantics, and every call node must match its definition."""

from __future__ import annotations

from typing import Any

import numpy as np

KINDS = ["plain", "nnx", "nnx_nested", "eqx", "free"]


def _classes(kind: str, unique: bool):
    from harness import userfns as U

    table = {
        ("plain", False): (U.PlainShared, U._PlainBase), ("plain", True): (U.PlainUnique, U._PlainBase),
        ("nnx", False): (getattr(U, "NnxShared", None), getattr(U, "_NnxBase", None)), ("nnx", True): (getattr(U, "NnxUnique", None), getattr(U, "_NnxBase", None)),
        ("nnx_nested", False): (getattr(U, "NnxNestedShared", None), getattr(U, "_NnxNestedBase", None)), ("nnx_nested", True): (getattr(U, "NnxNestedUnique", None), getattr(U, "_NnxNestedBase", None)),
        ("eqx", False): (getattr(U, "EqxShared", None), getattr(U, "_EqxBase", None)), ("eqx", True): (getattr(U, "EqxUnique", None), getattr(U, "_EqxBase", None)),
    }
    return table[(kind, unique)]


def _wcfg(tab: str, inst: int) -> tuple[int, int]:
    return (2 if (inst == 2 and tab in ("other_weights", "homonym")) else 1, 2 if (inst == 2 and tab == "other_config") else 1)


def build(cfg: dict[str, Any], kind: str):
    """Return (decorated fn, undecorated fn, specs, kwargs, inputs)."""
    import jax.numpy as jnp

    from harness import userfns as U

    unique = bool(cfg["unique"])
    tab = cfg["tab"]
    sites = cfg["sites"]
    uses_param = any(s["kw"] == "param" for s in sites)

    def make(decorated: bool):
        if kind == "free":
            f = (U.free_unique if unique else U.free_shared)
            objs = {1: (lambda *a, **k: (U.free_unique if unique else U.free_shared)(*a, **k)) if decorated else U._free_impl, 2: None}
            objs[2] = objs[1]
            # module attribute lookup at call time is required for the patch to take effect
            if decorated:
                name = "free_unique" if unique else "free_shared"
                objs = {i: (lambda *a, _n=name, **k: getattr(U, _n)(*a, **k)) for i in (1, 2)}
        else:
            dec, base = _classes(kind, unique)
            cls = dec if decorated else base
            objs = {i: cls(*_wcfg(tab, i)) for i in (1, 2)}
            if tab == "homonym" and decorated and kind == "plain":
                # object 2 belongs to another decorated class with the same display name
                objs[2] = (U.PlainUniqueHomonym if unique else U.PlainSharedHomonym)(*_wcfg(tab, 2))

        def fn(xa, xb, xc, xd, flip=None):
            xs = {(1, 1): xa, (2, 1): xb, (1, 2): xc, (2, 2): xd}
            outs = []
            for s in sites:
                x = xs[(s["shp"], s["dt"])]
                kw = {}
                if s["kw"] == "s1":
                    kw["scale"] = 1.5
                elif s["kw"] == "s2":
                    kw["scale"] = 2.5
                elif s["kw"] == "traced":
                    kw["scale"] = jnp.sum(xa) * 0.0 + 1.75
                elif s["kw"] == "param":
                    kw["flip"] = flip          # a boolean call-time flag (what input_params is designed for)
                elif s["kw"] == "ab":
                    # two traced keyword arguments; Python keeps the order they are written in
                    kw["scale"] = jnp.sum(xa) * 0.0 + 1.75
                    kw["shift"] = jnp.sum(xa) * 0.0 + 0.5
                elif s["kw"] == "ba":
                    kw["shift"] = jnp.sum(xa) * 0.0 + 0.5
                    kw["scale"] = jnp.sum(xa) * 0.0 + 1.75
                if s.get("scope", "top") == "body":
                    si = len(outs) + 1
                    U.SITE_CALL[si] = (lambda v, _o=objs[s["inst"]], _kw=kw: _o(v, **_kw))
                    if decorated:
                        outs.append(getattr(U, f"outer_body_{si}")(x))
                    else:
                        outs.append(U.SITE_CALL[si](x) + 0.0)
                else:
                    outs.append(objs[s["inst"]](x, **kw))
            return tuple(outs)

        return fn

    import jax

    specs = [jax.ShapeDtypeStruct((2, 3), np.float32), jax.ShapeDtypeStruct((4, 3), np.float32), jax.ShapeDtypeStruct((2, 3), np.int32), jax.ShapeDtypeStruct((4, 3), np.int32)]
    kwargs = {"input_params": {"flip": True}} if uses_param else {}
    xs = [((np.arange(6) - 2.5) / 2.0).reshape(2, 3).astype(np.float32), ((np.arange(12) % 5 - 2.0) / 4.0).reshape(4, 3).astype(np.float32),
          (np.arange(6) - 3).reshape(2, 3).astype(np.int32), (np.arange(12) % 7 - 3).reshape(4, 3).astype(np.int32)]
    return make(True), make(False), specs, kwargs, xs


def run_configs(items: list[dict[str, Any]]) -> list[dict[str, Any]]:
    import jax
    import jax.numpy as jnp

    import jax2onnx
    from harness import onnxutil as U

    out = []
    for it in items:
        cfg, kind = it["cfg"], it["kind"]
        rec: dict[str, Any] = {"problems": [], "kind": kind}
        if kind != "free" and _classes(kind, bool(cfg["unique"]))[0] is None:
            rec["status"] = "kind_unavailable"
            out.append(rec)
            continue
        if kind == "free" and (cfg["tab"] != "twin"):
            rec["status"] = "not_applicable"   # a free function has no instances with other weights
            out.append(rec)
            continue
        if any(s_.get("scope", "top") == "body" and s_["kw"] not in ("none", "s1", "s2") for s_ in cfg["sites"]):
            rec["status"] = "not_applicable"   # a traced keyword value cannot be closed over by an outer function body
            out.append(rec)
            continue
        fdec, fraw, specs, kw, xs = build(cfg, kind)
        params = dict(kw.get("input_params") or {})
        try:
            ref = [np.asarray(v) for v in fraw(*[jnp.asarray(x) for x in xs], **params)]
        except Exception as ex:  # noqa: BLE001
            rec["status"] = "reference_failed"
            rec["why"] = f"{type(ex).__name__}: {str(ex)[:160]}"
            out.append(rec)
            continue
        try:
            mdec = jax2onnx.to_onnx(fdec, specs, **kw)
        except Exception as ex:  # noqa: BLE001
            rec["status"] = "export_failed"
            rec["why"] = f"{type(ex).__name__}: {str(ex)[:200]}"
            rec["problems"].append("decorated export raised: " + rec["why"])
            out.append(rec)
            continue
        try:
            mraw = jax2onnx.to_onnx(fraw, specs, **kw)
        except Exception as ex:  # noqa: BLE001
            mraw = None
            rec["undecorated_export_error"] = f"{type(ex).__name__}: {str(ex)[:160]}"
        rec["status"] = "ok"

        def feeds(m):
            f = {}
            pos = iter(xs)
            for vi in m.graph.input:
                if vi.name in params:
                    f[vi.name] = np.asarray(params[vi.name])
                else:
                    f[vi.name] = next(pos)
            return f

        try:
            gdec = U.ort_run(mdec, feeds(mdec))
        except Exception as ex:  # noqa: BLE001
            rec["problems"].append(f"decorated model does not run: {str(ex)[:200]}")
            out.append(rec)
            continue
        for j, (g, r) in enumerate(zip(gdec, ref)):
            if g.shape != r.shape or not np.allclose(g, r, rtol=1e-5, atol=1e-6):
                rec["problems"].append(f"call site {j + 1}: decorated export differs from JAX (max abs {float(np.max(np.abs(g - r))) if g.shape == r.shape else 'shape'})")
        if mraw is not None:
            try:
                graw = U.ort_run(mraw, feeds(mraw))
                for j, (g, r) in enumerate(zip(gdec, graw)):
                    if g.shape != r.shape or not np.allclose(g, r, rtol=1e-6, atol=1e-6):
                        rec["problems"].append(f"call site {j + 1}: decorated export differs from the undecorated export")
            except Exception as ex:  # noqa: BLE001
                rec["undecorated_run_error"] = str(ex)[:160]
        # structure
        fdefs = {(f.domain, f.name): f for f in mdec.functions}
        rec["ndefs"] = len(fdefs)
        rec["nsems"] = cfg["sems"]
        if len(fdefs) < cfg["sems"]:
            rec["problems"].append(f"{len(fdefs)} function definitions for {cfg['sems']} distinct functions")
        if len(mdec.functions) != len(fdefs):
            rec["problems"].append(f"{len(mdec.functions)} FunctionProtos but only {len(fdefs)} distinct (domain, name) identifiers")
        imports = {o.domain for o in mdec.opset_import}
        ncalls = 0
        for f_ in mdec.functions:
            fimp = {o.domain for o in f_.opset_import}
            for n in f_.node:
                key = (n.domain, n.op_type)
                if key in fdefs:
                    d_ = fdefs[key]
                    if len(n.input) != len(d_.input) or len(n.output) != len(d_.output):
                        rec["problems"].append(f"nested call node {n.name} in {f_.name}: arity differs from its definition")
                    if n.domain not in fimp:
                        rec["problems"].append(f"function {f_.name} calls domain {n.domain} without importing it")
        for n in mdec.graph.node:
            key = (n.domain, n.op_type)
            if key in fdefs:
                ncalls += 1
                f = fdefs[key]
                if len(n.input) != len(f.input) or len(n.output) != len(f.output):
                    rec["problems"].append(f"call node {n.name}: {len(n.input)} inputs / {len(n.output)} outputs, definition has {len(f.input)} / {len(f.output)}")
                if n.domain not in imports:
                    rec["problems"].append(f"call node domain {n.domain} is not imported by the model")
        if ncalls == 0:
            rec["problems"].append("no function call node in the model (boundary lost)")   # identical calls may legitimately be merged
        out.append(rec)
    return out
