"""Generate /verif/MANIFEST.json from one table (run: /venv/bin/python -m harness.manifest_gen)."""

from __future__ import annotations

import json
from pathlib import Path

VERIF = Path(__file__).resolve().parent.parent

BASELINE_CMD = (
    "cd /repo && env -u J2O_VERIF_TRACE /venv/bin/python -m pytest -ra -q -p no:cacheprovider --timeout=900 "
    "--continue-on-collection-errors --junitxml=/tmp/j2o_baseline.junit.xml"
)

# id -> dict(built, category, text, note, technique, design_ref, engine)
CHECKS: dict[str, dict] = {
    "C17": dict(
        built=True,
        category="model_checking",
        technique="TLA+ spec (J2O_CastTable/CastReal/CastRange) checked by TLC on facts extracted from the tree + exhaustive NumPy round trips + real optimizer pass vs ORT",
        text=(
            "TLC validates the parametric decision rule against enumerated value sets over a complete miniature family of "
            "number formats (rule == value-set inclusion; accepted round trips are identity under nondeterministic rounding), "
            "then checks the decision table EXTRACTED from the working tree for all 27x27 ONNX element-type pairs and the Range "
            "bound prover's verdicts on ~1400 real graphs against that rule. Every accepted pair is additionally executed over all "
            "values (<=16 bit exhaustive, 32 bit exhaustive in thorough) and the real remove_redundant_casts pass is run on real "
            "graphs (intermediate observed / captured / multi-consumer) with ORT before vs after."
        ),
        note="Trusted: NumPy/ml_dtypes and ORT Cast kernels, TLC. 64-bit sources are sampled (boundary patterns + random), not exhaustive.",
        design_ref="DESIGN.md §2 J2O_CastTable, §3 C17",
        engine="tlc+numpy+ort",
    ),
}

CHECKS["C13"] = dict(
    built=True,
    category="model_checking",
    technique="TLA+ spec J2O_Host checked exhaustively by TLC; -simulate behaviours replayed through the real context managers; real to_onnx histories with fault injection validated as traces by J2O_HostTrace",
    text=(
        "J2O_Host models every step of the x64 managers, ref-counted function patches, leaf patch frames (LIFO, delete-if-missing), "
        "world activation for tracing and for function-body builds, with failure possible at every patch application, in the body, in lowering "
        "and post-processing, nested conversions included; TLC checks Quiescent/NoLeakOutsideWorlds/RefCounts/FlagInBody exhaustively. "
        "Hundreds of simulated behaviours are stepped through the REAL _temporary_x64/_force_jax_x64/_activate_plugin_worlds/"
        "_activate_full_plugin_worlds_for_body/apply_monkey_patches/apply_patches with recording targets, the abstract state compared at every event. "
        "Real conversions (request kinds derived from the spec behaviours, faults injected at the k-th real patch application incl. all duplicate-key slots) "
        "are observed with whole-namespace snapshots, flag, ref-count table, ContextVar, pytree digests and behavioural probes; the Begin/End traces are validated by TLC."
    ),
    note="Trusted: TLC, the snapshot covers callables/classes/modules/descriptors of imported jax*/flax*/equinox* modules and their classes; AssignSpec patches cannot be fault-injected. One listed known finding (jit trace cache).",
    design_ref="DESIGN.md §2 J2O_Host, §3 C13",
    engine="tlc+replay+trace-validation",
)

CHECKS["C02"] = dict(
    built=True,
    category="model_checking",
    technique="TLA+ spec J2O_GraphRewrite (free-term-algebra tensors) checked by TLC over pattern neighbourhoods; every initial graph replayed through the real passes with ORT before/after; real export pipelines validated as traces by J2O_OptTrace",
    text=(
        "J2O_GraphRewrite models the optimizer as guarded rewrite rules over graphs whose values are tensors in the free term algebra "
        "(exact ONNX transpose/reshape/broadcast/reduce data movement), so OutputsPreserved means equality for ALL inputs; TLC checks it after every "
        "prefix of rewrites over ~1.9k (quick) / ~20k (thorough) neighbourhood graphs (side operand kinds, observed or multiply-consumed intermediates, "
        "non-inverse perms, repeated/distinct sizes, symbolic dims, cast pairs, Mul*Sigmoid). The SAME graphs are built as real ONNX models with full "
        "metadata and pushed through the real _OPTIMIZER_PASSES one by one, ORT outputs compared bit-exactly after each changing pass. "
        "Real corpus exports are snapshotted before the pipeline and after every changing pass and compared in ORT; the traces are validated by TLC."
    ),
    note="Trusted: ORT with optimisations disabled as ONNX semantics, TLC. Rule guards in the spec are the specification (sound by TLC); the implementation's guards are judged only by the replay.",
    design_ref="DESIGN.md §2 J2O_GraphRewrite, §3 C02",
    engine="tlc+replay+trace-validation",
)

CHECKS["C06"] = dict(
    built=True,
    category="model_checking",
    technique="TLA+ spec J2O_ControlFlow (lockstep refinement JAX vs ONNX Loop/If wiring) checked by TLC over all body/cond functions; every enumerated program executed on real exports in ORT; per-iteration Loop traces validated by J2O_ControlFlowTrace",
    text=(
        "TLC proves, for ALL functions body in [S->S], cond in [S->BOOLEAN] (|S|=3), all counted-loop bodies and bounds (incl. hi<=lo, negative lo), all scan "
        "step functions and input sequences of length 0..3, all branch pairs and indices -1..2, and two-lane vmapped whiles, that the ONNX Loop/If wiring the "
        "plugins emit refines the JAX construct step by step (state, iteration count, stacked outputs, halting). Every program TLC enumerated (tables are "
        "model INPUTS, so one real export covers every body) is then run in ORT on the real exports - while, while-in-cond, vmap(while), fori per static "
        "bounds, scan with static and symbolic length, scan-in-while, switch, cond - and must return exactly the predicted result (JAX eager cross-checks "
        "the prediction). Per-iteration traces of the exported Loop are validated against the JAX machine by TLC; unsupported variants must raise."
    ),
    note="Trusted: ORT Loop/If/Scan kernels, ONNX reference evaluator for iteration traces, TLC. State domain |S|=3 (any terminating loop on it halts within 3 iterations); nesting covered by three nested templates, not exhaustively.",
    design_ref="DESIGN.md §2 J2O_ControlFlow, §3 C06",
    engine="tlc+replay+trace-validation",
)

CHECKS["C04"] = dict(
    built=True,
    category="model_checking",
    technique="TLA+ spec J2O_DimExpr: the integer ONNX program emitted for each dimension expression (extracted node by node from real exports) is executed by TLC with ONNX integer semantics for every symbol binding and compared with the expression's mathematical value; the same exports and symbolic templates run in ORT at every binding vs JAX eager",
    text=(
        "For ~240 (quick) / ~700 (thorough) dimension expressions (sums, products, powers, floor division and remainder with constant and symbolic divisors, "
        "negative numerators, max/min, depth <= 3, two symbols) the real converter's emitted Shape/Mul/Add/Pow/Div/Mod/... subgraph is extracted from a real export "
        "and becomes a TLA+ constant; TLC executes it one ONNX node per step for all 25 bindings in {1,2,3,5,7}^2 and requires the AST's value (floor semantics). "
        "The exports are also run in ORT at every binding (three-way: ORT = JAX eager = mathematics). 15 templates that use symbolic dims in reshapes of two symbols, "
        "arange, broadcast, slicing, loop bodies, while predicates, @onnx_function bodies, shared symbols and NCHW inputs are exported once and run at up to 24 bindings; "
        "dynamic corpus testcases run at bindings {1,2,3,5,7} against JAX shapes."
    ),
    note="Trusted: ORT integer kernels, TLC. Bindings beyond 11 are not explored; expressions the interpreter cannot read (ops outside its vocabulary) are still judged by ORT vs JAX.",
    design_ref="DESIGN.md §2 J2O_DimExpr, §3 C04",
    engine="tlc+translation-validation+ort",
)

CHECKS["C18"] = dict(
    built=True,
    category="model_checking",
    technique="TLA+ spec J2O_Allclose (verdict procedure over abstract deviation cases) checked by TLC; every case instantiated as a hand-built stored model and judged by the real allclose",
    text=(
        "J2O_Allclose enumerates every way a stored model can deviate from fn in one or two outputs (count fewer/more; shape unit-axis / swapped dims / flattened; "
        "element-class pair of fn and model; deviation none / within tolerance / beyond tolerance / fractional on an integer reference / NaN vs number / non-zero vs True) "
        "and TLC checks that the procedure which compares in a common type is sound and complete, while the cast-to-reference variant (behaviour before the fix) is rejected. "
        "All one-output cases and ~800 (quick) / all ~25k (thorough) two-output cases are built as real ONNX models and the REAL jax2onnx.allclose must return exactly "
        "the verdict the property demands; layout-flag cases and the x64 flag before/after are checked too."
    ),
    note="Trusted: ORT on the hand-built models, TLC. NaN-vs-NaN is left unconstrained (the property does not speak about it). Tolerances fixed at rtol=1e-3, atol=1e-5 with deviations 1e-7 / 0.5 / 0.9.",
    design_ref="DESIGN.md §2 J2O_Allclose, §3 C18",
    engine="tlc+replay",
)

CHECKS["C05"] = dict(
    built=True,
    category="model_checking",
    technique="TLA+ spec J2O_Pipeline checked by TLC over all requests; emitted requests realised as real to_onnx calls and compared with the predicted interface and jax.eval_shape; per-stage interface traces validated by J2O_PipelineTrace",
    text=(
        "J2O_Pipeline models one conversion stage by stage on the abstract interface (ordered positional / NCHW / parameter inputs, one output per result leaf) "
        "for every request: arity 0-2, any subset of unused inputs, result kinds (computed, input returned unchanged, constant, duplicated leaf, nested pytree), "
        "six input-name and five output-name variants, five layout selections each, runtime parameter used or not, faults, optimizer abort index and policy "
        "(1.5M states). TLC checks PositionalStable, OutputsPerLeaf, NamesApplied, RejectIffBad. Hundreds of emitted requests (all value of every request dimension covered) "
        "run through the REAL to_onnx: it must raise exactly when predicted; inputs must be the predicted names in order; outputs per leaf; element class, float width under the "
        "precision flag, integer type, rank, static dims and user symbol names are compared with jax.eval_shape. The interface logged after every real stage is validated by TLC."
    ),
    note="Trusted: jax.eval_shape, TLC. Requests are realised by one template family; a runtime parameter is only required to appear as an input when the graph references it. One listed known finding (input returned unchanged + names on both sides).",
    design_ref="DESIGN.md §2 J2O_Pipeline, §3 C05",
    engine="tlc+replay+trace-validation",
)
CHECKS["C16"] = dict(
    built=True,
    category="fault_enumeration",
    technique="TLA+ specs J2O_Pipeline (abort policy at every pass index) and J2O_GraphRewrite (every prefix of rewrites) checked by TLC; real optimizer made to raise at every pass index / function-body pass / n-th graph mutation; unsupported constructs and TLC-emitted faulty requests replayed",
    text=(
        "Crash points are enumerated on the real code: the optimizer raises before pass k for every k of the registry (top-level loop, 9 programs whose graphs the passes really change, "
        "incl. NCHW, @onnx_function, Loop body, Swish rewrite, nnx Dropout), at every pass of the function-body loop, and inside passes at the n-th replace_all_uses_with. "
        "Default policy must return a model that passes checker(full) + strict inference, runs, and equals JAX; the strict policy must re-raise. "
        "Unsupported constructs (unregistered primitive at top level / in a loop body / in a function body / in a branch, 3-way switch, reverse scan, dynamic fori bounds) must raise; "
        "a returned model must be complete and right. TLC proves the abort policy on J2O_Pipeline and OutputsPreserved after every prefix of rewrites on J2O_GraphRewrite; "
        "TLC-emitted faulty requests are replayed (raise exactly when predicted)."
    ),
    note="Faults are injected from outside by wrapping the pass runner and onnx_ir.convenience.replace_all_uses_with. One listed known finding: passes are not atomic (abort INSIDE a pass).",
    design_ref="DESIGN.md §3 C16",
    engine="fault-injection+tlc",
)
CHECKS["C12"] = dict(
    built=True,
    category="model_checking",
    technique="TLA+ specs J2O_GraphRewrite (boundary transpose neighbourhoods) and J2O_Pipeline (layout selection validation) checked by TLC; pattern graphs replayed through the real passes; 4-D programs exported with every subset of layout flags and compared with the plain export and JAX in ORT",
    text=(
        "Boundary Transpose pairs around elementwise chains with every side-operand kind, reductions and Add forests are the tchain/treduce/addforest neighbourhoods of J2O_GraphRewrite (TLC: outputs preserved); "
        "those graphs go through the real passes (ORT before/after). 13 programs with 4-D inputs/outputs (relu, channel-vector bias and max, residual add of two inputs, mean over H,W, multi-consumer with two outputs, "
        "output = input, mixed-rank outputs, internal transposes/reshapes, nnx.Conv, avg_pool) are exported plain and with EVERY subset of flagged inputs and 4-D outputs: ORT(flagged)(NCHW x) must equal "
        "NCHW(ORT(plain)(x)) and NCHW(JAX(x)), unflagged I/O unchanged, declared input shapes permuted; out-of-range, negative, duplicate, boolean indices and non-4-D selections must be rejected."
    ),
    note="Trusted: ORT. Quick tier uses one tensor shape per program, thorough adds square spatial dims (a layout mix-up stays shape-valid).",
    design_ref="DESIGN.md §3 C12",
    engine="tlc+replay+ort",
)

CHECKS["C15"] = dict(
    built=True,
    category="model_checking",
    technique="TLA+ spec J2O_FileModes (file + sidecar state under sequences of exports to one path) checked by TLC; every sequence executed on the real file system and compared across return modes",
    text=(
        "J2O_FileModes models the .onnx file and its .data sidecar under all sequences of up to 3 (quick) / 4 (thorough) exports to one path over {standard, web} x "
        "{4.8 kB, exactly 1 MiB, 1.2 MB parameters}; TLC checks LoadIsLastExport, WebSelfContained, StaleNeverReferenced. Every sequence is executed with the real to_onnx in a scratch "
        "directory; after every step the file is reloaded (with external data) and compared with return_mode='proto' and 'ir' of the same request: graph (modulo data location), "
        "parameter bytes, ORT outputs, the mathematically expected result of THIS export (a stale sidecar would compute an earlier one), web = exactly one self-contained file, "
        "external-data / sidecar state as the specification predicts."
    ),
    note="Trusted: onnx.load external-data resolution, ORT, TLC. Each export in a sequence uses distinct parameter values so stale bytes are observable.",
    design_ref="DESIGN.md §3 C15",
    engine="tlc+replay(fs)",
)
CHECKS["C07"] = dict(
    built=True,
    category="model_checking",
    technique="TLA+ spec J2O_FnDedup (registry keys vs function semantics over sequences of call sites, both modes) checked by TLC; every emitted configuration instantiated with real @onnx_function targets and compared decorated vs undecorated vs JAX in ORT",
    text=(
        "J2O_FnDedup processes sequences of call sites (object identity, instance table twin / other weights / other static config, keyword argument none / two static values / traced / "
        "call-time parameter, two shapes, two dtypes) through the registry in shared and unique mode; TLC checks DedupSound, CallArity, DistinctWhenDifferent over 14.6k (quick) / 780k (thorough) "
        "states and rejects the deviation spec (identity reuse, mutation between calls). Emitted configurations are instantiated with real decorated targets - plain class, nnx.Module, "
        "nnx.Module with weights in a nested sub-module, eqx.Module with a static field, free function - and exported: per call site ORT(decorated) = ORT(undecorated twin) = JAX, "
        "#definitions >= #distinct functions, call-node arity and domain import match the definition."
    ),
    note="Trusted: JAX eager on undecorated twin classes, ORT, TLC. Identity reuse of collected temporaries and mutation between calls are modelled as named deviations, not exercised on the real code.",
    design_ref="DESIGN.md §3 C07",
    engine="tlc+replay",
)

CHECKS["C03"] = dict(
    built=True,
    category="model_checking",
    technique="TLA+ spec J2O_Naming (context tree, counter families, body prefixes, function namespaces, name_fix) checked by TLC; scope/SSA walks of real exported models validated by the J2O_Scopes monitor with TLC; ONNX checker(full) + strict inference + ORT load on corpus x configurations and nested templates",
    text=(
        "J2O_Naming models fresh-name allocation over a tree of contexts (top graph, Loop/If bodies with parent-allocated prefixes, function scopes with their own namespace, two independent "
        "counter families per context, name_fix) and TLC checks single assignment / no shadowing along every scope chain after name_fix (880k states). Every sampled corpus export (default opset, "
        "opsets 21 and 26) and 57 nested control-flow / @onnx_function templates x configurations (opset, double precision, return_mode ir) must pass onnx.checker full_check, strict shape+type "
        "inference and ORT session creation (NOT_IMPLEMENTED kernels / unsupported opsets are classified as runtime limits); an independent define/use/enter/exit walk of each ModelProto "
        "(nested bodies, functions) is validated by J2O_Scopes with TLC; call nodes are matched with function definitions (arity, domain import, opset flow)."
    ),
    note="Trusted: ONNX checker, shape inference, ORT as validity oracles; TLC. Quick tier samples ~320 corpus exports, thorough runs all 3137 variants. Listed known findings: BitCast below opset 26, int32 scan nested in while under x64, explicit reduce_sum dtype under x64.",
    design_ref="DESIGN.md §3 C03",
    engine="tlc+trace-validation+oracles",
)
CHECKS["C08"] = dict(
    built=True,
    category="model_checking",
    technique="J2O_Annot monitor (TLA+) validated with TLC on (declared, observed) value pairs and before/after-postprocess snapshots recorded from real exports executed in ORT",
    text=(
        "Every sampled export is instrumented so that each annotated main-graph value becomes an output and is executed in ORT (dynamic variants at two bindings of the symbol); the recorded "
        "events - declared element type and dims (integer / symbol / unknown) vs the runtime tensor, plus each value's annotation right before and after postprocess_ir_model - are validated by the "
        "J2O_Annot monitor with TLC: dtype equal, declared integer dims equal, one size per symbol per run, post-processing leaves graph inputs/outputs untouched and only weakens intermediates. "
        "The J2O_GraphRewrite pattern graphs are pushed through the real optimizer with full metadata and checked the same way (stale shapes after a rewrite would contradict run time)."
    ),
    note="Values inside Loop/If bodies and function bodies are not surfaced (their number is reported as nested_scopes_not_observed). JAX2ONNX_DYNAMIC_DIM_SENTINEL is the project's spelling of an unknown dimension and treated as unknown.",
    design_ref="DESIGN.md §3 C08",
    engine="trace-validation(tlc)+ort",
)
CHECKS["C09"] = dict(
    built=True,
    category="model_checking",
    technique="TLA+ spec J2O_Host (flag seen by the traced body, flag restored on every path) checked by TLC; J2O_Precision monitor validated with TLC on dtype censuses of real exports in both precisions; bit-exact float64 probes",
    text=(
        "J2O_Host proves FlagInBody and Quiescent (x64 restored after success and after a failure at every step). Real corpus exports in both precisions are censused recursively (tensor types, initializers, "
        "constant attributes, Cast/ConstantOfShape targets, bodies, functions); the double clause's antecedent is decided from the jaxpr traced in 64-bit mode; the events are validated by the J2O_Precision "
        "monitor with TLC (single => no DOUBLE and float32 outputs; double and all-float64 JAX => no FLOAT anywhere; flag as before). Twelve probes whose float64 arithmetic is exact but invisible in float32 "
        "(1+2^-30, 2^-40 through python / NumPy / module constants, fori, while, scan, cond, @onnx_function bodies, reductions, matmul) must be reproduced BIT-exactly by the double export."
    ),
    note="Accuracy of inexact kernels in double mode is not predicted by the spec (no IEEE arithmetic in TLA+); the probes decide the hidden-round-trip question exactly. Requests that themselves name a float64 input under the single flag are outside the single clause. Listed known findings: mixed-dtype comparisons, histogram family, linspace num=1, mixed concatenate, atan2 f32 detour.",
    design_ref="DESIGN.md §3 C09",
    engine="tlc+trace-validation+probes",
)
CHECKS["C11"] = dict(
    built=True,
    category="model_checking",
    technique="schema table of the installed onnx extracted into TLA+ facts; J2O_Opset monitor validated with TLC on node censuses of real exports at every target opset; checker + ORT load + equality with the default-opset outputs",
    text=(
        "For every sampled corpus testcase the export is repeated at target opsets 21 and 26 (+ newest on odd seeds; thorough: every opset 21..newest). Each node (bodies and functions included) becomes an event "
        "[op, declared opset, attribute names, input count]; the operator versions / attributes / arity of the installed onnx.defs are generated into J2O_OpsetFacts and J2O_Opset (TLC) requires that the newest "
        "version <= declared exists and admits the attributes and inputs used. The same exports must declare the requested opset, pass checker(full), load in ORT and produce the default-opset outputs; an export that "
        "raises at an opset is counted as an explicit rejection."
    ),
    note="ORT 1.30 loads opsets <= 26, so opset-27 exports are censused and checked but not executed. Opsets 13..20 carry no claim and are not explored. Listed known finding: BitCast below opset 26.",
    design_ref="DESIGN.md §3 C11",
    engine="facts+trace-validation(tlc)+oracles",
)
CHECKS["C14"] = dict(
    built=True,
    category="model_checking",
    technique="TLA+ spec J2O_Determinism (per-conversion counters, process-wide registries, iteration order) checked by TLC with rejected deviation variants; TLC-generated conversion histories replayed in fresh interpreters under several hash seeds and heap perturbation, digests compared with the no-history digest",
    text=(
        "J2O_Determinism models what survives a conversion (registries, caches) and what is created fresh (name / function counters) and TLC checks HistoryIndependent over all histories of length 3 over 10 request "
        "kinds (4 of them failing); a counter kept in process state or hash-ordered iteration is rejected. The emitted histories (plus every optimizer-exercising program and corpus testcases spliced in) are replayed, "
        "each in a fresh interpreter, under PYTHONHASHSEED 0 and others, with heap-address perturbation between conversions (node hashes are address based); the SerializeToString(deterministic=True) digest of every "
        "request must equal its digest in a fresh process with no history."
    ),
    note="Plugin import order is the file-system order of the installed tree and is not permuted. Quick tier: 2 hash seeds, ~10 histories; thorough: 8 seeds, 150+ histories.",
    design_ref="DESIGN.md §3 C14",
    engine="tlc+replay(fresh processes)",
)

CHECKS["C01"] = dict(
    built=True,
    category="exploration",
    technique="TLA+ spec J2O_OpSem (exact operator semantics on a lattice, algebraic laws as invariants) checked by TLC; every enumerated case executed on real exports in ORT three ways (specification = JAX eager = ORT); registered corpus exported and compared with JAX eager on author and exact-lattice inputs",
    text=(
        "J2O_OpSem gives the exact meaning, on small integers / half-integers, of the primitives whose lowering is value dependent (round with both tie rules, floor/ceil/trunc, float->int conversion, "
        "integer division and remainder signs, floor_divide/mod/fmod, clamp, sign, copysign with signed zero, one_hot with negative and out-of-range indices, argmax ties, cumulative sums, sort, integer_pow) "
        "with algebraic laws as TLC invariants (2.5k states); every enumerated (primitive, parameters, input) runs through a real export in ORT and must equal both the specification and JAX eager. "
        "The registered corpus (quick: 420 sampled testcases, thorough: all ~3.1k variants) is exported and executed on the author's inputs and, for shape-declared testcases, on further exact-lattice draws; "
        "integers / booleans bit-exact, floats within the testcase's declared tolerance or 8x JAX's own float32 error against its x64 evaluation."
    ),
    note="TLA+ has no IEEE arithmetic: the spec predicts results on the exact lattice only; elsewhere JAX eager (the oracle the property names) is the reference. Testcases declared by input_values are run on the author's values only (they encode domain constraints); RNG-driven testcases (skip_numeric_validation) are excluded.",
    design_ref="DESIGN.md §2 J2O_OpSem, §3 C01",
    engine="tlc+replay+corpus-differential",
)
CHECKS["C10"] = dict(
    built=True,
    category="exploration",
    technique="TLA+ spec J2O_Transform (meaning of jit / remat / vmap(in_axes,out_axes) / jvp / grad / custom_jvp on exact polynomial templates, laws as invariants) checked by TLC; every case executed on a real export of the transformed template; TLA+ spec J2O_Batching (axis-parameterised operators under vmap: sound batching rules hold, deviating ones are rejected) with every (operator, axis, batch position, out axis) case executed for every registered library spelling; vmap / jit / warm jit / remat / grad / jvp applied to registered callables and compared with JAX's own evaluation of the transformed callable",
    text=(
        "J2O_Batching specifies vmap(op(axis), in_axes=bd, out_axes=ob) as slice-apply-stack for operators with an axis parameter on integer tensors (sum, max, argmax, cumsum, cummax, flip, sort), proves two implementation-shaped batching rules (move-to-front, in-place axis shift) sound and two deviating ones (axis kept, axis canonicalised against the batched rank) unsound, and emits all 432 cases with exact expected tensors: each is exported for every registered spelling (jnp / lax) and ORT must return the predicted tensor; ~45 further axis-parameterised functions (softmax, log_softmax, standardize, logsumexp, glu, cumprod, cummin, argmin, one_hot, roll, take, repeat, concatenate, norm, top_k ...) run on the same grid with the specification of vmap as oracle (per-example eager evaluation, stacked). "
        "J2O_Transform defines jit, nested jit and remat as identity, vmap as slice-apply-stack along in_axes/out_axes, jvp/grad through the templates' Jacobians and custom_jvp through the user's rule, on polynomial maps over "
        "integer vectors (all values exact); TLC checks linearity of jvp, grad = transposed jvp and layout-freedom of vmap of elementwise maps over all cases, and every case is executed on a real export of the transformed "
        "template (specification = JAX = ORT, exact). Registry-wide: each sampled registered callable f (quick 170, thorough all static ones) is wrapped in vmap, jit, (remat), grad, (jvp); whenever JAX evaluates T(f) on the "
        "author's inputs, the export of T(f) must produce the same values in ORT; a produced model that does not run is a violation, an export that raises is counted."
    ),
    note="Exports of T(f) that raise are loud and only counted (C16 covers loudness); transformed callables JAX itself rejects are outside the domain. Numerics of inexact kernels use JAX as reference, not the spec.",
    design_ref="DESIGN.md §2 J2O_Transform, §3 C10",
    engine="tlc+replay+corpus-differential",
)
CHECKS["C19"] = dict(
    built=True,
    category="model_checking",
    technique="TLA+ spec J2O_CallForms (Python's argument binding as a step machine run on the original's and the installed substitute's signature) checked by TLC on a complete miniature signature family and on the signatures extracted from the tree; every emitted verdict replayed against inspect.Signature.bind; every emitted call form executed as a one-call export vs the eager original",
    text=(
        "inspect.signature of every patched (target, attr) slot (283) is extracted for the original and for the callable the REAL plugin worlds install. J2O_CallForms binds a call form [positional count, keyword set] "
        "step by step (positional, *args overflow, keywords in any order, **kwargs, defaults) on both signatures: TLC proves the machine confluent and equal to its closed form on every signature layout of up to 3 parameters "
        "(65k states, all replayed against inspect.Signature.bind), then explores every form of every extracted original (all positional counts x keyword subsets with a bounded number of optional keywords, 115k states) and "
        "checks that the substitute binds it and keeps parameter positions, except listed findings. The forms are then EXECUTED: base calls recorded from the project's own testcases supply in-domain operands; each form is "
        "exported as a one-call program and must equal the eager result of the original in ORT or be rejected explicitly; one-parameter non-default variations that eager JAX accepts are executed the same way (an ignored argument shows as a different result)."
    ),
    note="Trusted: inspect.signature(follow_wrapped=False) as the substitute's calling convention, eager JAX as acceptor and reference, ORT. Substitutes that forward (*args, **kwargs) are judged by execution only. Forms of slots no testcase calls directly use generic unary/binary operands; method slots without a recorded call are reported as not executed. Exceptions of a changed call that are neither binding errors nor explicit are drift, not alarms. Many listed known findings (the property itself states that dozens of substitutes do not bind every form).",
    design_ref="DESIGN.md §2 J2O_CallForms, §3 C19",
    engine="tlc+replay(signature)+replay(execution)",
)

# extensions built while strengthening the checks against independently seeded changes (DESIGN.md §8)
EXTRA = {
    "C01": ("; J2O_Batching direct cases (axis operators on rank-3 operands, every axis) and J2O_Index (dynamic_slice / dynamic_update_slice / take / x[i] / roll / pad / Python slicing at the edges of the index domain) replayed on real exports; J2O_Fusion (reduce_sum fusions at their boundary: exponents around 2, same operand twice vs two operands; digitize / searchsorted / argmax on ties; exact integer semantics, 3 deviations rejected by TLC) replayed in three spellings and two dtypes; J2O_Conv (window stride / input dilation / kernel dilation / padding along one axis, Conv vs ConvTranspose lowering, 3 deviations rejected) replayed in NCHW and NHWC",
            " J2O_Batching's direct cases give exact tensors for sum/max/argmax/cumsum/cummax/flip/sort along every axis of a rank-3 operand (every registered spelling, both dtypes) and ~45 further axis functions are compared with JAX eager; J2O_Index gives exact results for index-driven primitives over index classes < -N, -N..-1, 0..N-1, >= N (clamping, wrapping, the three take modes, negative padding, Python slicing): one export per template with the index as run-time input, specification = JAX = ORT."),
    "C02": ("; J2O_Vocab: the op-name sets the real passes consult are facts, every member instantiated generically inside Transpose / Reshape pairs through the real passes with ORT before/after; captured-value patterns (a value read from an If body nested 1 / 2 levels deep next to a foldable pair)",
            " The vocabularies of the guards (ELEMENTWISE_UNARY_OPS, ELEMENTWISE_BINARY_OPS, ALLOWED_ELEMWISE, UNARY_DATAFLOW_OPS) are read from the working tree; J2O_Vocab states which operator classes commute with a layout change and TLC checks every member; every member is instantiated from its ONNX schema (all axis attribute values, scalar / vector / full side operands) inside the pattern neighbourhoods. Reshape -> elementwise chain -> Reshape [-> Reshape] patterns added (HoistThroughReshape)."),
    "C03": ("; @onnx_function call-site pair templates (operand dtype / shape, keyword order, sibling function bodies, identity-folding bodies) through the validity oracles; fan-out bodies and programs (four leaves folding onto one value)", ""),
    "C05": ("; request space parametrised: a wide configuration (12 positional inputs, 3 leaves incl. a repeated one and one the optimizer folds onto another, layout flag) is emitted and replayed; result kind all_one_value (four leaves on one value: three aliases)", ""),
    "C06": ("; scan variants (reverse, counted without scanned inputs) with reject-or-right replay", ""),
    "C07": ("; J2O_FnDedup extended by keyword order of runtime inputs (CallBinding) and function names allocated in sibling function bodies (NamesUnique, ResolvedSound), three named deviations rejected", ""),
    "C09": ("; J2O_Promotion (JAX's promotion lattice incl. weak scalars, validated against JAX eager) predicts the output type of mixed-operand exports in both modes; J2O_Unwind on the precision-flag managers", ""),
    "C11": ("; context sweep: lowerings that branch on the opset (facts from the sources) placed in function bodies / cond branches at every opset with steering integer operands", ""),
    "C12": ("; programs that read spatial extents at run time, every program also with symbolic N/H/W", ""),
    "C13": ("; J2O_Unwind (teardown attachment of every @contextmanager as facts, real managers driven on every exit path incl. BaseException and generator close); inherited slots in J2O_Host; histories include the first conversion of a process and callers inside jax.enable_x64", ""),
    "C14": ("; conversion-scoped in-build mark with leak deviation; shared-target failing/succeeding request pair and a nested multi-domain function always replayed", ""),
    "C15": ("; parameter location (Loop-body initializer) and mode spelling as dimensions of J2O_FileModes", ""),
    "C16": ("; reverse-scan variants among the constructs that must be rejected or right; J2O_Contract: TLC model of the per-equation output contract (binding kinds x return kinds, ContractSound, 3 deviations rejected), all 312 lowerings registered as a real plugin and driven through to_onnx in 4 scopes; exported 'unsupported' constructs evaluated at 3 input points; N-way switch variants", ""),
    "C17": ("; J2O_Vocab IntVocabSound: members of _INTEGER_VALUE_PRESERVING_OPS (facts) between a bounded Range and a narrowing cast pair with run-time operands carrying out-of-range values", ""),
    "C18": ("; J2O_Unwind on _temporary_x64 (flag restored on every exit path of allclose)", ""),
    "C19": ("; re-spellings of recorded calls first, positional numbers moved to their keyword with another value; substitutes whose source changed since the recorded baseline always executed in the quick tier", ""),
    "C04": ("; J2O_SymShape: TLC model of the shape algebra of 133 shape-changing operations under named dimensions (laws for every binding, 2 deviations rejected), every case exported with symbols and run at 8 bindings incl. size 1, B = N, B != N, 64", ""),
    "C08": ("; J2O_LoopWiring: TLC model of the order of the Loop's pass-through results (2 deviations rejected) replayed as 36 real while_loops whose cond / body close over tensors of distinct shapes; Elu reshape chains", ""),
    "C10": ("; J2O_BroadcastBatch (n-ary elementwise substitutes under vmap with batch positions, unmapped operands and differing per-example ranks) replayed over 14 substitutes", ""),
}

TITLES = {}
for line in (VERIF / "properties.jsonl").read_text().splitlines():
    if line.strip():
        d = json.loads(line)
        TITLES[d["id"]] = d["title"]


def main() -> None:
    checks = []
    na = []
    for pid in sorted(TITLES):
        c = CHECKS.get(pid)
        if not c or not c.get("built"):
            na.append({"property_id": pid, "reason": (c or {}).get("na_reason", "check not built yet in this session (work in progress; see DESIGN.md §3 for the plan)")})
            continue
        checks.append(
            {
                "property_id": pid,
                "quick_cmd": f"./check {pid} --tier quick",
                "thorough_cmd": f"./check {pid} --tier thorough",
                "evidence_file": f"/verif/evidence/{pid}.json",
                "replay_cmd_template": f"./check {pid} --replay {{path}}",
                "engine": c.get("engine", "tlc+harness"),
                "level_claimed": {"category": c["category"], "text": c["text"] + EXTRA.get(pid, ("", ""))[1], "design_ref": c.get("design_ref", "DESIGN.md §3") + ", §8"},
                "level_note": c["note"],
                "technique": c["technique"] + EXTRA.get(pid, ("", ""))[0],
            }
        )
    man = {
        "version": 1,
        "setup_cmd": "./setup.sh",
        "hooks": {
            "guard": "J2O_VERIF_TRACE",
            "enable": "checks set J2O_VERIF_TRACE=1 and wrap stage functions from /verif/harness (external monkeypatching); /repo carries no hook code",
            "baseline_off_cmd": BASELINE_CMD,
            "source_commits": [],
            "add_only": True,
        },
        "engines": [
            {"name": "tlc", "path": "/verif/spec", "serves_properties": [c["property_id"] for c in checks], "kind_free_text": "explicit TLA+ specifications checked by TLC 1.8 (exhaustive + -simulate), constants extracted from /repo at run time"},
            {"name": "harness", "path": "/verif/harness", "serves_properties": [c["property_id"] for c in checks], "kind_free_text": "Python conformance harness: replays TLC behaviours into the real code and validates recorded traces against the specs; ORT / ONNX checker / JAX eager as executable oracles"},
        ],
        "checks": checks,
        "not_applicable": na,
        "notes": "One check per property: ./check <ID> --tier quick|thorough. Known findings: /verif/known_findings.json. Seeded changes used for calibration: /verif/seeded/.",
    }
    (VERIF / "MANIFEST.json").write_text(json.dumps(man, indent=1) + "\n")
    try:
        import jsonschema

        jsonschema.validate(man, json.loads(Path("/root/.vp/MANIFEST.schema.json").read_text()))
    except ImportError:
        pass
    print(f"MANIFEST.json: {len(checks)} checks, {len(na)} not applicable")


if __name__ == "__main__":
    main()
