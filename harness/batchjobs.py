"""Replay of J2O_Batching: axis-parameterised library functions, directly (C01) and under vmap (C10).

For the operator classes the specification evaluates exactly (sum, max, argmax, cumsum, cummax, flip,
sort) every registered library spelling is exported and ORT must return the tensor TLC predicted.
For the other axis-parameterised functions (softmax, log_softmax, standardize, logsumexp, cumprod,
cummin, argmin, min, prod, mean, var, argsort, roll, glu, ...) the same (axis, batch position, out
axis) grid is used with the SPECIFICATION OF VMAP as oracle: slice the operand along the batch
position, apply the function per example in eager JAX (no vmap involved), stack at the out axis."""

from __future__ import annotations

from typing import Any

import numpy as np


def _fns():
    import jax
    import jax.numpy as jnp
    from jax import lax

    exact = {
        "sum": {"jnp.sum": lambda x, a: jnp.sum(x, axis=a), "lax.reduce_sum": lambda x, a: lax.reduce_sum_p.bind(x, axes=(a % x.ndim,), out_sharding=None) if hasattr(lax, "reduce_sum_p") else jnp.sum(x, axis=a)},
        "max": {"jnp.max": lambda x, a: jnp.max(x, axis=a), "jnp.amax": lambda x, a: jnp.amax(x, axis=a)},
        "argmax": {"jnp.argmax": lambda x, a: jnp.argmax(x, axis=a)},
        "cumsum": {"jnp.cumsum": lambda x, a: jnp.cumsum(x, axis=a), "lax.cumsum": lambda x, a: lax.cumsum(x, axis=a % x.ndim)},
        "cummax": {"lax.cummax": lambda x, a: lax.cummax(x, axis=a % x.ndim)},
        "flip": {"jnp.flip": lambda x, a: jnp.flip(x, axis=a)},
        "sort": {"jnp.sort": lambda x, a: jnp.sort(x, axis=a), "lax.sort": lambda x, a: lax.sort(x, dimension=a % x.ndim)},
    }
    del exact["sum"]["lax.reduce_sum"]
    loop = {
        "softmax": lambda x, a: jax.nn.softmax(x, axis=a),
        "log_softmax": lambda x, a: jax.nn.log_softmax(x, axis=a),
        "standardize": lambda x, a: jax.nn.standardize(x + jnp.arange(x.shape[a], dtype=x.dtype).reshape([-1 if i == a % x.ndim else 1 for i in range(x.ndim)]), axis=a, epsilon=0.0),
        "logsumexp": lambda x, a: jax.nn.logsumexp(x, axis=a),
        "glu": lambda x, a: jax.nn.glu(x, axis=a),
        "cumprod": lambda x, a: jnp.cumprod(x, axis=a),
        "lax.cumprod": lambda x, a: lax.cumprod(x, axis=a % x.ndim),
        "lax.cummin": lambda x, a: lax.cummin(x, axis=a % x.ndim),
        "lax.cumsum_reverse": lambda x, a: lax.cumsum(x, axis=a % x.ndim, reverse=True),
        "lax.cummax_reverse": lambda x, a: lax.cummax(x, axis=a % x.ndim, reverse=True),
        "lax.cumlogsumexp": lambda x, a: lax.cumlogsumexp(x, axis=a % x.ndim),
        "argmin": lambda x, a: jnp.argmin(x, axis=a),
        "min": lambda x, a: jnp.min(x, axis=a),
        "prod": lambda x, a: jnp.prod(x, axis=a),
        "mean": lambda x, a: jnp.mean(x, axis=a),
        "var": lambda x, a: jnp.var(x, axis=a),
        "std": lambda x, a: jnp.std(x, axis=a),
        "argsort": lambda x, a: jnp.argsort(x + jnp.linspace(0.0, 0.01, x.size, dtype=x.dtype).reshape(x.shape), axis=a),
        "roll": lambda x, a: jnp.roll(x, 1, axis=a),
        "expand_dims": lambda x, a: jnp.expand_dims(x, axis=a),
        "concatenate_self": lambda x, a: jnp.concatenate([x, x * 2], axis=a),
        "stack_self": lambda x, a: jnp.stack([x, x * 2], axis=a),
        "take0": lambda x, a: jnp.take(x, jnp.array([1, 0]), axis=a),
        "repeat": lambda x, a: jnp.repeat(x, 2, axis=a),
        "diff": lambda x, a: jnp.diff(x, axis=a),
        "any_pos": lambda x, a: jnp.any(x > 0, axis=a),
        "all_pos": lambda x, a: jnp.all(x > -2, axis=a),
        "linalg_norm": lambda x, a: jnp.linalg.norm(x, axis=a),
        "ptp": lambda x, a: jnp.ptp(x, axis=a),
        "median_like_max_keepdims": lambda x, a: jnp.max(x, axis=a, keepdims=True),
        "one_hot_axis": lambda x, a: jax.nn.one_hot(jnp.abs(x).astype(jnp.int32) % 3, 3, axis=a),
        "swapaxes0": lambda x, a: jnp.swapaxes(x, a, 0),
        "moveaxis_last": lambda x, a: jnp.moveaxis(x, a, -1),
        "squeeze_expand": lambda x, a: jnp.squeeze(jnp.expand_dims(x, a), axis=a) * 2,
        "split_first": lambda x, a: jnp.split(x, [1], axis=a)[1],
        "tile_like_concat3": lambda x, a: jnp.concatenate([x, x, x], axis=a),
        "top_k_last": lambda x, a: lax.top_k(jnp.moveaxis(x, a, -1) + jnp.linspace(0.0, 0.01, x.size, dtype=x.dtype).reshape(jnp.moveaxis(x, a, -1).shape), 2)[0],
    }
    return exact, loop


def _export_run(fn, arr):
    import jax

    import jax2onnx
    from harness import onnxutil as U

    m = jax2onnx.to_onnx(fn, [jax.ShapeDtypeStruct(arr.shape, arr.dtype)])
    kind, got = U.run_model(m, {m.graph.input[0].name: arr})
    return got


def run_cases(cases: list[dict[str, Any]], loop_ops: list[str] | None = None) -> dict[str, Any]:
    import jax
    import jax.numpy as jnp

    exact, loop = _fns()
    out: dict[str, Any] = {"n": 0, "mismatch": [], "spec_vs_jax": [], "export_failed": [], "jax_rejects": 0, "per_fn": {}}

    def record(name, status):
        d = out["per_fn"].setdefault(name, {})
        d[status] = d.get(status, 0) + 1

    def check(name, kind, c, fn, arr, expected, exact_pred):
        # expected: numpy array (TLC prediction or per-example loop); exact_pred: TLC-predicted
        try:
            jref = np.asarray(fn(jnp.asarray(arr)))
        except Exception:  # noqa: BLE001  (JAX itself rejects this form)
            out["jax_rejects"] += 1
            record(name, "jax_rejects")
            return
        if jref.shape != expected.shape or not np.allclose(jref.astype(np.float64), expected.astype(np.float64), rtol=1e-5, atol=1e-6, equal_nan=True):
            # the oracle (specification of vmap / of the operator) must agree with JAX itself
            out["spec_vs_jax"].append({"fn": name, "case": c, "spec": expected.tolist(), "jax": jref.tolist()})
            record(name, "spec_vs_jax")
            return
        try:
            got = np.asarray(_export_run(fn, arr)[0])
        except Exception as ex:  # noqa: BLE001
            msg = f"{type(ex).__name__}: {str(ex)[:200]}"
            loud = not ("ONNXRuntimeError" in msg or "onnxruntime" in msg.lower() or "INVALID" in msg)
            out["export_failed"].append({"fn": name, "case": c, "error": msg, "loud": loud})
            record(name, "export_failed" if loud else "invalid_model")
            return
        out["n"] += 1
        ok = got.shape == jref.shape and (np.array_equal(got.astype(np.float64), jref.astype(np.float64)) if (exact_pred or jref.dtype.kind in "biu") else np.allclose(got.astype(np.float64), jref.astype(np.float64), rtol=2e-5, atol=2e-6, equal_nan=True))
        record(name, "ok" if ok else "mismatch")
        if not ok:
            out["mismatch"].append({"fn": name, "kind": kind, "case": c, "ort": got.tolist() if got.size < 64 else str(got.shape), "jax": jref.tolist() if jref.size < 64 else str(jref.shape)})

    for rec in cases:
        c = rec["c"]
        x_int = np.array(rec["x"], np.int32)
        pred = np.array(rec["r"])
        a = c["axis"]
        if c["kind"] == "direct":
            for name, f in exact.get(c["op"], {}).items():
                for dt in (np.float32, np.int32):
                    if dt is np.int32 and name.startswith("lax.cum") and False:
                        continue
                    arr = x_int.astype(dt)
                    check(f"{name}[{np.dtype(dt).name}]", "direct", c, (lambda v, f=f, a=a: f(v, a)), arr, pred, True)
        else:
            bd, ob = c["bd"] - 1, c["ob"] - 1
            for name, f in exact.get(c["op"], {}).items():
                arr = x_int.astype(np.float32)
                fn = jax.vmap((lambda v, f=f, a=a: f(v, a)), in_axes=bd, out_axes=ob)
                check(f"vmap:{name}", "vmap", c, fn, arr, pred, True)
    # loop-oracle functions on the (axis, bd, ob) grid of the enumerated vmap cases (one input per grid point)
    grid = sorted({(r["c"]["bd"], r["c"]["axis"], r["c"]["ob"]) for r in cases if r["c"]["kind"] == "vmap" and r["c"]["s"] == 1})
    dgrid = sorted({r["c"]["axis"] for r in cases if r["c"]["kind"] == "direct" and r["c"]["s"] == 1})
    names = sorted(loop) if loop_ops is None else [n for n in loop_ops if n in loop]
    for name in names:
        f = loop[name]
        for a in dgrid:
            x3 = (((np.arange(12) * 7) % 11 - 5) / 4.0 + 0.125).reshape(2, 3, 2).astype(np.float32)
            c = {"kind": "direct", "op": name, "axis": a}
            fn = (lambda v, f=f, a=a: f(v, a))
            try:
                per = np.asarray(fn(jnp.asarray(x3)))
            except Exception:  # noqa: BLE001
                out["jax_rejects"] += 1
                continue
            # direct oracle: the same function with the axis moved last in NumPy-land is the spec's `got`;
            # here JAX eager is the reference (C01) -- exactness is not claimed
            check(f"{name}", "direct", c, fn, x3, per, False)
        for bd1, a, ob1 in grid:
            bd, ob = bd1 - 1, ob1 - 1
            sh = [2, 3]
            sh.insert(bd, 2)
            n = int(np.prod(sh))
            xb = (((np.arange(n) * 7) % 13 - 6) / 4.0 + 0.125).reshape(sh).astype(np.float32)
            c = {"kind": "vmap", "op": name, "bd": bd1, "axis": a, "ob": ob1}
            try:
                per = [np.asarray(f(jnp.asarray(np.take(xb, b, axis=bd)), a)) for b in range(2)]
            except Exception:  # noqa: BLE001  (axis out of range for the per-example rank etc.)
                out["jax_rejects"] += 1
                continue
            if ob > per[0].ndim:
                continue
            expected = np.stack(per, axis=ob)
            fn = jax.vmap((lambda v, f=f, a=a: f(v, a)), in_axes=bd, out_axes=ob)
            check(f"vmap:{name}", "vmap", c, fn, xb, expected, False)
    return out


def loop_op_names() -> list[str]:
    return sorted(_fns()[1])


def plan(cases: list[dict[str, Any]], kind: str, nchunks: int) -> list[dict[str, Any]]:
    """Task list: exact cases of `kind` in chunks (no loop ops), then the loop-oracle functions in chunks
    (each with the grid-defining cases but none of the exact work)."""
    mine = [c for c in cases if c["c"]["kind"] == kind]
    tasks = [{"cases": mine[i::nchunks], "loop_ops": [], "exact": True} for i in range(nchunks) if mine[i::nchunks]]
    grid = [c for c in mine if c["c"]["s"] == 1 and c["c"]["op"] == "cumsum"]      # a non-reducing op spans the whole (bd, axis, ob) grid
    names = loop_op_names()
    k = max(1, nchunks)
    for i in range(k):
        sub = names[i::k]
        if sub:
            tasks.append({"cases": grid, "loop_ops": sub, "exact": False})
    return tasks


def run_task(cases: list[dict[str, Any]], loop_ops: list[str], exact: bool) -> dict[str, Any]:
    if exact:
        return run_cases(cases, loop_ops=[])
    # grid only: suppress the exact replay by handing over cases of an operator class without registered spellings
    g = [dict(c, c=dict(c["c"], op="__grid__")) for c in cases]
    return run_cases(g, loop_ops=loop_ops)


def fold(ctx, results, prop: str, engine: str) -> int:
    """Merge task results into the check context; returns number of executed comparisons."""
    import json as _json

    total = 0
    per_fn: dict[str, dict[str, int]] = {}
    for out in results:
        total += out["n"]
        for k, v in out["per_fn"].items():
            d = per_fn.setdefault(k, {})
            for a, b in v.items():
                d[a] = d.get(a, 0) + b
        if out["spec_vs_jax"]:
            from harness.common import MachineryError

            raise MachineryError("J2O_Batching oracle disagrees with JAX eager (specification / oracle bug): " + _json.dumps(out["spec_vs_jax"][:2])[:700])
        for ef in out["export_failed"]:
            if ef["loud"]:
                continue       # an explicit export error is loud (C16), not a wrong model
            c = ef["case"]
            ctx.violation({"engine": engine, "fn": ef["fn"], "what": "invalid_model", "axis": c.get("axis"), "bd": c.get("bd", 0)},
                          f"{ef['fn']} axis={c.get('axis')}" + (f" under vmap(in_axes={c['bd'] - 1}, out_axes={c['ob'] - 1})" if c.get("kind") == "vmap" else "") + f": exported model is invalid: {ef['error'][:160]}", ef)
        for mm in out["mismatch"]:
            c = mm["case"]
            ctx.violation({"engine": engine, "fn": mm["fn"], "axis": c.get("axis"), "bd": c.get("bd", 0), "ob": c.get("ob", 0)},
                          f"{mm['fn']} axis={c.get('axis')}" + (f" under vmap(in_axes={c['bd'] - 1}, out_axes={c['ob'] - 1})" if c.get("kind") == "vmap" else "") + f": ORT {str(mm['ort'])[:120]} but JAX / the specification {str(mm['jax'])[:120]}", mm)
    ctx.extra[f"{engine}_per_function"] = {k: v for k, v in sorted(per_fn.items())}
    for k, v in per_fn.items():
        ctx.count((engine, k), nontrivial=True, n=0)
    return total
