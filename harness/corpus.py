"""The registered corpus: every plugin/example testcase of the working tree as an exportable
program (tests.t_generator metadata -> variants), with the project's own input conventions."""

from __future__ import annotations

import hashlib
import inspect
from typing import Any, Sequence

import numpy as np

_VARIANTS: list[dict[str, Any]] | None = None


def variants() -> list[dict[str, Any]]:
    global _VARIANTS
    if _VARIANTS is None:
        from tests.t_generator import generate_test_params, load_plugin_metadata

        out = []
        for entry in load_plugin_metadata():
            try:
                out.extend(generate_test_params(entry))
            except Exception:  # noqa: BLE001  (malformed metadata is the project's business)
                continue
        out.sort(key=key_of)
        _VARIANTS = out
    return _VARIANTS


def key_of(tp: dict[str, Any]) -> str:
    return f"{tp.get('context', '')}::{tp.get('component', '')}::{tp['testcase']}"


def index() -> list[dict[str, Any]]:
    """Light-weight listing for the parent process."""
    out = []
    for i, tp in enumerate(variants()):
        shapes = tp.get("input_shapes")
        out.append(
            {
                "i": i,
                "key": key_of(tp),
                "double": bool(tp.get("_enable_double_precision_test_setting", False)),
                "has_values": tp.get("input_values") is not None,
                "dynamic": bool(shapes) and any(isinstance(s, (list, tuple)) and any(isinstance(d, str) for d in s) for s in shapes),
                "skip_numeric": bool(tp.get("skip_numeric_validation", False)),
                "nchw": bool(tp.get("inputs_as_nchw") or tp.get("outputs_as_nchw")),
                "opset": int(tp.get("opset_version", 23)),
                "source": str(tp.get("source", ""))[:120],
            }
        )
    return out


def _instantiate(tp: dict[str, Any]):
    import jax

    double = bool(tp.get("_enable_double_precision_test_setting", False))
    obj = tp["callable"]
    if not hasattr(obj, "instantiate"):
        return obj
    prev = bool(jax.config.jax_enable_x64)
    if prev != double:
        jax.config.update("jax_enable_x64", double)
    try:
        return obj.instantiate()
    finally:
        if prev != double:
            jax.config.update("jax_enable_x64", prev)


def input_specs(tp: dict[str, Any], callable_obj: Any) -> list[Any]:
    import jax
    import jax.numpy as jnp

    double = bool(tp.get("_enable_double_precision_test_setting", False))
    shapes = tp.get("input_shapes")
    dtypes = tp.get("input_dtypes")
    values = tp.get("input_values")
    if shapes is not None:
        specs = []
        if dtypes:
            for s, dt in zip(shapes, dtypes):
                t = tuple(s) if isinstance(s, (list, tuple)) else (s,)
                if double and np.issubdtype(dt, np.floating):
                    dt = jnp.float64
                specs.append(jax.ShapeDtypeStruct(t, dt))
        else:
            for s in shapes:
                specs.append(tuple(s) if isinstance(s, (list, tuple)) else (s,))
        return specs
    if values is not None:
        specs = []
        for v in values:
            a = np.array(v)
            if double and np.issubdtype(a.dtype, np.floating):
                specs.append(jax.ShapeDtypeStruct(a.shape, jnp.float64))
            else:
                specs.append(jax.ShapeDtypeStruct(a.shape, a.dtype))
        return specs
    if not inspect.signature(callable_obj).parameters:
        return []
    raise ValueError("testcase provides neither input_shapes nor input_values")


def export(tp: dict[str, Any], callable_obj: Any = None, **overrides: Any):
    """to_onnx with the testcase's own request (return_mode proto unless overridden)."""
    from jax2onnx import to_onnx

    if callable_obj is None:
        callable_obj = _instantiate(tp)
    kw = dict(
        fn=callable_obj,
        inputs=input_specs(tp, callable_obj),
        input_params=tp.get("input_params", {}),
        model_name=tp["testcase"],
        opset=tp.get("opset_version", 23),
        enable_double_precision=bool(tp.get("_enable_double_precision_test_setting", False)),
        inputs_as_nchw=tp.get("inputs_as_nchw"),
        outputs_as_nchw=tp.get("outputs_as_nchw"),
        input_names=tp.get("input_names"),
        output_names=tp.get("output_names"),
        normalization_mode=tp.get("normalization_mode", "auto"),
    )
    kw.update(overrides)
    return to_onnx(**kw), callable_obj


def _runtime_cast(value: Any, double: bool) -> np.ndarray:
    arr = np.asarray(value)
    dt = arr.dtype
    if not double:
        if dt == np.float64:
            dt = np.float32
        elif dt == np.int64:
            dt = np.int32
    elif np.issubdtype(dt, np.floating):
        dt = np.float64
    return np.asarray(value, dtype=dt)


def author_inputs(tp: dict[str, Any], binding: dict[str, int] | None = None, draw: int = 0) -> list[np.ndarray] | None:
    """The inputs the project itself would feed: declared values, or its seeded draw
    (draw > 0 gives further draws from the same distribution)."""
    import jax.numpy as jnp

    double = bool(tp.get("_enable_double_precision_test_setting", False))
    values = tp.get("input_values")
    shapes = tp.get("input_shapes")
    if values is not None and shapes is None or (values is not None and values):
        return [_runtime_cast(v, double) for v in values]
    if shapes is None:
        return []
    dtypes = tp.get("input_dtypes")
    if dtypes is None:
        dtypes = [jnp.float64 if double else jnp.float32] * len(shapes)
    seed_material = "|".join([tp.get("context", ""), tp.get("component", ""), tp["testcase"], str(int(double))]).encode()
    seed = int(hashlib.sha256(seed_material).hexdigest()[:16], 16) + draw
    rng = np.random.default_rng(seed)
    sym: dict[str, int] = dict(binding or {})
    out = []
    for s, dt in zip(shapes, dtypes):
        s = tuple(s) if isinstance(s, (list, tuple)) else (s,)
        shp = tuple(sym.setdefault(d, 2) if isinstance(d, str) else int(d) for d in s)
        size = shp if shp else ()
        if np.issubdtype(dt, np.floating):
            raw = rng.standard_normal(size=size) * 0.25
        elif np.issubdtype(dt, np.integer):
            raw = rng.integers(0, 5, size=size)
        elif dt == np.bool_ or dt == np.dtype(bool):
            raw = rng.random(size=size) > 0.5
        else:
            raw = rng.standard_normal(size=size)
        target = jnp.float64 if (double and np.issubdtype(dt, np.floating)) else dt
        out.append(np.array(raw).astype(target))
    return out


def feeds_for(model, xs: Sequence[np.ndarray], input_params: dict[str, Any] | None, inputs_as_nchw=None) -> dict[str, np.ndarray]:
    """Bind positional arrays (+ input_params by name) to the model's graph inputs."""
    from onnx import helper as oh

    inits = {i.name for i in model.graph.initializer}
    gin = [i for i in model.graph.input if i.name not in inits]
    params = dict(input_params or {})
    pos = [i for i in gin if i.name not in params]
    feeds = {}
    nchw = set(inputs_as_nchw or [])
    for k, (vi, x) in enumerate(zip(pos, xs)):
        arr = np.asarray(x)
        if k in nchw and arr.ndim == 4:
            arr = np.transpose(arr, (0, 3, 1, 2))
        feeds[vi.name] = _coerce(arr, vi)
    for vi in gin:
        if vi.name in params:
            feeds[vi.name] = _coerce(np.asarray(params[vi.name]), vi)
    return feeds


def _coerce(arr: np.ndarray, vi) -> np.ndarray:
    from onnx import helper as oh

    try:
        want = oh.tensor_dtype_to_np_dtype(vi.type.tensor_type.elem_type)
    except Exception:  # noqa: BLE001
        return arr
    if np.issubdtype(arr.dtype, np.complexfloating) and not np.issubdtype(want, np.complexfloating):
        arr = np.stack([arr.real, arr.imag], axis=-1)
    if arr.dtype != want:
        arr = arr.astype(want)
    return arr if arr.ndim == 0 else np.ascontiguousarray(arr)   # ascontiguousarray would promote a scalar to rank 1


def jax_eval(callable_obj: Any, xs: Sequence[np.ndarray], input_params: dict[str, Any] | None, x64: bool) -> list[np.ndarray]:
    """Evaluate the callable eagerly in JAX (plugins inactive) under the given x64 setting."""
    import jax
    import jax.numpy as jnp

    prev = bool(jax.config.jax_enable_x64)
    if prev != x64:
        jax.config.update("jax_enable_x64", x64)
    try:
        args = [jnp.asarray(x) for x in xs]
        out = callable_obj(*args, **dict(input_params or {}))
        leaves = jax.tree_util.tree_leaves(out)
        return [np.asarray(l) for l in leaves]
    finally:
        if prev != x64:
            jax.config.update("jax_enable_x64", prev)
