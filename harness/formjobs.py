"""C19 — call forms of substituted library functions.

census_job      : signatures of every (target, attr) slot: the original vs the substitute that is
                  installed while the real plugin worlds are active (facts for J2O_CallForms).
bindcheck_job   : the spec's verdict on TLC-enumerated forms vs inspect.Signature.bind (binds the
                  TLA+ Bind operator to Python's real algorithm).
forms_job       : base calls are RECORDED from the project's own testcases (recorders installed at
                  the slots, callable run eagerly), so every operand is in the function's domain.
                  Each base call is re-spelled / completed / varied:
                    respell   - same arguments, positional <-> keyword
                    explicit  - an omitted optional parameter passed with its own default value
                    nondefault- one optional parameter set to another value (kept only if the
                                original function, outside conversion, accepts it)
                  and exported as a one-call program; ORT must equal the eager result of the
                  ORIGINAL function or the export must raise an explicit unsupported error.
"""

from __future__ import annotations

import contextlib
import inspect
import re
import time
from typing import Any

import numpy as np

KINDS = {
    inspect.Parameter.POSITIONAL_ONLY: "po",
    inspect.Parameter.POSITIONAL_OR_KEYWORD: "pk",
    inspect.Parameter.VAR_POSITIONAL: "vp",
    inspect.Parameter.KEYWORD_ONLY: "ko",
    inspect.Parameter.VAR_KEYWORD: "vk",
}

EXPLICIT_RE = re.compile(
    r"not\s+(yet\s+)?support|unsupported|not\s+(yet\s+)?implemented|only\s+supports?|is\s+not\s+available|"
    r"cannot\s+be\s+(exported|lowered|converted)|no\s+plugin|not\s+handled|must\s+be\s+(static|a\s+constant|constant|concrete)|"
    r"requires?\s+(a\s+)?(static|constant|concrete)|expects?\s+(a\s+)?(static|constant|concrete)",
    re.I,
)
BINDING_RE = re.compile(
    r"unexpected keyword argument|positional arguments? but|takes? (from )?\d+ (to \d+ )?positional|got multiple values|"
    r"missing \d+ required|required (positional|keyword-only) argument|keyword-only|too many positional",
    re.I,
)


# --------------------------------------------------------------------------------------------
# slots
# --------------------------------------------------------------------------------------------


def _target_name(s: Any, tgt: Any) -> str:
    if isinstance(s.target, str):
        return s.target
    mod = getattr(tgt, "__module__", None)
    qn = getattr(tgt, "__qualname__", getattr(tgt, "__name__", None))
    if inspect.ismodule(tgt):
        return tgt.__name__
    return f"{mod}.{qn}"


def _sig(f: Any, follow_wrapped: bool = True):
    try:
        return inspect.signature(f, follow_wrapped=follow_wrapped)
    except Exception:  # noqa: BLE001
        return None


def _sig_json(sig: inspect.Signature | None) -> list[dict[str, Any]] | None:
    if sig is None:
        return None
    out = []
    for p in sig.parameters.values():
        d: dict[str, Any] = {"n": p.name, "k": KINDS[p.kind], "d": p.default is not inspect._empty}
        if d["d"]:
            d["r"] = _default_repr(p.default)
        out.append(d)
    return out


def _default_repr(v: Any) -> str:
    if v is None or isinstance(v, (bool, int, float, str, tuple)):
        return repr(v)
    if type(v) is object:
        return "<sentinel>"
    r = repr(v)
    return re.sub(r" at 0x[0-9a-f]+", "", r)[:80]


_SLOTS: list[dict[str, Any]] | None = None


def slots() -> list[dict[str, Any]]:
    """Every MonkeyPatchSpec slot of every leaf plugin with the original and the substitute that is
    installed while the real worlds are active."""
    global _SLOTS
    if _SLOTS is not None:
        return _SLOTS
    from jax2onnx.converter.conversion_api import _activate_plugin_worlds
    from jax2onnx.plugins._patching import _MISSING, MonkeyPatchSpec, _resolve
    from jax2onnx.plugins.plugin_system import PLUGIN_REGISTRY, PrimitiveLeafPlugin, import_all_plugins

    import_all_plugins()
    found: dict[tuple[int, str], dict[str, Any]] = {}
    for name, inst in PLUGIN_REGISTRY.items():
        if not isinstance(inst, PrimitiveLeafPlugin):
            continue
        try:
            specs = inst.__class__.binding_specs()
        except Exception:  # noqa: BLE001
            continue
        for s in specs:
            if not isinstance(s, MonkeyPatchSpec):
                continue
            try:
                tgt = _resolve(s.target)
            except Exception:  # noqa: BLE001
                continue
            orig = getattr(tgt, s.attr, _MISSING)
            if orig is _MISSING or not callable(orig):
                continue
            key = (id(tgt), s.attr)
            md = getattr(inst, "metadata", None) or {}
            comp = f"{md.get('context', '')}::{md.get('component', '')}"
            if key in found:
                found[key]["plugins"].append(name)
                found[key]["components"].append(comp)
                continue
            found[key] = {"id": f"{_target_name(s, tgt)}.{s.attr}", "tgt": tgt, "attr": s.attr, "orig": orig, "plugins": [name], "components": [comp]}
    with _activate_plugin_worlds():
        for rec in found.values():
            rec["sub"] = getattr(rec["tgt"], rec["attr"], None)
    out = []
    for rec in found.values():
        if rec["sub"] is None or rec["sub"] is rec["orig"]:
            continue
        rec["osig"] = _sig(rec["orig"])
        # the substitute's REAL calling convention (functools.wraps must not make it look like the original)
        rec["ssig"] = _sig(rec["sub"], follow_wrapped=False)
        out.append(rec)
    out.sort(key=lambda r: r["id"])
    # slots that expose ONE original through several names and install the same substitute for it
    # (jax.nn.relu / flax.linen.relu / flax.linen.activation.relu) form one group
    groups: dict[tuple, list[dict[str, Any]]] = {}
    for r in out:
        code = getattr(r["sub"], "__code__", None)
        gk = (id(r["orig"]), getattr(r["sub"], "__module__", ""), getattr(r["sub"], "__qualname__", ""), getattr(code, "co_firstlineno", 0))
        groups.setdefault(gk, []).append(r)
    for members in groups.values():
        canon = sorted(members, key=lambda r: (not r["id"].startswith("jax."), len(r["id"]), r["id"]))[0]["id"]
        for r in members:
            r["group"] = canon
    _SLOTS = out
    return out


def _src_of(sub) -> dict[str, str]:
    """Source file of the installed substitute (relative to the tree under test) and its content hash."""
    import hashlib
    import os

    try:
        f = inspect.getsourcefile(inspect.unwrap(sub)) or ""
    except Exception:  # noqa: BLE001
        f = ""
    code = getattr(sub, "__code__", None)
    if code is not None and getattr(code, "co_filename", ""):
        f = code.co_filename
    root = os.environ.get("J2O_REPO", "/repo").rstrip("/") + "/"
    rel = f[len(root):] if f.startswith(root) else f
    try:
        h = hashlib.sha256(open(f, "rb").read()).hexdigest()[:16]
    except OSError:
        h = ""
    return {"file": rel, "hash": h}


def census_job() -> list[dict[str, Any]]:
    res = []
    for i, r in enumerate(slots()):
        res.append({"i": i, "id": r["id"], "plugins": r["plugins"], "orig": _sig_json(r["osig"]), "sub": _sig_json(r["ssig"]),
                    "is_method": inspect.isclass(r["tgt"]), "components": r["components"], "group": r["group"], "src": _src_of(r["sub"])})
    return res


# --------------------------------------------------------------------------------------------
# Python's binding algorithm, queried for TLC-enumerated forms
# --------------------------------------------------------------------------------------------


def _clone_fn(sig: inspect.Signature):
    """A real function with the same parameter list (names, kinds, which have defaults): calling it
    is the interpreter's own binding algorithm for this signature."""
    P = inspect.Parameter
    params = list(sig.parameters.values())
    parts = []
    kinds = [p.kind for p in params]
    slash_done = star_done = False
    for i, p in enumerate(params):
        if p.kind != P.POSITIONAL_ONLY and not slash_done and P.POSITIONAL_ONLY in kinds[:i]:
            parts.append("/")
            slash_done = True
        if p.kind == P.KEYWORD_ONLY and not star_done and P.VAR_POSITIONAL not in kinds:
            parts.append("*")
            star_done = True
        if p.kind == P.VAR_POSITIONAL:
            parts.append("*" + p.name)
            star_done = True
        elif p.kind == P.VAR_KEYWORD:
            parts.append("**" + p.name)
        else:
            parts.append(p.name + ("=None" if p.default is not inspect._empty else ""))
    if P.POSITIONAL_ONLY in kinds and not slash_done:
        parts.append("/")
    ns: dict[str, Any] = {}
    exec("def f(" + ", ".join(parts) + "):\n    return 1\n", ns)
    return ns["f"]


def _py_accepts(fn: Any, npos: int, kws: list[str]) -> bool:
    try:
        fn(*([0] * npos), **{k: 0 for k in kws})
        return True
    except TypeError:
        return False


def bindcheck_job(forms: list[dict[str, Any]]) -> dict[str, Any]:
    """forms: {s: slot index, w: 'o'|'s', np, kw: [...], acc: spec verdict}"""
    sl = slots()
    bad = []
    n = 0
    clones: dict[tuple[int, str], Any] = {}
    for f in forms:
        r = sl[f["s"]]
        sig = r["osig"] if f["w"] == "o" else r["ssig"]
        if sig is None:
            continue
        ck = (f["s"], f["w"])
        if ck not in clones:
            clones[ck] = _clone_fn(sig)
        n += 1
        py = _py_accepts(clones[ck], f["np"], list(f["kw"]))
        if py != bool(f["acc"]):
            bad.append({**f, "python": py, "slot": r["id"]})
    return {"n": n, "bad": bad[:20]}


# --------------------------------------------------------------------------------------------
# recording base calls
# --------------------------------------------------------------------------------------------


def _is_tracer(v: Any) -> bool:
    import jax

    return isinstance(v, jax.core.Tracer)


def _has_tracer(args: tuple, kwargs: dict) -> bool:
    import jax

    return any(_is_tracer(l) for l in jax.tree_util.tree_leaves((args, kwargs)))


class _Recorder:
    def __init__(self) -> None:
        self.depth = 0
        self.calls: dict[int, list[tuple[tuple, dict]]] = {}

    @contextlib.contextmanager
    def installed(self, sl: list[dict[str, Any]], only: set[int] | None = None):
        saved = []
        try:
            for i, r in enumerate(sl):
                if only is not None and i not in only:
                    continue
                orig = r["orig"]
                saved.append((r["tgt"], r["attr"], orig))
                setattr(r["tgt"], r["attr"], self._wrap(i, orig))
            yield
        finally:
            for tgt, attr, orig in reversed(saved):
                setattr(tgt, attr, orig)

    def _wrap(self, i: int, orig: Any):
        rec = self

        def wrapper(*args: Any, **kwargs: Any):
            if rec.depth == 0 and not _has_tracer(args, kwargs):
                lst = rec.calls.setdefault(i, [])
                if len(lst) < 40:
                    lst.append((args, dict(kwargs)))
            rec.depth += 1
            try:
                return orig(*args, **kwargs)
            finally:
                rec.depth -= 1

        try:
            wrapper.__name__ = getattr(orig, "__name__", "wrapped")
            wrapper.__wrapped__ = orig  # keeps inspect.signature faithful for callers that look
        except Exception:  # noqa: BLE001
            pass
        return wrapper


def _call_shape(sig: inspect.Signature | None, args: tuple, kwargs: dict) -> str:
    def d(v: Any) -> str:
        if hasattr(v, "shape") and hasattr(v, "dtype"):
            return f"A{tuple(v.shape)}{v.dtype}"
        if isinstance(v, (list, tuple)):
            return "[" + ",".join(d(x) for x in v[:4]) + "]"
        return type(v).__name__ + (":" + repr(v)[:20] if isinstance(v, (bool, int, float, str, type(None))) else "")

    return "|".join(d(a) for a in args) + "||" + "|".join(f"{k}={d(v)}" for k, v in sorted(kwargs.items()))


# --------------------------------------------------------------------------------------------
# forms
# --------------------------------------------------------------------------------------------


def _bound(sig: inspect.Signature, args: tuple, kwargs: dict):
    """(ordered list of (param, value, how)) for the explicitly passed arguments, or None."""
    try:
        ba = sig.bind(*args, **kwargs)
    except TypeError:
        return None
    return ba


def _pos_params(sig: inspect.Signature) -> list[inspect.Parameter]:
    P = inspect.Parameter
    return [p for p in sig.parameters.values() if p.kind in (P.POSITIONAL_ONLY, P.POSITIONAL_OR_KEYWORD)]


def _how(sig: inspect.Signature, args: tuple, kwargs: dict) -> dict[str, str]:
    """parameter -> 'pos' | 'kw' | 'omitted' for one spelling of a call."""
    pp = _pos_params(sig)
    how = {p.name: "omitted" for p in sig.parameters.values() if p.kind not in (inspect.Parameter.VAR_POSITIONAL, inspect.Parameter.VAR_KEYWORD)}
    for p in pp[: len(args)]:
        how[p.name] = "pos"
    for k in kwargs:
        if k in how:
            how[k] = "kw"
    return how


def _delta(sig: inspect.Signature, base: tuple[tuple, dict], form: tuple[tuple, dict]) -> list[str]:
    hb = _how(sig, *base)
    hf = _how(sig, *form)
    return sorted(f"{n}:{hf[n]}" for n in hf if hf[n] != hb.get(n))


def _full_map(sig: inspect.Signature, args: tuple, kwargs: dict) -> dict[str, Any] | None:
    ba = _bound(sig, args, kwargs)
    if ba is None:
        return None
    ba.apply_defaults()
    return dict(ba.arguments)


def _same_value(a: Any, b: Any) -> bool:
    if a is b:
        return True
    if isinstance(a, (bool, int, float, str, type(None))) and type(a) is type(b):
        return a == b
    if isinstance(a, (tuple, list)) and type(a) is type(b) and len(a) == len(b):
        return all(_same_value(x, y) for x, y in zip(a, b))
    if isinstance(a, dict) and isinstance(b, dict) and a.keys() == b.keys():
        return all(_same_value(a[k], b[k]) for k in a)
    return False


def _same_call(sig: inspect.Signature, base: tuple[tuple, dict], form: tuple[tuple, dict]) -> bool:
    """Do the two spellings bind the same value to every parameter (defaults applied)?"""
    mb = _full_map(sig, *base)
    mf = _full_map(sig, *form)
    if mb is None or mf is None or mb.keys() != mf.keys():
        return False
    return all(_same_value(mb[k], mf[k]) for k in mb)


def _realise(sig: inspect.Signature, f: dict[str, Any], args: tuple, kwargs: dict) -> tuple[tuple, dict] | None:
    """Values for the call form f = {np, kw} (enumerated by TLC): a parameter takes the value of the
    base call when the base passed it, else its own default."""
    ba = _bound(sig, args, kwargs)
    if ba is None:
        return None
    P = inspect.Parameter
    passed = ba.arguments
    pp = _pos_params(sig)
    vp = [p for p in sig.parameters.values() if p.kind == P.VAR_POSITIONAL]
    extras = list(passed.get(vp[0].name, ())) if vp else []
    pos: list[Any] = []
    for j in range(int(f["np"])):
        if j < len(pp):
            p = pp[j]
            if p.name in passed:
                pos.append(passed[p.name])
            elif p.default is not inspect._empty:
                pos.append(p.default)
            else:
                return None
        else:
            k = j - len(pp)
            if k >= len(extras):
                return None
            pos.append(extras[k])
    if vp and extras and int(f["np"]) != len(pp) + len(extras):
        # a var-positional original (ufunc style): keep the operand count of the base call
        return None
    kw: dict[str, Any] = {}
    for k in f["kw"]:
        prm = sig.parameters.get(k)
        if prm is None or prm.kind in (P.VAR_POSITIONAL, P.VAR_KEYWORD, P.POSITIONAL_ONLY):
            return None  # an extra **kwargs name: no value known to be valid
        if k in passed:
            kw[k] = passed[k]
        elif prm.default is not inspect._empty:
            kw[k] = prm.default
        else:
            return None
    return tuple(pos), kw


_STR_MENU = {
    "mode": ["clip", "wrap", "fill", "constant", "edge", "same", "valid", "full", "reduced", "complete"],
    "side": ["left", "right"],
    "method": ["scan", "sort", "compare_all", "linear", "nearest"],
    "indexing": ["xy", "ij"],
    "rounding_method": [],
    "norm": ["ortho", "forward", "backward"],
    "padding": ["SAME", "VALID"],
    "implementation": ["xla"],
}


def _alt_values(name: str, default: Any, first_array: Any) -> list[Any]:
    import jax
    import jax.numpy as jnp

    nd = getattr(first_array, "ndim", 0)
    n = name.lower()
    if isinstance(default, bool):
        return [not default]
    if n in ("axis", "axes", "dim", "dimension", "feature_axes", "reduction_axes"):
        vals: list[Any] = []
        for c in ([0, -1] if nd >= 1 else []):
            if c != default:
                vals.append(c)
        if nd >= 2 and default != (0,):
            vals.append((0,))
        return vals
    if n in ("keepdims", "keep_dims"):
        return [True]
    if n in ("dtype", "preferred_element_type", "param_dtype", "out_dtype"):
        kind = getattr(getattr(first_array, "dtype", None), "kind", "f")
        return [jnp.int32] if kind == "f" else [jnp.float32]
    if n == "where":
        if first_array is not None and nd >= 1:
            m = (np.arange(int(np.prod(first_array.shape))) % 2 == 0).reshape(first_array.shape)
            return [m]
        return []
    if n == "precision":
        return [jax.lax.Precision.HIGHEST]
    if n in ("out",):
        return []
    if n == "initial":
        return [0.5]
    if n in ("ddof", "correction"):
        return [1]
    if n in ("size",):
        return [2]
    if n in ("fill_value",):
        return [0]
    if isinstance(default, int):
        return [default + 1]
    if isinstance(default, float):
        return [default * 2 + 0.5]
    if isinstance(default, str):
        return [v for v in _STR_MENU.get(n, []) if v != default][:3]
    if default is None:
        if n in ("k", "n", "offset", "num", "repeats", "total_repeat_length", "indices_are_sorted", "unique_indices"):
            return [1]
        if n in ("a_min", "min", "a_max", "max"):
            return [0.25]
        if n in ("descending", "stable", "endpoint", "retstep", "assume_unique", "invert", "promote_integers"):
            return [True]
        return []
    return []


def _nondefault(sig: inspect.Signature, args: tuple, kwargs: dict) -> list[tuple[str, str, tuple, dict]]:
    ba = _bound(sig, args, kwargs)
    if ba is None:
        return []
    P = inspect.Parameter
    passed = ba.arguments
    first_array = None
    for v in list(args) + list(kwargs.values()):
        if hasattr(v, "shape") and hasattr(v, "dtype") and not inspect.isclass(v):
            first_array = v
            break
        if isinstance(v, (list, tuple)) and v and hasattr(v[0], "shape"):
            first_array = v[0]
            break
    forms = []
    for p in sig.parameters.values():
        if p.kind in (P.VAR_POSITIONAL, P.VAR_KEYWORD, P.POSITIONAL_ONLY) or p.name in passed or p.default is inspect._empty:
            continue
        if p.name in ("self", "key", "rngs", "rng", "state", "out", "out_sharding", "sharding", "device"):
            continue
        for j, v in enumerate(_alt_values(p.name, p.default, first_array)):
            forms.append(("nondefault", f"{p.name}:kw:{j}", args, {**kwargs, p.name: v}))
    # a Python number the recorded call passes POSITIONALLY gets another value and moves to its keyword
    # (the positional prefix in front of it stays): an argument dropped on one binding branch shows
    names = [p.name for p in sig.parameters.values() if p.kind in (P.POSITIONAL_ONLY, P.POSITIONAL_OR_KEYWORD)]
    for pos in range(1, len(args)):
        v = args[pos]
        if pos >= len(names) or isinstance(v, bool) or not isinstance(v, (int, float)):
            continue
        if sig.parameters[names[pos]].kind is not P.POSITIONAL_OR_KEYWORD:
            continue
        rest_kw = {}
        ok = True
        for q in range(pos + 1, len(args)):
            if q >= len(names) or sig.parameters[names[q]].kind is not P.POSITIONAL_OR_KEYWORD:
                ok = False
                break
            rest_kw[names[q]] = args[q]
        if not ok:
            continue
        for j, nv in enumerate(((v + 1, v * 2 + 1) if isinstance(v, int) else (v * 2.0, v + 0.5))):
            forms.append(("nondefault", f"{names[pos]}:moved_kw:{j}", args[:pos], {**kwargs, **rest_kw, names[pos]: nv}))
    return forms


def _omit_perturbed(sig: inspect.Signature, args: tuple, kwargs: dict, pname: str) -> list[tuple[str, str, tuple, dict]]:
    ba = _bound(sig, args, kwargs)
    if ba is None:
        return []
    passed = dict(ba.arguments)
    passed.pop(pname, None)
    names = list(sig.parameters)
    out = []

    def rebuild(vals: dict[str, Any]):
        # everything by keyword except the leading positional-only parameters and the first (operand) parameter
        pos, kw = [], {}
        for i, n in enumerate(names):
            if n not in vals:
                continue
            prm = sig.parameters[n]
            if prm.kind is inspect.Parameter.POSITIONAL_ONLY or i == 0:
                pos.append(vals[n])
            elif prm.kind in (inspect.Parameter.VAR_POSITIONAL, inspect.Parameter.VAR_KEYWORD):
                return None
            else:
                kw[n] = vals[n]
        return tuple(pos), kw

    base = rebuild(passed)
    if base is None:
        return []
    out.append(("nondefault", f"{pname}:omitted", base[0], base[1]))
    for n, v in list(passed.items()):
        if isinstance(v, (tuple, list)) and v and all(isinstance(e, (int, np.integer)) and not isinstance(e, bool) for e in v):
            for tag, g in (("half", lambda e: max(1, int(e) // 2)), ("quarter", lambda e: max(1, int(e) // 4)), ("double", lambda e: int(e) * 2)):
                alt = dict(passed)
                alt[n] = type(v)(g(e) for e in v)
                rb = rebuild(alt)
                if rb is not None:
                    out.append(("nondefault", f"{pname}:omitted:{n}:{tag}", rb[0], rb[1]))
    return out


# --------------------------------------------------------------------------------------------
# executing one form
# --------------------------------------------------------------------------------------------


def _is_dyn(v: Any) -> bool:
    import jax

    if isinstance(v, (jax.Array, np.ndarray)) and not _is_tracer(v):
        dt = getattr(v, "dtype", None)
        try:
            return np.dtype(dt).kind in "fiub" and getattr(v, "ndim", 0) >= 1
        except TypeError:
            return False
    return False


def _split(args: tuple, kwargs: dict):
    """Flatten (args, kwargs): array leaves become model inputs, everything else is closed over."""
    import jax

    def is_leaf(v: Any) -> bool:
        if _is_dyn(v):
            return True
        if isinstance(v, (list, tuple, dict)) or v is None:
            return False
        return True  # modules, keys, scalars, dtypes, strings: opaque statics

    leaves, treedef = jax.tree_util.tree_flatten((args, kwargs), is_leaf=is_leaf)
    dyn_idx = [i for i, l in enumerate(leaves) if _is_dyn(l)]
    return leaves, treedef, dyn_idx


def _flat_out(res: Any) -> list[np.ndarray] | None:
    import jax

    leaves = jax.tree_util.tree_leaves(res)
    out = []
    for l in leaves:
        if not hasattr(l, "shape") and not isinstance(l, (bool, int, float, complex, np.generic)):
            return None
        try:
            out.append(np.asarray(l))
        except Exception:  # noqa: BLE001
            return None
    return out


def _classify_exc(ex: BaseException) -> str:
    msg = f"{type(ex).__name__}: {ex}"
    if isinstance(ex, NotImplementedError) or EXPLICIT_RE.search(msg):
        return "explicit"
    if isinstance(ex, TypeError) and BINDING_RE.search(msg):
        return "binding"
    return "other"


def _run_form(r: dict[str, Any], args: tuple, kwargs: dict, expected: list[np.ndarray] | None) -> dict[str, Any]:
    """Export `getattr(tgt, attr)(*args, **kwargs)` with array leaves as inputs; compare with expected."""
    import jax

    from harness import onnxutil as U
    from harness.diffjobs import compare
    from jax2onnx import to_onnx

    leaves, treedef, dyn_idx = _split(args, kwargs)
    tgt, attr = r["tgt"], r["attr"]

    def fn(*dyn: Any):
        ls = list(leaves)
        for k, i in enumerate(dyn_idx):
            ls[i] = dyn[k]
        a, kw = jax.tree_util.tree_unflatten(treedef, ls)
        return getattr(tgt, attr)(*a, **kw)

    specs = [jax.ShapeDtypeStruct(tuple(leaves[i].shape), np.dtype(leaves[i].dtype)) for i in dyn_idx]
    try:
        model = to_onnx(fn, specs, return_mode="proto")
    except BaseException as ex:  # noqa: BLE001
        if isinstance(ex, (KeyboardInterrupt, SystemExit)):
            raise
        return {"status": "export_raised", "class": _classify_exc(ex), "error": f"{type(ex).__name__}: {ex}"[:400]}
    inits = {i.name for i in model.graph.initializer}
    gin = [i for i in model.graph.input if i.name not in inits]
    if len(gin) != len(dyn_idx):
        return {"status": "iface", "error": f"{len(gin)} model inputs for {len(dyn_idx)} arrays"}
    feeds = {vi.name: np.asarray(leaves[i]) for vi, i in zip(gin, dyn_idx)}
    try:
        _, outs = U.run_model(model, feeds)
    except Exception as ex:  # noqa: BLE001
        return {"status": "ort_failed", "error": str(ex)[:300]}
    if expected is None:
        return {"status": "ran"}
    if len(outs) != len(expected):
        return {"status": "mismatch", "detail": f"{len(expected)} result leaves, {len(outs)} model outputs"}
    for k, (o, e) in enumerate(zip(outs, expected)):
        why = compare(o, e, None, 1e-4, 1e-5, False)
        if why:
            return {"status": "mismatch", "detail": f"output {k}: {why}"}
    return {"status": "ok"}


def _eager(r: dict[str, Any], args: tuple, kwargs: dict):
    try:
        res = r["orig"](*args, **kwargs)
    except BaseException as ex:  # noqa: BLE001
        if isinstance(ex, (KeyboardInterrupt, SystemExit)):
            raise
        return None, f"{type(ex).__name__}: {ex}"[:200]
    flat = _flat_out(res)
    if flat is None:
        return None, "non-array result"
    for a in flat:
        if a.dtype.kind in "fc" and not np.all(np.isfinite(a)):
            return None, "non-finite eager result"
    return flat, None


def forms_job(components: list[str], forms_by_slot: dict[str, list[dict[str, Any]]] | None = None, must_by_slot: dict[str, list[dict[str, Any]]] | None = None, max_base: int = 2,
              max_forms: int = 24, budget_s: float = 240.0, nondefault: bool = True, seed: int = 0, default_diffs: dict[str, list[str]] | None = None) -> list[dict[str, Any]]:
    """Record base calls of the slots owned by `components` from their own testcases, then execute the
    call forms TLC enumerated for each slot (plus one-parameter non-default variations)."""
    import random

    import jax

    from harness import corpus as C

    t0 = time.time()
    sl = slots()
    want = {i for i, r in enumerate(sl) if any(p in components for p in r["components"])}
    if not want:
        return []
    vs = C.variants()
    rec = _Recorder()
    tcs = []
    for tp in vs:
        if f"{tp.get('context', '')}::{tp.get('component', '')}" not in components:
            continue
        if tp.get("_enable_double_precision_test_setting", False):
            continue
        shapes = tp.get("input_shapes")
        if shapes and any(isinstance(s, (list, tuple)) and any(isinstance(d, str) for d in s) for s in shapes):
            continue
        tcs.append(tp)
    ran = 0
    for tp in tcs[:60]:
        if time.time() - t0 > budget_s * 0.25:
            break
        try:
            fn = C._instantiate(tp)
            xs = C.author_inputs(tp)
            if xs is None:
                continue
            with rec.installed(sl, want):
                fn(*[jax.numpy.asarray(x) for x in xs], **(tp.get("input_params") or {}))
            ran += 1
        except BaseException as ex:  # noqa: BLE001
            if isinstance(ex, (KeyboardInterrupt, SystemExit)):
                raise
            continue
    out = []
    # slots sharing one original function object share base calls (aliases such as flax.linen.relu)
    by_orig: dict[int, list[tuple[tuple, dict]]] = {}
    for i, calls in rec.calls.items():
        by_orig.setdefault(id(sl[i]["orig"]), []).extend(calls)
    for i in sorted(want):
        r = sl[i]
        rng = random.Random(f"{seed}|{r['id']}")
        res: dict[str, Any] = {"slot": r["id"], "group": r["group"], "i": i, "testcases_run": ran, "base_calls": 0, "forms": [], "skipped": None}
        calls = rec.calls.get(i) or by_orig.get(id(r["orig"])) or []
        if not calls and not inspect.isclass(r["tgt"]):
            calls = _generic_bases(r)
            res["generic_base"] = bool(calls)
        sig = r["osig"]
        if sig is None:
            res["skipped"] = "original has no introspectable signature"
            out.append(res)
            continue
        seen: set[str] = set()
        bases = []
        for a, k in calls:
            shp = _call_shape(sig, a, k)
            if shp in seen:
                continue
            seen.add(shp)
            bases.append((a, k))
        # the call that passes the fewest arguments, then the richest ones
        bases.sort(key=lambda c: len(c[0]) + len(c[1]))
        if len(bases) > max_base:
            bases = ([bases[0]] + bases[-(max_base - 1):]) if max_base > 1 else bases[:1]
        tlc_forms = list((forms_by_slot or {}).get(r["id"], []))
        for a, k in bases:
            if time.time() - t0 > budget_s:
                res["skipped"] = "budget"
                break
            exp, why = _eager(r, a, k)
            if exp is None:
                continue
            base = _run_form(r, a, k, exp)
            if base["status"] != "ok":
                res["forms"].append({"kind": "base", "form": "as_recorded", "status": "base_" + base["status"], "error": base.get("error") or base.get("detail"), "class": base.get("class"), "call": _call_shape(sig, a, k)[:160]})
                continue
            res["base_calls"] += 1
            res["forms"].append({"kind": "base", "form": "as_recorded", "status": "ok", "call": _call_shape(sig, a, k)[:200], "npos": len(a), "kw": sorted(k)})
            variants: list[tuple[str, str, tuple, dict]] = []
            real = []
            for f in tlc_forms:
                rz = _realise(sig, f, a, k)
                if rz is not None:
                    real.append((f, rz))
            # always keep the extremes (fewest / most keywords, fewest / most positionals), sample the rest
            real.sort(key=lambda t: (t[0]["np"], len(t[0]["kw"])))
            keep = real
            if len(real) > max_forms:
                # re-spellings of the recorded call itself (same arguments, another positional / keyword split)
                # discriminate best: each positional prefix length with the rest passed by keyword
                respell = [x for x in real if _same_call(sig, (a, k), x[1])]
                respell.sort(key=lambda t: (t[0]["np"], -len(t[0]["kw"])))
                ext = [real[0], real[-1]] + sorted(real, key=lambda t: -len(t[0]["kw"]))[:2] + sorted(real, key=lambda t: -t[0]["np"])[:2]
                ext += [x for x in respell if not any(x is e for e in ext)][: max(4, max_forms // 2)]
                rest = [x for x in real if not any(x is e for e in ext)]
                rng.shuffle(rest)
                keep = ext + rest[: max_forms - len(ext)]
            for f in (must_by_slot or {}).get(r["id"], []):
                rz = _realise(sig, f, a, k)
                if rz is not None:
                    variants.append(("form", f"np={f['np']},kw={'+'.join(sorted(f['kw']))}", rz[0], rz[1]))
            for f, (fa, fk) in keep:
                variants.append(("form", f"np={f['np']},kw={'+'.join(sorted(f['kw']))}", fa, fk))
            if nondefault:
                variants += _nondefault(sig, a, k)
            # parameters whose DEFAULT differs between the original and the substitute (a fact of the signatures):
            # the call that omits them, on the recorded operands and on operands whose integer tuples (target
            # shapes, sizes) are halved / quartered / doubled -- where a different default changes the result
            for pname in (default_diffs or {}).get(r["id"], []):
                variants = _omit_perturbed(sig, a, k, pname) + variants
            done: set[str] = {_form_key(a, k)}
            for kind, name, fa, fk in variants:
                fkey = _form_key(fa, fk)
                if fkey in done:
                    continue
                done.add(fkey)
                if time.time() - t0 > budget_s:
                    res["skipped"] = "budget"
                    break
                same = kind == "form" and _same_call(sig, (a, k), (fa, fk))
                fexp, fwhy = _eager(r, fa, fk)
                if fexp is not None and not same:
                    # a changed call must be a deterministic function of its arguments to be comparable
                    again, _ = _eager(r, fa, fk)
                    if again is None or len(again) != len(fexp) or not all(x.shape == y.shape and np.array_equal(x, y, equal_nan=True) if x.dtype.kind in "fc" else np.array_equal(x, y) for x, y in zip(again, fexp)):
                        res["forms"].append({"kind": kind, "form": name, "status": "nondeterministic_in_eager"})
                        continue
                if fexp is None:
                    if same:
                        res["forms"].append({"kind": kind, "form": name, "status": "eager_rejects", "error": fwhy})
                    continue
                if same:
                    # same call, different spelling: eager must give the same values
                    eq = len(fexp) == len(exp) and all(x.shape == y.shape and np.allclose(x.astype(np.float64) if x.dtype.kind in "fiub" else x, y.astype(np.float64) if y.dtype.kind in "fiub" else y, rtol=1e-6, atol=1e-6, equal_nan=True) for x, y in zip(fexp, exp))
                    if not eq:
                        res["forms"].append({"kind": kind, "form": name, "status": "eager_differs"})
                        continue
                fr = _run_form(r, fa, fk, fexp)
                ent = {"kind": kind, "form": name, "status": fr["status"], "npos": len(fa), "kw": sorted(fk), "same_call": bool(same), "delta": _delta(sig, (a, k), (fa, fk))}
                if kind == "nondefault":
                    ent["eager_changes_result"] = not (len(fexp) == len(exp) and all(x.shape == y.shape and x.dtype == y.dtype and np.array_equal(x, y) for x, y in zip(fexp, exp)))
                for fld in ("class", "error", "detail"):
                    if fr.get(fld):
                        ent[fld] = fr[fld]
                res["forms"].append(ent)
        out.append(res)
    return out


def _generic_bases(r: dict[str, Any]) -> list[tuple[tuple, dict]]:
    """For a function slot none of the project's testcases calls directly: the simplest operand
    tuples the original accepts eagerly (unary / binary on a small float matrix)."""
    import jax.numpy as jnp

    x = jnp.asarray(np.array([[0.5, -1.5, 2.0], [1.0, 0.25, -0.75]], dtype=np.float32))
    y = jnp.asarray(np.array([[1.5, 0.5, -2.0], [0.75, 2.0, 1.25]], dtype=np.float32))
    for cand in ((x,), (x, y)):
        exp, _ = _eager(r, cand, {})
        if exp is not None:
            return [(cand, {})]
    return []


def _form_key(args: tuple, kwargs: dict) -> str:
    def d(v: Any) -> str:
        if hasattr(v, "shape") and hasattr(v, "dtype") and not inspect.isclass(v):
            return f"A{id(v)}"
        if isinstance(v, (list, tuple)):
            return "[" + ",".join(d(x) for x in v) + "]"
        if isinstance(v, (bool, int, float, str, type(None))):
            return repr(v)
        return f"O{id(v)}"

    return "|".join(d(a) for a in args) + "||" + "|".join(f"{k}={d(v)}" for k, v in sorted(kwargs.items()))
