"""Spec -> code replay for J2O_Host: TLC behaviours (the `log' history) are stepped through the REAL
context managers of the repository with fake patch targets, comparing the projected abstract state
with the specification's snapshot at every logged event.

Real code exercised: user_interface._temporary_x64, conversion_api._force_jax_x64,
conversion_api._activate_plugin_worlds, plugin_system._activate_full_plugin_worlds_for_body,
plugin_system.apply_monkey_patches, PrimitiveLeafPlugin.plugin_binding, _patching.apply_patches.
"""

from __future__ import annotations

from typing import Any


class Injected(Exception):
    pass


class Mismatch(Exception):
    def __init__(self, where: str, expected: Any, got: Any) -> None:
        super().__init__(f"{where}: expected {expected} got {got}")
        self.where, self.expected, self.got = where, expected, got


class _Sub:
    def __init__(self, p: int, j: int, w: int) -> None:
        self.tag = ["sub", p, j, w]


def replay_logs(logs: list[list[dict[str, Any]]], leaf_specs: list[list[str]], fn_slots: list[str], missing: list[str], inherit: dict[str, str] | None = None) -> list[dict[str, Any]]:
    import jax

    import jax2onnx.converter.conversion_api as capi
    import jax2onnx.plugins.plugin_system as ps
    import jax2onnx.user_interface as ui
    from jax2onnx.plugins._patching import MonkeyPatchSpec

    ps.import_all_plugins()
    slots = sorted({s for sp in leaf_specs for s in sp})

    inherit = dict(inherit or {})

    class Target:  # recording target: attributes named after slots
        pass

    class SubTarget(Target):  # inherited slots: the attribute lives in the base class only
        pass

    # slot -> (class whose namespace is patched, attribute name)
    LOC = {s: ((SubTarget, inherit[s]) if s in inherit else (Target, s)) for s in slots}
    ORIG = {s: object() for s in slots}

    state = {"serial": 0, "fail_fn": None, "fail_leaf": set()}

    def reset_target() -> None:
        for s in slots:
            if s in inherit:
                if inherit[s] in SubTarget.__dict__:
                    delattr(SubTarget, inherit[s])
            elif s in missing:
                if hasattr(Target, s):
                    delattr(Target, s)
            else:
                setattr(Target, s, ORIG[s])

    # fake function plugins
    fn_classes = {}
    fn_orig = {}
    for f in fn_slots:
        cls = type(f"F_{f}", (), {"__call__": lambda self: None})
        fn_classes[f] = cls
        fn_orig[f] = cls.__dict__["__call__"]

    def make_fn_plugin(idx: int, f: str):
        class FP:
            def patch_info(self):
                def patch_fn(orig):
                    if state["fail_fn"] == idx:
                        raise Injected(f"fn {idx}")

                    def wrapped(self_):
                        return None

                    return wrapped

                return {"patch_targets": [fn_classes[f]], "patch_function": patch_fn, "target_attribute": "__call__"}

        return FP()

    def make_leaf_plugin(p: int, spec_slots: list[str]):
        def binding_specs(cls):
            out = []
            for j, s in enumerate(spec_slots, start=1):
                def mk(orig, p=p, j=j):
                    if (p, j) in state["fail_leaf"]:
                        raise Injected(f"leaf {p},{j}")
                    return _Sub(p, j, state["serial"])

                out.append(MonkeyPatchSpec(target=LOC[s][0], attr=LOC[s][1], make_value=mk, delete_if_missing=False))
            return out

        cls = type(
            f"Leaf{p}",
            (ps.PrimitiveLeafPlugin,),
            {
                "binding_specs": classmethod(binding_specs),
                "lower": lambda self, *a, **k: None,
                "_PRIM": None,
                "_ABSTRACT_EVAL_BOUND": True,
            },
        )
        try:
            return cls()
        except TypeError:
            cls.__abstractmethods__ = frozenset()
            return cls()

    def snapshot() -> dict[str, Any]:
        attr = {}
        for s in slots:
            tcls, tattr = LOC[s]
            v = tcls.__dict__.get(tattr, None) if tattr in tcls.__dict__ else None
            if tattr not in tcls.__dict__:
                attr[s] = ["inherit", inherit[s]] if s in inherit else ["missing"]
            elif v is ORIG[s] or (s not in inherit and v is ORIG.get(s)):
                attr[s] = ["orig"]
            elif isinstance(v, _Sub):
                attr[s] = v.tag
            else:
                attr[s] = ["other", repr(v)]
        fn = {}
        for f in fn_slots:
            cls = fn_classes[f]
            st = ps._PATCH_STATE.get((cls, "__call__"))
            fn[f] = {"patched": cls.__dict__["__call__"] is not fn_orig[f], "count": int(st["count"]) if st else 0}
        return {"attr": attr, "fn": fn, "x64": bool(jax.config.jax_enable_x64)}

    def check(where: str, ev: dict[str, Any]) -> None:
        exp = {k: ev["st"][k] for k in ("attr", "fn", "x64")}
        got = snapshot()
        if exp != got:
            raise Mismatch(where, exp, got)

    saved_registry = dict(ps.PLUGIN_REGISTRY)
    saved_patch_state = dict(ps._PATCH_STATE)
    results = []
    try:
        ps.PLUGIN_REGISTRY.clear()
        for i, f in enumerate(fn_slots, start=1):
            ps.PLUGIN_REGISTRY[f"fake_fn_{i}"] = make_fn_plugin(i, f)
        for p, sp in enumerate(leaf_specs, start=1):
            ps.PLUGIN_REGISTRY[f"fake_leaf_{p}"] = make_leaf_plugin(p, sp)

        for li, log in enumerate(logs):
            reset_target()
            for f in fn_slots:
                setattr(fn_classes[f], "__call__", fn_orig[f])
                ps._PATCH_STATE.pop((fn_classes[f], "__call__"), None)
            state.update(serial=0, fail_fn=None, fail_leaf=set())
            x64init = bool(log[0]["st"]["x64"])
            x64_before = bool(jax.config.jax_enable_x64)
            jax.config.update("jax_enable_x64", x64init)
            pos = [0]

            def peek():
                return log[pos[0]] if pos[0] < len(log) else None

            def take(name: str | None = None):
                ev = log[pos[0]]
                if name is not None and ev["e"][0] != name:
                    raise Mismatch(f"log position {pos[0]}", name, ev["e"])
                pos[0] += 1
                return ev

            def world(cm_factory, kind: str) -> None:
                state["serial"] += 1
                state["fail_fn"] = None
                state["fail_leaf"] = set()
                k = pos[0]
                while k < len(log) and log[k]["e"][0] in ("FnFail", "LeafFail"):
                    e = log[k]["e"]
                    if e[0] == "FnFail":
                        state["fail_fn"] = e[1]
                    else:
                        state["fail_leaf"].add((e[1], e[2]))
                    k += 1
                fails = log[pos[0]:k]
                pos[0] = k
                try:
                    with cm_factory():
                        ev = take("Active")
                        check(f"log {li} Active({kind})", ev)
                        while True:
                            nx = peek()
                            if nx["e"][0] == "Begin":
                                outcome = conversion()
                                # End event of the nested conversion: [exc, caught]
                                if outcome["exc"] and not outcome["caught"]:
                                    raise Injected("propagated")
                                continue
                            if nx["e"][0] == "BodyOk":
                                take()
                                return
                            if nx["e"][0] == "BodyRaise":
                                take()
                                raise Injected("body")
                            raise Mismatch(f"log {li} body", "Begin/BodyOk/BodyRaise", nx["e"])
                finally:
                    state["fail_fn"] = None
                    state["fail_leaf"] = set()
                    # a failing activation must have been planned
                    _ = fails

            def conversion() -> dict[str, Any]:
                ev = take("Begin")
                check(f"log {li} Begin", ev)
                enable = bool(ev["e"][1])
                raised = False
                try:
                    with ui._temporary_x64(enable):
                        with capi._force_jax_x64(enable):
                            world(capi._activate_plugin_worlds, "trace")
                            while True:
                                nx = take()
                                check(f"log {li} {nx['e'][0]}", nx)
                                if nx["e"][0] == "Build":
                                    world(ps._activate_full_plugin_worlds_for_body, "build")
                                elif nx["e"][0] == "LowerRaise":
                                    raise Injected("lower")
                                elif nx["e"][0] == "LowerDone":
                                    break
                                else:
                                    raise Mismatch(f"log {li} lower", "Build/LowerRaise/LowerDone", nx["e"])
                            nx = take()
                            check(f"log {li} {nx['e'][0]}", nx)
                            if nx["e"][0] == "PostRaise":
                                raise Injected("post")
                except Injected:
                    raised = True
                ev = take("End")
                check(f"log {li} End", ev)
                if bool(ev["e"][1]) != raised:
                    raise Mismatch(f"log {li} End.exc", ev["e"][1], raised)
                return {"exc": raised, "caught": bool(ev["e"][2])}

            try:
                while pos[0] < len(log):
                    conversion()
                results.append({"log": li, "ok": True, "events": len(log)})
            except Mismatch as mm:
                results.append({"log": li, "ok": False, "where": mm.where, "expected": mm.expected, "got": mm.got})
            except Exception as ex:  # noqa: BLE001  (machinery or unexpected real exception)
                results.append({"log": li, "ok": False, "where": "exception", "expected": None, "got": f"{type(ex).__name__}: {ex}"})
            finally:
                jax.config.update("jax_enable_x64", x64_before)
    finally:
        ps.PLUGIN_REGISTRY.clear()
        ps.PLUGIN_REGISTRY.update(saved_registry)
        ps._PATCH_STATE.clear()
        ps._PATCH_STATE.update(saved_patch_state)
    return results
