"""C04 helpers: enumerate dimension-expression ASTs, build the corresponding JAX symbolic
expressions, export probe functions with the real converter, extract the emitted integer ONNX
program per expression (facts for J2O_DimExpr) and execute the exports at every binding."""

from __future__ import annotations

import itertools
from typing import Any

import numpy as np

BIND_VALS = [1, 2, 3, 5, 7]


def S(n):
    return {"t": "sym", "n": n}


def K(v):
    return {"t": "const", "v": v}


def op(t, a, b):
    return {"t": t, "a": a, "b": b}


def has_sym(e) -> bool:
    if e["t"] == "sym":
        return True
    if e["t"] == "const":
        return False
    return has_sym(e["a"]) or (e["t"] != "pow" and has_sym(e["b"]))


def enumerate_asts(tier: str, rng) -> list[dict[str, Any]]:
    B, N = S("B"), S("N")
    atoms = [B, N, K(2), K(3)]
    divisors = [K(2), K(3), N, op("add", N, K(1))]
    d1 = []
    for a, b in itertools.product(atoms, atoms):
        for t in ("add", "sub", "mul", "max", "min"):
            d1.append(op(t, a, b))
    for a in atoms:
        for d in divisors:
            d1.append(op("floordiv", a, d))
            d1.append(op("mod", a, d))
    d1 += [{"t": "pow", "a": B, "k": 2}, {"t": "pow", "a": N, "k": 3}]
    d1 += [op("sub", B, K(5)), op("sub", N, K(4)), op("sub", K(1), B), op("sub", op("mul", B, K(2)), K(7))]
    d1 = [e for e in d1 if has_sym(e)]
    d2 = []
    inner = [op("sub", B, K(5)), op("sub", B, N), op("mul", B, N), op("add", B, N), op("sub", N, K(3)), op("floordiv", B, K(2)), op("mod", B, K(2)),
             op("max", B, N), op("sub", K(1), B), op("sub", op("mul", B, K(2)), K(7)), op("mul", op("sub", B, K(4)), N)]
    for i in inner:
        for d in divisors:
            d2.append(op("floordiv", i, d))
            d2.append(op("mod", i, d))
        for a in [B, N, K(2), K(4)]:
            for t in ("add", "sub", "mul", "max", "min"):
                d2.append(op(t, i, a))
    d3 = []
    for e in d2[:: 3]:
        d3.append(op("add", e, K(4)))
        d3.append(op("max", e, K(0)))
        d3.append(op("mul", e, B))
    allc = d1 + d2 + d3
    # canonical dedupe
    seen = set()
    out = []
    for e in allc:
        k = repr(e)
        if k not in seen and has_sym(e):
            seen.add(k)
            out.append(e)
    if tier == "quick":
        must = [e for e in out if e["t"] == "floordiv" or (e["t"] in ("add", "max", "mul") and e["a"]["t"] == "floordiv")]
        rest = [e for e in out if e not in must]
        rng.shuffle(must)
        rng.shuffle(rest)
        out = must[:90] + rest[:150]
    return out


def to_jax(e, env):
    from jax._src import core

    t = e["t"]
    if t == "sym":
        return env[e["n"]]
    if t == "const":
        return e["v"]
    if t == "pow":
        return to_jax(e["a"], env) ** e["k"]
    a, b = to_jax(e["a"], env), to_jax(e["b"], env)
    if t == "add":
        return a + b
    if t == "sub":
        return a - b
    if t == "mul":
        return a * b
    if t == "floordiv":
        return a // b
    if t == "mod":
        return a % b
    if t == "max":
        return core.max_dim(a, b)
    if t == "min":
        return core.min_dim(a, b)
    raise ValueError(t)


def py_eval(e, bind):
    t = e["t"]
    if t == "sym":
        return bind[e["n"]]
    if t == "const":
        return e["v"]
    if t == "pow":
        return py_eval(e["a"], bind) ** e["k"]
    a, b = py_eval(e["a"], bind), py_eval(e["b"], bind)
    return {"add": a + b, "sub": a - b, "mul": a * b, "floordiv": a // b if b else 0, "mod": a % b if b else 0, "max": max(a, b), "min": min(a, b)}[t]


INTERP_OPS = {"Shape", "Add", "Sub", "Mul", "Div", "Mod", "Pow", "Max", "Min", "Concat", "Gather", "Reshape", "Squeeze", "Unsqueeze", "Cast", "Identity"}


def extract_program(model, out_name: str) -> dict[str, Any] | None:
    """Backward slice of the main graph from out_name as a straight-line program."""
    import onnx
    from onnx import numpy_helper as onh

    g = model.graph
    inits = {i.name: onh.to_array(i) for i in g.initializer}
    prod = {o: n for n in g.node for o in n.output}
    order: list[str] = []
    prog: list[dict[str, Any]] = []
    index: dict[str, int] = {}
    graph_inputs = {i.name for i in g.input}

    def visit(name: str) -> bool:
        if name in index:
            return True
        if name in inits:
            arr = np.asarray(inits[name]).reshape(-1)
            if arr.size == 0:
                prog.append({"op": "Const", "ins": [], "val": []})
            else:
                if arr.dtype.kind not in "iu" or np.abs(arr).max() > 2**30:
                    return False
                prog.append({"op": "Const", "ins": [], "val": [int(v) for v in arr]})
            index[name] = len(prog)
            return True
        if name in graph_inputs:
            return False  # a tensor input used by value: not a pure shape program
        n = prod.get(name)
        if n is None or n.op_type not in INTERP_OPS or n.domain not in ("", "ai.onnx"):
            return False
        rec: dict[str, Any] = {"op": n.op_type}
        if n.op_type == "Shape":
            if n.input[0] not in graph_inputs:
                return False
            at = {a.name: onnx.helper.get_attribute_value(a) for a in n.attribute}
            rank = len([i for i in g.input if i.name == n.input[0]][0].type.tensor_type.shape.dim)
            start = int(at.get("start", 0))
            stop = int(at.get("end", rank))
            if start < 0:
                start += rank
            if stop < 0:
                stop += rank
            rec.update({"ins": [], "src": n.input[0], "start": start, "stop": stop})
        else:
            ins = []
            use = list(n.input)
            if n.op_type in ("Reshape", "Squeeze", "Unsqueeze"):
                use = use[:1]
            if n.op_type == "Concat" and len(use) != 2:
                return False
            for i in use:
                if not visit(i):
                    return False
                ins.append(index[i])
            rec["ins"] = ins
        prog.append(rec)
        index[name] = len(prog)
        return True

    if not visit(out_name):
        return None
    return {"prog": prog, "out": index[out_name]}


def probe_batch(asts: list[dict[str, Any]]) -> dict[str, Any]:
    """Export f(x) = tuple(expr_k(x.shape)) once; return per-expression program facts and ORT/JAX
    values at every binding."""
    import jax
    import jax.numpy as jnp

    import jax2onnx
    from harness import onnxutil as U

    def f(x):
        env = {"B": x.shape[0], "N": x.shape[1]}
        return tuple(jnp.asarray(to_jax(e, env)) for e in asts)

    res: dict[str, Any] = {"cases": [], "export_error": None}
    try:
        m = jax2onnx.to_onnx(f, [("B", "N")])
    except Exception as ex:  # noqa: BLE001
        res["export_error"] = f"{type(ex).__name__}: {str(ex)[:200]}"
        return res
    outs = [o.name for o in m.graph.output]
    sess = U.ort_session(m)
    iname = sess.get_inputs()[0].name if sess.get_inputs() else None
    table = {}
    for b, n in itertools.product(BIND_VALS, BIND_VALS):
        x = np.zeros((b, n), np.float32)
        got = sess.run(None, {iname: x} if iname else {})
        ref = [int(np.asarray(v)) for v in f(x)]
        table[(b, n)] = ([int(np.asarray(v)) for v in got], ref)
    for k, e in enumerate(asts):
        facts = extract_program(m, outs[k]) if k < len(outs) else None
        rows = []
        for (b, n), (got, ref) in table.items():
            rows.append({"B": b, "N": n, "ort": got[k], "jax": ref[k], "math": py_eval(e, {"B": b, "N": n})})
        res["cases"].append({"ast": e, "facts": facts, "rows": rows})
    return res


# ------------------------------------------------------------------------------------------------
# templates: symbolic dims used by real programs (origin soundness), run at every binding
# ------------------------------------------------------------------------------------------------


def template_runs(only: list[str] | None = None, quick: bool = False) -> list[dict[str, Any]]:
    import jax
    import jax.numpy as jnp
    from jax import lax

    import jax2onnx
    from harness import onnxutil as U
    from harness import userfns

    f32 = np.float32

    def t_flatten(x):
        return x.reshape(x.shape[0] * x.shape[1])

    def t_swap(x):
        return x.reshape(-1).reshape(x.shape[1], x.shape[0])

    def t_arange(x):
        return jnp.arange(x.shape[0] * 2 + 1) + x.shape[1]

    def t_arange_floordiv(x):
        return jnp.arange((x.shape[0] - 5) // 2 + 4)

    def t_broadcast(x):
        return jnp.broadcast_to(x[:1, :], (x.shape[0] + 1, x.shape[1]))

    def t_slice_half(x):
        return x[: x.shape[0] // 2 + 1]

    def t_concat_reshape(x):
        return jnp.concatenate([x, x], axis=0).reshape(2 * x.shape[0], x.shape[1])

    def t_in_loop(x):
        return lax.fori_loop(0, 2, lambda i, c: c + x.shape[0] * 1.0, x)

    def t_in_while(x):
        return lax.while_loop(lambda c: c[1] < x.shape[0], lambda c: (c[0] + 1.0, c[1] + 1), (x, 0))[0]

    def t_in_function(x):
        return userfns.shape_scaled(x)

    def t_two_inputs(x, y):
        return (x + y).reshape(x.shape[0], y.shape[1] * 1).sum(axis=1) * x.shape[0]

    def t_mean_manual(x):
        return x.sum(axis=0) / x.shape[0]

    def t_tile(x):
        return jnp.tile(x, (2, 1)).reshape(2, x.shape[0], x.shape[1])

    def t_expand(x):
        return x[None, :, :].reshape(1, x.shape[0] * x.shape[1])

    def t_nchw(x):
        # x is NHWC for the callable; model input is NCHW
        return x.reshape(x.shape[0], x.shape[1] * x.shape[2], x.shape[3]).sum(axis=1)

    cases = [
        ("flatten", t_flatten, [("B", "N")], {}),
        ("swap_two_symbols", t_swap, [("B", "N")], {}),
        ("arange", t_arange, [("B", "N")], {}),
        ("arange_floordiv_negative", t_arange_floordiv, [("B",)], {}),
        ("broadcast", t_broadcast, [("B", "N")], {}),
        ("slice_half", t_slice_half, [("B", 3)], {}),
        ("concat_reshape", t_concat_reshape, [("B", "N")], {}),
        ("dim_in_fori_body", t_in_loop, [("B", 2)], {}),
        ("dim_in_while_cond", t_in_while, [("B", 2)], {}),
        ("dim_in_onnx_function", t_in_function, [("B", "N")], {}),
        ("two_inputs_shared_symbol", t_two_inputs, [("B", "N"), ("B", "N")], {}),
        ("mean_manual", t_mean_manual, [("B", 3)], {}),
        ("tile", t_tile, [("B", "N")], {}),
        ("expand", t_expand, [("B", "N")], {}),
        ("nchw_input", t_nchw, [("B", 2, "N", 3)], {"inputs_as_nchw": [0]}),
    ]
    if only == ["__names__"]:
        return [{"template": c[0]} for c in cases]
    out = []
    for name, fn, specs, kw in cases:
        if only is not None and name not in only:
            continue
        rec: dict[str, Any] = {"template": name, "runs": [], "export_error": None}
        try:
            m = jax2onnx.to_onnx(fn, specs, **kw)
            sess = U.ort_session(m)
        except Exception as ex:  # noqa: BLE001
            rec["export_error"] = f"{type(ex).__name__}: {str(ex)[:200]}"
            out.append(rec)
            continue
        names = [i.name for i in sess.get_inputs()]
        for b, n in itertools.product(BIND_VALS + [11], [1, 2, 3, 5]) if not quick else itertools.product(BIND_VALS, [1, 2, 3]):
            bind = {"B": b, "N": n}
            xs = []
            for si, s in enumerate(specs):
                shp = tuple(bind.get(d, d) for d in s)
                cnt = int(np.prod(shp))
                xs.append(((np.arange(cnt) % 13 - 6) / 2.0 + si).reshape(shp).astype(f32))
            try:
                ref = [np.asarray(v) for v in jax.tree_util.tree_leaves(fn(*[jnp.asarray(x) for x in xs]))]
            except Exception:  # noqa: BLE001  (binding outside the callable's own domain)
                continue
            feeds = {}
            for k, (nm, x) in enumerate(zip(names, xs)):
                feeds[nm] = np.transpose(x, (0, 3, 1, 2)) if k in kw.get("inputs_as_nchw", []) else x
            try:
                got = sess.run(None, feeds)
                ok = len(got) == len(ref) and all(g.shape == r.shape and np.allclose(g, r, rtol=1e-6, atol=1e-6) for g, r in zip(got, ref))
                detail = None if ok else {"got_shapes": [list(g.shape) for g in got], "ref_shapes": [list(r.shape) for r in ref]}
            except Exception as ex:  # noqa: BLE001
                ok = False
                detail = {"ort_error": str(ex)[:200]}
            rec["runs"].append({"B": b, "N": n, "ok": ok, "detail": detail})
        out.append(rec)
    return out
