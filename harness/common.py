"""Shared infrastructure for the /verif checks.

Every check is a module ``harness/checks/cXX.py`` exposing ``run(ctx)``.  ``ctx``
(:class:`Ctx`) carries tier / seed, collects coverage numbers, samples, violations and
known-finding matches, runs TLC and writes ``/verif/evidence/<id>.json``.

Exit codes: 0 property held (KNOWN-FINDING lines allowed), 1 VIOLATION, 2 machinery failure.
"""

from __future__ import annotations

import hashlib
import json
import os
import re
import shutil
import subprocess
import sys
import time
from pathlib import Path
from typing import Any, Iterable

VERIF = Path(__file__).resolve().parent.parent
REPO = Path(os.environ.get("J2O_REPO", "/repo"))
SPEC = VERIF / "spec"
WORK = VERIF / ".work"
EVID = VERIF / "evidence"
REPLAYS = VERIF / "replays"
KNOWN = VERIF / "known_findings.json"
if str(REPO) != "/repo":
    # a scratch tree (seeded change) is being checked: keep its evidence / replays apart from the real ones
    _alt = WORK / "alt" / str(REPO).strip("/").replace("/", "_")
    EVID = _alt / "evidence"
    REPLAYS = _alt / "replays"
TLA_JAR = "/opt/veriftools/tla/tla2tools.jar"
TLA_CP = TLA_JAR + ":/opt/veriftools/tla/CommunityModules-deps.jar"
PY = "/venv/bin/python"


class MachineryError(RuntimeError):
    pass


def jdump(obj: Any) -> str:
    return json.dumps(obj, sort_keys=True, default=_json_default)


def _json_default(o: Any) -> Any:
    try:
        import numpy as np

        if isinstance(o, np.ndarray):
            return o.tolist()
        if isinstance(o, np.generic):
            return o.item()
    except Exception:
        pass
    if isinstance(o, (set, frozenset)):
        return sorted(o, key=repr)
    if isinstance(o, bytes):
        return o.hex()
    if isinstance(o, Path):
        return str(o)
    return repr(o)


def digest(obj: Any) -> str:
    return hashlib.sha256(jdump(obj).encode()).hexdigest()[:16]


# --------------------------------------------------------------------------------------
# TLA+ value rendering
# --------------------------------------------------------------------------------------


def tla(v: Any) -> str:
    """Render a python value as a TLA+ expression (bool/int/str/list->seq/set/dict->record-fn)."""
    if isinstance(v, bool):
        return "TRUE" if v else "FALSE"
    if isinstance(v, int):
        if not (-(2**31) < v < 2**31):
            raise MachineryError(f"integer {v} exceeds TLC 32-bit range")
        return str(v)
    if isinstance(v, str):
        return '"' + v.replace("\\", "\\\\").replace('"', '\\"') + '"'
    if isinstance(v, (list, tuple)):
        return "<<" + ", ".join(tla(x) for x in v) + ">>"
    if isinstance(v, (set, frozenset)):
        return "{" + ", ".join(sorted(tla(x) for x in v)) + "}"
    if isinstance(v, dict):
        if not v:
            return "<<>>"
        items = list(v.items())
        if all(isinstance(k, str) and re.fullmatch(r"[A-Za-z][A-Za-z0-9_]*", k) for k, _ in items):
            return "[" + ", ".join(f"{k} |-> {tla(x)}" for k, x in items) + "]"
        return "(" + " @@ ".join(f"({tla(k)} :> {tla(x)})" for k, x in items) + ")"
    raise MachineryError(f"cannot render {type(v)} as TLA+")


# --------------------------------------------------------------------------------------
# TLC runner
# --------------------------------------------------------------------------------------


class TLCResult:
    def __init__(self) -> None:
        self.ok = False
        self.states_generated = 0
        self.distinct = 0
        self.depth = 0
        self.violated: str | None = None
        self.output = ""
        self.coverage: dict[str, int] = {}
        self.printed: list[str] = []
        self.wall_s = 0.0
        self.rc = 0


_GEN_RE = re.compile(r"(\d+) states generated, (\d+) distinct states found")
_DEPTH_RE = re.compile(r"The depth of the complete state graph search is (\d+)")
_COV_RE = re.compile(r"^<(\w+) line (\d+), col (\d+) to line (\d+), col (\d+) of module (\w+)>: (\d+):(\d+)")


def run_tlc(
    module: str,
    cfg: str | None = None,
    *,
    workdir: Path | None = None,
    workers: int | str = "auto",
    timeout: int = 600,
    env: dict[str, str] | None = None,
    extra: Iterable[str] = (),
    coverage: bool = True,
    deadlock: bool = False,
    gen_files: dict[str, str] | None = None,
    simulate: str | None = None,
    depth: int | None = None,
    seed: int | None = None,
    deque: bool = False,
) -> TLCResult:
    """Run TLC on spec/<module>.tla with spec/<cfg> (or generated files placed in a scratch dir).

    The module and every other spec file are copied into a scratch directory under .work/ so
    generated constants modules (``gen_files``: name -> text) can sit beside them.
    """
    t0 = time.time()
    wd = workdir or (WORK / "tlc" / f"{module}_{os.getpid()}_{int(t0*1000)%100000}")
    if wd.exists():
        shutil.rmtree(wd)
    wd.mkdir(parents=True)
    for f in SPEC.glob("*.tla"):
        shutil.copy(f, wd / f.name)
    for f in SPEC.glob("*.cfg"):
        shutil.copy(f, wd / f.name)
    for name, text in (gen_files or {}).items():
        (wd / name).write_text(text)
    cfg = cfg or f"{module}.cfg"
    nworkers = str(os.cpu_count() or 4) if workers == "auto" else str(workers)
    cmd = ["java", "-XX:+UseParallelGC", "-Xmx8g"]
    if deque:
        cmd.append("-Dtlc2.tool.queue.IStateQueue=StateDeque")
    cmd += ["-cp", TLA_CP, "tlc2.TLC", "-workers", nworkers, "-metadir", str(wd / "meta"),
            "-noGenerateSpecTE", "-config", cfg]
    if coverage:
        cmd += ["-coverage", "1"]
    if deadlock:
        cmd += ["-deadlock"]
    if simulate is not None:
        cmd += ["-simulate", simulate]
    if depth is not None:
        cmd += ["-depth", str(depth)]
    if seed is not None:
        cmd += ["-seed", str(seed)]
    cmd += list(extra)
    cmd += [f"{module}.tla"]
    e = dict(os.environ)
    e.update(env or {})
    try:
        p = subprocess.run(cmd, cwd=wd, env=e, capture_output=True, text=True, timeout=timeout)
        out = p.stdout + p.stderr
        rc = p.returncode
    except subprocess.TimeoutExpired as ex:
        out = (ex.stdout or b"").decode(errors="replace") if isinstance(ex.stdout, bytes) else (ex.stdout or "")
        out += "\nTLC TIMEOUT"
        rc = 124
    r = TLCResult()
    r.output = out
    r.rc = rc
    r.wall_s = time.time() - t0
    for m in _GEN_RE.finditer(out):
        r.states_generated, r.distinct = int(m.group(1)), int(m.group(2))
    m = _DEPTH_RE.search(out)
    if m:
        r.depth = int(m.group(1))
    for line in out.splitlines():
        mm = _COV_RE.match(line.strip())
        if mm:
            r.coverage[mm.group(1)] = max(r.coverage.get(mm.group(1), 0), int(mm.group(8)))
    mv = re.search(r"Error: Invariant (\w+) is violated", out)
    if mv:
        r.violated = mv.group(1)
    mv = re.search(r"Error: Action property (\w+) is violated", out) or mv
    if mv and not r.violated:
        r.violated = mv.group(1)
    if "is violated" in out and not r.violated:
        r.violated = "property"
    if re.search(r"Error: Assumption .* is false", out):
        r.violated = "ASSUME"
    r.ok = (rc == 0) and ("Model checking completed. No error has been found" in out or "Finished" in out and "Error:" not in out)
    r.printed = [l for l in out.splitlines() if l.startswith('"') or l.startswith("<<") or l.startswith("[")]
    r.workdir = wd  # type: ignore[attr-defined]
    return r


def tlc_must_pass(r: TLCResult, what: str) -> None:
    if not r.ok and not r.violated:
        tail = "\n".join(r.output.splitlines()[-40:])
        raise MachineryError(f"TLC failed ({what}), rc={r.rc}:\n{tail}")


def cleanup_tlc(r: TLCResult) -> None:
    wd = getattr(r, "workdir", None)
    if wd and Path(wd).exists():
        shutil.rmtree(wd, ignore_errors=True)


def parse_tlc_values(lines: Iterable[str]) -> list[Any]:
    """Parse TLC PrintT output lines holding JSON strings produced with ToJson."""
    res = []
    for l in lines:
        l = l.strip()
        if l.startswith('"') and l.endswith('"'):
            try:
                s = json.loads(l)
                res.append(json.loads(s))
            except Exception:
                continue
    return res


# --------------------------------------------------------------------------------------
# Known findings
# --------------------------------------------------------------------------------------


def load_known() -> list[dict[str, Any]]:
    if KNOWN.exists():
        return json.loads(KNOWN.read_text())
    return []


def sig_matches(known_sig: dict[str, Any], sig: dict[str, Any]) -> bool:
    """A known signature matches when each of its keys equals the violation's key."""
    for k, v in known_sig.items():
        if k.endswith("__contains"):
            field = k[: -len("__contains")]
            if field not in sig or str(v) not in str(sig[field]):
                return False
            continue
        if k.endswith("__subset"):
            # the known finding names a set of changes; any violation that includes all of them is explained
            field = k[: -len("__subset")]
            if field not in sig or not isinstance(sig[field], (list, tuple)) or not set(map(str, v)) <= set(map(str, sig[field])):
                return False
            continue
        if k not in sig:
            return False
        if jdump(sig[k]) != jdump(v):
            return False
    return True


# --------------------------------------------------------------------------------------
# Check context
# --------------------------------------------------------------------------------------


class Ctx:
    def __init__(self, pid: str, tier: str, seed: int, level: str) -> None:
        self.pid = pid
        self.tier = tier
        self.seed = seed
        self.level = level
        self.t0 = time.time()
        self.cov: dict[str, Any] = {
            "evaluations": 0,
            "distinct_nontrivial": 0,
            "rule": "",
            "samples": [],
            "states": 0,
            "transitions": 0,
            "traces_validated_against_impl": 0,
        }
        self.assumptions: list[str] = []
        self.violations: list[dict[str, Any]] = []
        self.known_hits: list[dict[str, Any]] = []
        self._distinct: set[str] = set()
        self.known = [k for k in load_known() if k.get("property") == pid]
        self.extra: dict[str, Any] = {}

    @property
    def quick(self) -> bool:
        return self.tier == "quick"

    # ---- coverage bookkeeping
    def count(self, key: Any = None, nontrivial: bool = True, n: int = 1) -> None:
        self.cov["evaluations"] += n
        if key is not None and nontrivial:
            self._distinct.add(key if isinstance(key, str) else digest(key))

    def sample(self, s: Any, limit: int = 12) -> None:
        if len(self.cov["samples"]) < limit:
            self.cov["samples"].append(s)

    def add_tlc(self, r: TLCResult, label: str) -> None:
        self.cov["states"] += r.distinct
        self.cov["transitions"] += r.states_generated
        self.extra.setdefault("tlc_runs", []).append(
            {
                "label": label,
                "distinct_states": r.distinct,
                "states_generated": r.states_generated,
                "depth": r.depth,
                "wall_s": round(r.wall_s, 2),
                "violated": r.violated,
                "uncovered_actions": sorted(k for k, v in r.coverage.items() if v == 0),
                "action_counts": dict(sorted(r.coverage.items())[:60]),
            }
        )

    # ---- violations
    def violation(self, sig: dict[str, Any], what: str, detail: Any = None) -> None:
        """Record a property violation observed on the real code (or match a known finding)."""
        for k in self.known:
            if k.get("status", "open") == "open" and sig_matches(k["signature"], sig):
                if not any(h["id"] == k["id"] for h in self.known_hits):
                    self.known_hits.append({"id": k["id"], "what": k["what"], "sig": sig})
                return
        d = digest(sig)
        if any(v["digest"] == d for v in self.violations):
            return
        self.violations.append({"digest": d, "signature": sig, "what": what, "detail": detail})

    # ---- finish
    def finish(self) -> int:
        self.cov["distinct_nontrivial"] = len(self._distinct)
        for k, v in self.extra.items():
            self.cov[k] = v
        self.cov["known_findings_matched"] = [h["id"] for h in self.known_hits]
        ev = {
            "property_id": self.pid,
            "tier": self.tier,
            "seed": self.seed,
            "level": self.level,
            "coverage": self.cov,
            "assumptions": self.assumptions,
            "wall_s": round(time.time() - self.t0, 2),
            "violations": len(self.violations),
        }
        EVID.mkdir(parents=True, exist_ok=True)
        (EVID / f"{self.pid}.json").write_text(json.dumps(ev, indent=1, default=_json_default) + "\n")
        for h in self.known_hits:
            print(f"KNOWN-FINDING: property={self.pid} {h['id']}: {h['what']}")
        rc = 0
        try:
            WORK.mkdir(exist_ok=True)
            ((WORK if str(REPO) == "/repo" else EVID.parent) / f"{self.pid}.violations.json").write_text(json.dumps(self.violations, indent=1, default=_json_default) + "\n")
        except OSError:
            pass
        if self.violations:
            d = REPLAYS / self.pid
            d.mkdir(parents=True, exist_ok=True)
            for v in self.violations[:20]:
                p = d / f"{v['digest']}.json"
                p.write_text(json.dumps(v, indent=1, default=_json_default) + "\n")
                print(f"VIOLATION property={self.pid} replay={p}")
                print(f"  what: {v['what']}")
                print(f"  signature: {jdump(v['signature'])}")
            rc = 1
        print(
            f"[{self.pid}] tier={self.tier} seed={self.seed} evaluations={self.cov['evaluations']} "
            f"distinct={self.cov['distinct_nontrivial']} states={self.cov['states']} "
            f"traces={self.cov['traces_validated_against_impl']} violations={len(self.violations)} "
            f"known={len(self.known_hits)} wall={ev['wall_s']}s"
        )
        return rc


def repo_env() -> dict[str, str]:
    e = dict(os.environ)
    e.setdefault("PYTHONHASHSEED", "0")
    e["JAX_PLATFORMS"] = "cpu"
    e["PYTHONPATH"] = f"{VERIF}:{REPO}" + (":" + e["PYTHONPATH"] if e.get("PYTHONPATH") else "")
    e["J2O_VERIF_TRACE"] = "1"
    return e


def run_py(script_args: list[str], *, timeout: int = 900, env: dict[str, str] | None = None, input_text: str | None = None) -> subprocess.CompletedProcess:
    e = repo_env()
    e.update(env or {})
    return subprocess.run([PY, *script_args], cwd=str(VERIF), env=e, capture_output=True, text=True, timeout=timeout, input=input_text)
