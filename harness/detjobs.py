"""C14: request digests under histories / hash seeds / address perturbation."""

from __future__ import annotations

import hashlib
import os
import random
from typing import Any

import numpy as np


def _requests():
    from harness import faultjobs, hostjobs

    reqs = {}
    base = hostjobs._requests()
    for k in ("ok", "ok_double", "fn_ok", "loop_ok", "nnx_linear", "nnx_block", "eqx_linear", "user_raise", "unsupported", "fn_body_fail", "save_fail", "fn_flaky_ok", "fn_flaky_fail", "fn_nested_multi"):
        if k in base:
            reqs[k] = base[k]
    P = faultjobs.programs()
    for name in ("tchain", "treduce", "addforest", "function", "loop", "silu_opset24", "nchw", "reshape_cast"):
        if name in P:
            fn, specs, kw = P[name]
            reqs[name] = (lambda fn=fn, specs=specs, kw=kw: dict(fn=fn, inputs=specs, **kw))
    return reqs


def _digest(model) -> str:
    return hashlib.sha256(model.SerializeToString(deterministic=True)).hexdigest()[:20]


def run_history(history: list[str], perturb: int = 0, corpus_indices: list[int] | None = None) -> dict[str, Any]:
    """Convert the requests in order in THIS process; return one digest per successful conversion."""
    import jax2onnx

    rng = random.Random(perturb)
    reqs = _requests()
    out = []
    junk = []
    for kind in history:
        if perturb:
            # shift heap addresses (node hashes are address based) and leave garbage around
            junk.append([object() for _ in range(rng.randrange(50, 5000))])
            if rng.random() < 0.5:
                junk.pop(0)
        if kind.startswith("corpus:"):
            from harness import corpus as C

            tp = C.variants()[int(kind.split(":")[1])]
            try:
                m, _ = C.export(tp)
                out.append({"kind": kind, "digest": _digest(m)})
            except Exception as ex:  # noqa: BLE001
                out.append({"kind": kind, "error": type(ex).__name__})
            continue
        if kind not in reqs:
            out.append({"kind": kind, "error": "unknown_kind"})
            continue
        kw = dict(reqs[kind]())
        fn = kw.pop("fn")
        inputs = kw.pop("inputs")
        kw.pop("_probe", None)
        try:
            m = jax2onnx.to_onnx(fn, inputs, **kw)
            if isinstance(m, str):
                out.append({"kind": kind, "error": "file"})
            else:
                out.append({"kind": kind, "digest": _digest(m)})
        except Exception as ex:  # noqa: BLE001
            out.append({"kind": kind, "error": type(ex).__name__})
    return {"results": out, "hashseed": os.environ.get("PYTHONHASHSEED"), "perturb": perturb}
