"""Module-level user callables decorated with @onnx_function (the decorator patches the function as
an attribute of its defining module, so they cannot be local functions)."""

from __future__ import annotations

import jax.numpy as jnp
from jax.extend import core as jex_core

from jax2onnx import onnx_function

unsupported_p = jex_core.Primitive("verif_unsupported_prim")
unsupported_p.def_impl(lambda x: x)
unsupported_p.def_abstract_eval(lambda x: x)


@onnx_function
def inner_ok(x):
    return jnp.cos(x) + 1.0


@onnx_function
def inner_unsupported(x):
    return unsupported_p.bind(x)


CALLS = {"n": 0, "fail_even": True}


@onnx_function
def inner_second_trace_raises(x):
    import jax2onnx.plugins.plugin_system as ps

    CALLS["n"] += 1
    if CALLS["fail_even"] and ps._IN_FUNCTION_BUILD.get():
        raise RuntimeError("raises while the function body is traced")
    return x * 3.0


@onnx_function
def shape_scaled(x):
    # uses a symbolic dimension inside a function body
    return x * (x.shape[0] * 1.0) + x.shape[1]


@onnx_function
def flagged(x, p=True):
    # consumes a call-time parameter inside a function body
    return jnp.where(p, x, -x)


@onnx_function
def rev_scan_fn(x):
    from jax import lax

    return lax.scan(lambda c, e: (c + e, c), jnp.float32(0.0), x, reverse=True)[1]
