"""Module-level user callables decorated with @onnx_function (the decorator patches the function as
an attribute of its defining module, so they cannot be local functions)."""

from __future__ import annotations

import jax.numpy as jnp
from jax.extend import core as jex_core

from jax2onnx import onnx_function

unsupported_p = jex_core.Primitive("verif_unsupported_prim")
unsupported_p.def_impl(lambda x: x)
unsupported_p.def_abstract_eval(lambda x: x)


@onnx_function
def inner_ok(x):
    return jnp.cos(x) + 1.0


@onnx_function
def inner_unsupported(x):
    return unsupported_p.bind(x)


CALLS = {"n": 0, "fail_even": True}


@onnx_function
def inner_second_trace_raises(x):
    import jax2onnx.plugins.plugin_system as ps

    CALLS["n"] += 1
    if CALLS["fail_even"] and ps._IN_FUNCTION_BUILD.get():
        raise RuntimeError("raises while the function body is traced")
    return x * 3.0


@onnx_function
def shape_scaled(x):
    # uses a symbolic dimension inside a function body
    return x * (x.shape[0] * 1.0) + x.shape[1]


@onnx_function
def flagged(x, p=True):
    # consumes a call-time parameter inside a function body
    return jnp.where(p, x, -x)


@onnx_function
def rev_scan_fn(x):
    from jax import lax

    return lax.scan(lambda c, e: (c + e, c), jnp.float32(0.0), x, reverse=True)[1]


# ---------------------------------------------------------------------------------------------
# C07: parametric @onnx_function targets (decorated subclasses of undecorated bases)
# ---------------------------------------------------------------------------------------------
import numpy as _np


def _weights(w: int) -> "_np.ndarray":
    base = (_np.arange(9, dtype=_np.float32).reshape(3, 3) - 4.0) / 8.0
    return base if w == 1 else base.T * 1.5 + 0.25


class _PlainBase:
    """Not a pytree: state lives in __dict__."""

    def __init__(self, w: int, cfg: int):
        self.w = _weights(w)
        self.cfg = cfg

    def __call__(self, x, scale=1.0, flip=False, shift=0.0):
        y = x.astype(jnp.float32) @ self.w
        if self.cfg == 2:
            y = jnp.tanh(y)
        return jnp.where(flip, -y, y) * scale + shift


@onnx_function
class PlainShared(_PlainBase):
    pass


@onnx_function(unique=True)
class PlainUnique(_PlainBase):
    pass


# J2O_FnDedup table "homonym": ANOTHER decorated class with the same display name (as if defined in another module)
def _homonym(name: str, unique: bool):
    cls = type(name, (_PlainBase,), {"__module__": "harness.userfns_other", "__qualname__": name})
    return onnx_function(unique=True)(cls) if unique else onnx_function(cls)


PlainSharedHomonym = _homonym("PlainShared", False)
PlainUniqueHomonym = _homonym("PlainUnique", True)


def _free_impl(x, scale=1.0, flip=False, shift=0.0):
    y = x.astype(jnp.float32) @ _weights(1)
    return jnp.where(flip, -y, y) * scale + shift


@onnx_function
def free_shared(x, scale=1.0, flip=False, shift=0.0):
    return _free_impl(x, scale, flip, shift)


@onnx_function(unique=True)
def free_unique(x, scale=1.0, flip=False, shift=0.0):
    return _free_impl(x, scale, flip, shift)


# outer @onnx_function bodies (one per call site): a site with scope "body" is called from inside
# its own outer function, so two such sites are lowered in SIBLING function-body contexts
SITE_CALL: dict = {}


@onnx_function
def outer_body_1(x):
    return SITE_CALL[1](x) + 0.0


@onnx_function
def outer_body_2(x):
    return SITE_CALL[2](x) + 0.0


@onnx_function
def outer_body_3(x):
    return SITE_CALL[3](x) + 0.0


try:
    from flax import nnx as _nnx

    class _NnxBase(_nnx.Module):
        def __init__(self, w: int, cfg: int):
            self.w = _nnx.Param(jnp.asarray(_weights(w)))
            self.cfg = cfg

        def __call__(self, x, scale=1.0, flip=False, shift=0.0):
            y = x.astype(jnp.float32) @ self.w.value
            if self.cfg == 2:
                y = jnp.tanh(y)
            return jnp.where(flip, -y, y) * scale + shift

    @onnx_function
    class NnxShared(_NnxBase):
        pass

    @onnx_function(unique=True)
    class NnxUnique(_NnxBase):
        pass

    class _NnxNestedBase(_nnx.Module):
        """weights live in a NESTED sub-module (the common case for real models)"""

        def __init__(self, w: int, cfg: int):
            self.inner = _NnxBase(w, cfg)

        def __call__(self, x, scale=1.0, flip=False, shift=0.0):
            return self.inner(x, scale=scale, flip=flip, shift=shift) + 1.0

    @onnx_function
    class NnxNestedShared(_NnxNestedBase):
        pass

    @onnx_function(unique=True)
    class NnxNestedUnique(_NnxNestedBase):
        pass

except Exception:  # noqa: BLE001
    pass

try:
    import equinox as _eqx

    class _EqxBase(_eqx.Module):
        w: jnp.ndarray
        cfg: int = _eqx.field(static=True)

        def __init__(self, w: int, cfg: int):
            self.w = jnp.asarray(_weights(w))
            self.cfg = cfg

        def __call__(self, x, scale=1.0, flip=False, shift=0.0):
            y = x.astype(jnp.float32) @ self.w
            if self.cfg == 2:
                y = jnp.tanh(y)
            return jnp.where(flip, -y, y) * scale + shift

    @onnx_function
    class EqxShared(_EqxBase):
        pass

    @onnx_function(unique=True)
    class EqxUnique(_EqxBase):
        pass

except Exception:  # noqa: BLE001
    pass


@onnx_function
def add_eps30(x):
    return (x + 2.0 ** -30) * 1.0


@onnx_function
def outer_body_any(*xs):
    """Function-body context for an arbitrary callable (C11 context sweep): SITE_CALL["any"] is the body."""
    return SITE_CALL["any"](*xs)


# C14: a function body that calls three other function domains (its opset imports are collected from the body)
@onnx_function
def fn_scale(x):
    return x * 2.0


@onnx_function
def fn_shift(x):
    return x + 1.0


@onnx_function
def fn_squash(x):
    return jnp.tanh(x)


@onnx_function
def fn_encoder(x):
    return fn_squash(fn_shift(fn_scale(x))) + fn_scale(x)


# C03: function bodies that fold to the identity (the body's output IS its input after optimisation)
@onnx_function
def fn_identity(x):
    return x


@onnx_function
def fn_transpose_pair(x):
    return x.T.T


@onnx_function
def fn_reshape_roundtrip(x):
    return x.reshape(-1).reshape(x.shape)


@onnx_function
def fn_same_dtype_cast(x):
    return x.astype(x.dtype)


# C08: a dtype-polymorphic function body (valid for float and integer operands alike)
@onnx_function
def fn_poly_square(x):
    return x * x + x


@onnx_function(unique=True)
def fn_poly_square_unique(x):
    return x * x + x


@onnx_function
def fn_transpose_reduce(x):
    # Transpose -> ReduceMean(keepdims) -> inverse Transpose inside a function body (folded by the optimizer)
    return jnp.transpose(jnp.mean(jnp.transpose(x, (0, 2, 1)), axis=1, keepdims=True), (0, 2, 1))


@onnx_function
def fn_first_of_two(x, y):
    return x


@onnx_function
def fn_fanout(x):
    # a body whose four results all fold back onto its input
    return x, x.T.T, x.reshape(-1).reshape(x.shape), jnp.swapaxes(jnp.swapaxes(x, 0, 1), 0, 1)


@onnx_function
def switch4_fn(x):
    from jax import lax as _lax

    idx = (x[0] > 0).astype(jnp.int32) * 3
    return _lax.switch(idx, [lambda v: v + 1, lambda v: v * 2, lambda v: v - 1, lambda v: v * v], x)
