------------------------------ MODULE J2O_Patterns ------------------------------
(***************************************************************************)
(* Initial graphs of J2O_GraphRewrite: the NEIGHBOURHOOD of every pattern  *)
(* the optimizer rules hunt for -- the intended pattern plus the variations *)
(* a guard has to exclude: side operands of each kind, intermediates that  *)
(* are also graph outputs or have a second consumer, non-inverse perms,     *)
(* repeated sizes (a layout mix-up becomes a silently different tensor),    *)
(* distinct sizes (it becomes an invalid graph), symbolic dims.             *)
(* The same set is emitted as JSON and replayed through the real passes.    *)
(***************************************************************************)
EXTENDS Integers, Sequences, FiniteSets, TLC, J2O_CastRules

CONSTANTS Tier      \* "quick" | "thorough": size of the neighbourhoods

UnaryOps == {"Relu", "Tanh", "Sigmoid", "Neg", "Abs", "Identity", "Swish", "Elu"}
BinaryOps == {"Add", "Mul", "Sub", "Max", "Min"}

DTypes == {"FLOAT", "DOUBLE", "FLOAT16", "INT32", "INT64"}
FmtOf(n) == CASE n = "FLOAT" -> FloatFmt(24, -149, 127, TRUE, TRUE, FALSE)
              [] n = "DOUBLE" -> FloatFmt(53, -1074, 1023, TRUE, TRUE, FALSE)
              [] n = "FLOAT16" -> FloatFmt(11, -24, 15, TRUE, TRUE, FALSE)
              [] n = "INT32" -> IntFmt(TRUE, 32)
              [] n = "INT64" -> IntFmt(TRUE, 64)
SafeCasts == {<<a, b>> \in DTypes \X DTypes : Accepts(FmtOf(a), FmtOf(b))}

NR(id) == <<"n", id>>
Tok(x) == ToString(x)      \* declared dimension tokens are strings: "3" or a symbol name
TNode(in, p) == [op |-> "Transpose", ins |-> <<in>>, perm |-> p]
PShape(sh, p) == [i \in 1..Len(p) |-> sh[p[i] + 1]]
Perms3 == {<<0, 1, 2>>, <<0, 2, 1>>, <<1, 0, 2>>, <<1, 2, 0>>, <<2, 0, 1>>, <<2, 1, 0>>}
InvOf(p) == CHOOSE q \in Perms3 : \A i \in 1..3 : p[q[i] + 1] = i - 1
Shapes3 == IF Tier = "quick" THEN {<<2, 3, 4>>, <<2, 2, 3>>} ELSE {<<2, 3, 4>>, <<2, 2, 3>>, <<2, 2, 2>>, <<1, 3, 2>>}
UsedPerms == IF Tier = "quick" THEN {<<0, 2, 1>>, <<1, 2, 0>>, <<2, 0, 1>>} ELSE Perms3 \ {<<0, 1, 2>>}

PermPairs == UNION {{<<p1, p2>> : p2 \in {InvOf(p1), p1} \ {<<0, 1, 2>>}} : p1 \in UsedPerms}

In1(sh) == (0 :> [sh |-> sh, dt |-> "FLOAT"])
In2(sh) == (0 :> [sh |-> sh, dt |-> "FLOAT"]) @@ (1 :> [sh |-> sh, dt |-> "FLOAT"])
NoConsts == [c \in {} |-> 0]

---------------------------------------------------------------------------
(* T1 -> elementwise chain -> T2 *)
ChainOps == {[op |-> "Relu", side |-> "none"], [op |-> "Cast", side |-> "none"],
             [op |-> "Max", side |-> "scalar"], [op |-> "Max", side |-> "vec"],
             [op |-> "Add", side |-> "full"], [op |-> "Mul", side |-> "self"],
             [op |-> "Min", side |-> "one"]}
Chains == {<<>>} \cup {<<c>> : c \in ChainOps}
          \cup (IF Tier = "quick" THEN {<<c, [op |-> "Relu", side |-> "none"]>> : c \in ChainOps}
                ELSE {<<c, d>> : c \in ChainOps, d \in ChainOps})
SideRef(side, prev) == CASE side = "scalar" -> <<"k", "s">> [] side = "vec" -> <<"k", "v">>
                         [] side = "full" -> <<"k", "w">> [] side = "one" -> <<"k", "o">>
                         [] side = "self" -> prev
ChainNode(c, prev) ==
    IF c.op = "Cast" THEN [op |-> "Cast", ins |-> <<prev>>, to |-> "DOUBLE"]
    ELSE IF c.side = "none" THEN [op |-> c.op, ins |-> <<prev>>]
    ELSE [op |-> c.op, ins |-> <<prev, SideRef(c.side, prev)>>]

TChain(sh, p1, p2, ch, togOut, togExtra) ==
    LET k == Len(ch)
        t2 == k + 2
        n == IF togExtra > 0 THEN k + 3 ELSE k + 2
        lastRef == NR(k + 1)
        extraSrc == IF togExtra = 1 THEN NR(1) ELSE lastRef
        tsh == PShape(sh, p1)
    IN [kind |-> "tchain", par |-> [ch |-> ch, inv |-> (p2 = InvOf(p1)), to |-> togOut, te |-> togExtra],
        nodes |-> [i \in 1..n |->
                     IF i = 1 THEN TNode(<<"in", 0>>, p1)
                     ELSE IF i <= k + 1 THEN ChainNode(ch[i - 1], NR(i - 1))
                     ELSE IF i = t2 THEN TNode(lastRef, p2)
                     ELSE IF togExtra >= 3 THEN [op |-> "Capture", ins |-> <<NR(1)>>, depth |-> togExtra - 2]
                     ELSE [op |-> "Neg", ins |-> <<extraSrc>>]],
        ins |-> In1(sh),
        consts |-> [c \in {"s", "v", "w", "o"} |->
                      [sh |-> CASE c = "s" -> <<>> [] c = "v" -> <<tsh[3]>> [] c = "w" -> tsh
                                [] c = "o" -> <<1, 1, 1>>,
                       dt |-> "FLOAT"]],
        outs |-> <<NR(t2)>>
                 \o (IF togOut = 1 THEN <<NR(1)>> ELSE IF togOut = 2 /\ k >= 1 THEN <<lastRef>> ELSE <<>>)
                 \o (IF togExtra > 0 THEN <<NR(n)>> ELSE <<>>)]

\* te = 3 / 4: the Transpose output is also read from inside an If body nested 1 / 2 levels deep (a CAPTURED value:
\* the If node is a consumer although the value is not among its inputs)
TChains == {TChain(sh, pp[1], pp[2], ch, to, te) :
              sh \in Shapes3, pp \in PermPairs, ch \in Chains, to \in 0..2, te \in 0..2}
           \cup {TChain(sh, pp[1], pp[2], ch, 0, te) :
              sh \in {<<2, 2, 3>>}, pp \in PermPairs, ch \in {<<>>, <<[op |-> "Relu", side |-> "none"]>>}, te \in 3..4}

---------------------------------------------------------------------------
(* T1 -> ReduceMean -> T2 *)
TReduce(sh, p1, p2, axes, togOut, togExtra) ==
    LET n == IF togExtra > 0 THEN 4 ELSE 3 IN
    [kind |-> "treduce", par |-> [inv |-> (p2 = InvOf(p1)), to |-> togOut, te |-> togExtra],
     nodes |-> [i \in 1..n |->
                  IF i = 1 THEN TNode(<<"in", 0>>, p1)
                  ELSE IF i = 2 THEN [op |-> "ReduceMean", ins |-> <<NR(1)>>, axes |-> axes]
                  ELSE IF i = 3 THEN TNode(NR(2), p2)
                  ELSE [op |-> "Neg", ins |-> <<IF togExtra = 1 THEN NR(1) ELSE NR(2)>>]],
     ins |-> In1(sh), consts |-> NoConsts,
     outs |-> <<NR(3)>> \o (IF togOut = 1 THEN <<NR(2)>> ELSE <<>>) \o (IF togExtra > 0 THEN <<NR(4)>> ELSE <<>>)]
TReduces == {TReduce(sh, pp[1], pp[2], ax, to, te) :
               sh \in Shapes3, pp \in PermPairs,
               ax \in {{0}, {1}, {2}, {1, 2}, {0, 2}}, to \in 0..1, te \in 0..2}

---------------------------------------------------------------------------
(* Add(T(x), T(y)) -> Tinv *)
AddForest(sh, p1, p2, togOut, second) ==
    [kind |-> "addforest", par |-> [inv |-> (p2 = InvOf(p1)), to |-> togOut, second |-> second],
     nodes |-> [i \in 1..4 |->
                  IF i = 1 THEN TNode(<<"in", 0>>, p1)
                  ELSE IF i = 2 THEN TNode(<<"in", 1>>, IF second = "sameperm" THEN p1 ELSE InvOf(p1))
                  ELSE IF i = 3 THEN [op |-> "Add", ins |-> <<NR(1), IF second = "same" THEN NR(1) ELSE NR(2)>>]
                  ELSE TNode(NR(3), p2)],
     ins |-> In2(sh), consts |-> NoConsts,
     outs |-> <<NR(4)>> \o (IF togOut = 1 THEN <<NR(3)>> ELSE <<>>)]
AddForests == {AddForest(sh, pp[1], pp[2], to, sec) :
                 sh \in {<<2, 2, 2>>, <<2, 2, 3>>}, pp \in PermPairs,
                 to \in 0..1, sec \in {"sameperm", "same", "otherperm"}}

---------------------------------------------------------------------------
(* Reshape(s1) -> Reshape(s2); dims carry the declared token: an integer or a symbol name *)
RNode(in, shape, meta, srcmeta, static) ==
    [op |-> "Reshape", ins |-> <<in>>, shape |-> shape, meta |-> meta, srcmeta |-> srcmeta, static |-> static]
RPair(b, n, sym, dst, togOut, mid) ==
    LET src == <<b, n>>
        srcmeta == IF sym THEN <<"B", "N">> ELSE <<Tok(b), Tok(n)>>
        midsh == IF mid = "flat" THEN <<b * n>> ELSE <<1, b * n>>
        midmeta == IF mid = "flat" THEN (IF sym THEN <<"BN">> ELSE <<Tok(b * n)>>)
                   ELSE (IF sym THEN <<"1", "BN">> ELSE <<"1", Tok(b * n)>>)
        dstsh == IF dst = "same" THEN <<b, n>> ELSE <<n, b>>
        dstmeta == IF dst = "same" THEN srcmeta ELSE (IF sym THEN <<"N", "B">> ELSE <<Tok(n), Tok(b)>>)
    IN [kind |-> "rpair", par |-> [sym |-> sym, dst |-> dst, to |-> togOut, mid |-> mid, eq |-> (b = n)],
        nodes |-> [i \in 1..3 |->
                     IF i = 1 THEN RNode(<<"in", 0>>, midsh, midmeta, srcmeta, ~sym)
                     ELSE IF i = 2 THEN RNode(NR(1), dstsh, dstmeta, midmeta, ~sym)
                     ELSE [op |-> "Relu", ins |-> <<NR(2)>>]],
        ins |-> In1(src), consts |-> NoConsts,
        outs |-> <<NR(3)>> \o (IF togOut = 1 THEN <<NR(1)>> ELSE <<>>)]
RPairs == {RPair(b, n, sym, dst, to, mid) :
             b \in {2, 3}, n \in {2, 3}, sym \in BOOLEAN, dst \in {"same", "swapped"}, to \in 0..1,
             mid \in {"flat", "row"}}

(* Reshape(mid) -> unary chain -> Reshape(back) [-> Reshape(mid) again] -> Relu *)
RChainOps == {"Relu", "Tanh", "Elu"}     \* Elu: an op no later pass re-infers shapes for
RChains == {<<a>> : a \in RChainOps} \cup {<<a, b>> : a \in RChainOps, b \in RChainOps}
           \cup (IF Tier = "quick" THEN {} ELSE {<<a, b, c>> : a \in RChainOps, b \in RChainOps, c \in RChainOps})
RChain(sh, mid, ch, follow, togOut) ==
    LET k == Len(ch)
        back == k + 2
        cap == IF togOut >= 2 THEN togOut - 1 ELSE 0              \* togOut = 2 / 3: first Reshape captured at depth 1 / 2
        n == (IF follow THEN k + 4 ELSE k + 3) + (IF cap > 0 THEN 1 ELSE 0)
        TokS(q) == [i \in 1..Len(q) |-> Tok(q[i])]
    IN [kind |-> "rchain", par |-> [k |-> k, follow |-> follow, to |-> togOut],
        nodes |-> [i \in 1..n |->
                     IF i = 1 THEN RNode(<<"in", 0>>, mid, TokS(mid), TokS(sh), TRUE)
                     ELSE IF i <= k + 1 THEN [op |-> ch[i - 1], ins |-> <<NR(i - 1)>>]
                     ELSE IF i = back THEN RNode(NR(k + 1), sh, TokS(sh), TokS(mid), TRUE)
                     ELSE IF follow /\ i = back + 1 THEN RNode(NR(back), mid, TokS(mid), TokS(sh), TRUE)
                     ELSE IF cap > 0 /\ i = n THEN [op |-> "Capture", ins |-> <<NR(1)>>, depth |-> cap]
                     ELSE [op |-> "Relu", ins |-> <<NR(i - 1)>>]],
        ins |-> In1(sh), consts |-> NoConsts,
        outs |-> <<NR(IF cap > 0 THEN n - 1 ELSE n)>> \o (IF togOut = 1 THEN <<NR(k + 1)>> ELSE <<>>) \o (IF cap > 0 THEN <<NR(n)>> ELSE <<>>)]
RChainSet == {RChain(sm[1], sm[2], ch, fo, to) :
                sm \in {<<<<2, 3, 4>>, <<6, 4>>>>, <<<<2, 3, 4>>, <<2, 12>>>>, <<<<2, 3>>, <<6>>>>},
                ch \in RChains, fo \in BOOLEAN, to \in 0..3}

IdReshape(b, n, sym, same) ==
    LET srcmeta == IF sym THEN <<"B", Tok(n)>> ELSE <<Tok(b), Tok(n)>>
        tgt == IF same THEN <<b, n>> ELSE <<n, b>>
        tgtmeta == <<Tok(tgt[1]), Tok(tgt[2])>>
    IN [kind |-> "idreshape", par |-> [sym |-> sym, same |-> same, eq |-> (b = n)],
        nodes |-> [i \in 1..2 |->
                     IF i = 1 THEN RNode(<<"in", 0>>, tgt, tgtmeta, srcmeta, TRUE)
                     ELSE [op |-> "Relu", ins |-> <<NR(1)>>]],
        ins |-> In1(<<b, n>>), consts |-> NoConsts, outs |-> <<NR(2)>>]
IdReshapes == {IdReshape(b, n, sym, same) : b \in {2, 3}, n \in {2, 3}, sym \in BOOLEAN, same \in BOOLEAN}

---------------------------------------------------------------------------
(* Cast(U) -> Cast(T) *)
CastPair(src, mid, togOut, togExtra) ==
    LET n == IF togExtra THEN 4 ELSE 3 IN
    [kind |-> "castpair", par |-> [src |-> src, mid |-> mid, to |-> togOut, te |-> togExtra],
     nodes |-> [i \in 1..n |->
                  IF i = 1 THEN [op |-> "Cast", ins |-> <<<<"in", 0>>>>, to |-> mid]
                  ELSE IF i = 2 THEN [op |-> "Cast", ins |-> <<NR(1)>>, to |-> src]
                  ELSE IF i = 3 THEN [op |-> "Identity", ins |-> <<NR(2)>>]
                  ELSE [op |-> "Identity", ins |-> <<NR(1)>>]],
     ins |-> (0 :> [sh |-> <<3>>, dt |-> src]), consts |-> NoConsts,
     outs |-> <<NR(3)>> \o (IF togOut THEN <<NR(1)>> ELSE <<>>) \o (IF togExtra THEN <<NR(4)>> ELSE <<>>)]
CastPairs == {CastPair(s, m, to, te) : s \in DTypes, m \in DTypes, to \in BOOLEAN, te \in BOOLEAN}

---------------------------------------------------------------------------
(* Mul(x, Sigmoid(x)) *)
MulSig(order, togOut, other) ==
    [kind |-> "mulsig", par |-> [order |-> order, to |-> togOut, other |-> other],
     nodes |-> [i \in 1..3 |->
                  IF i = 1 THEN [op |-> "Sigmoid", ins |-> <<<<"in", 0>>>>]
                  ELSE IF i = 2 THEN [op |-> "Mul", ins |-> IF order THEN <<(IF other THEN <<"in", 1>> ELSE <<"in", 0>>), NR(1)>>
                                                            ELSE <<NR(1), (IF other THEN <<"in", 1>> ELSE <<"in", 0>>)>>]
                  ELSE [op |-> "Relu", ins |-> <<NR(2)>>]],
     ins |-> In2(<<2, 3>>), consts |-> NoConsts,
     outs |-> <<NR(3)>> \o (IF togOut THEN <<NR(1)>> ELSE <<>>)]
MulSigs == {MulSig(o, to, ot) : o \in BOOLEAN, to \in BOOLEAN, ot \in BOOLEAN}

Patterns == TChains \cup TReduces \cup AddForests \cup RPairs \cup RChainSet \cup IdReshapes \cup CastPairs \cup MulSigs
=============================================================================
