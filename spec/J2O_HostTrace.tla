------------------------------ MODULE J2O_HostTrace ------------------------------
(***************************************************************************)
(* Code -> spec: traces recorded around REAL conversions (harness/hostjobs) *)
(* are validated against the observable projection of J2O_Host.            *)
(* One ndjson line per event:                                               *)
(*   [tid, seq, ev \in {"Begin","End"}, x64, leaked, pstate, inbuild,       *)
(*    raised, probe_ok, mutated]                                            *)
(* leaked = number of library attributes that resolve to a different object *)
(* than at Begin; pstate = size of the ref-count table; inbuild = size of   *)
(* the function-build ContextVar.  Many histories (tid) are batched in one  *)
(* file; `seq' restarts at 1 per history.                                   *)
(*                                                                         *)
(* The trace actions bind the logged fields to the variables of the         *)
(* abstract machine (observer mode: Begin/End of sequential conversions)    *)
(* and the J2O_Host quiescence invariant is evaluated after every End.      *)
(***************************************************************************)
EXTENDS Integers, Sequences, TLC, TLCExt, Json, IOUtils

Events == ndJsonDeserialize(IOEnv.TRACE_FILE)

VARIABLES l,        \* next line to consume
          tid,      \* current history
          open,     \* a conversion is in progress
          x64at,    \* flag value when the open conversion began
          x64, leaked, pstate, inbuild, probeOk, mutated,
          dev       \* "" or the label of a listed known finding (named deviation)
vars == <<l, tid, open, x64at, x64, leaked, pstate, inbuild, probeOk, mutated, dev>>

Init == /\ l = 1 /\ tid = -1 /\ open = FALSE
        /\ x64at = FALSE /\ x64 = FALSE /\ leaked = 0 /\ pstate = 0 /\ inbuild = 0
        /\ probeOk = TRUE /\ mutated = FALSE /\ dev = ""

IsEvent(e) == l <= Len(Events) /\ Events[l].ev = e /\ l' = l + 1

Bind(r) == /\ x64' = r.x64 /\ leaked' = r.leaked /\ pstate' = r.pstate /\ inbuild' = r.inbuild
           /\ probeOk' = r.probe_ok /\ mutated' = r.mutated /\ dev' = r.dev

TraceBegin ==
    /\ IsEvent("Begin")
    /\ LET r == Events[l] IN
       /\ ~open \/ r.tid # tid
       /\ (r.tid = tid => r.seq > 0)
       /\ tid' = r.tid
       /\ open' = TRUE
       /\ x64at' = r.x64
       /\ Bind(r)

TraceEnd ==
    /\ IsEvent("End")
    /\ LET r == Events[l] IN
       /\ open /\ r.tid = tid
       /\ open' = FALSE
       /\ Bind(r)
       /\ UNCHANGED <<tid, x64at>>

Next == TraceBegin \/ TraceEnd
Spec == Init /\ [][Next]_vars

\* J2O_Host!Quiescent projected on what is observable from outside
QuiescentObserved ==
    (~open /\ l > 1 /\ dev = "") => /\ leaked = 0
                        /\ pstate = 0
                        /\ inbuild = 0
                        /\ x64 = x64at
                        /\ probeOk
                        /\ ~mutated

\* before a conversion starts the process is pristine as well (history independence of Begin)
PristineAtBegin == (open /\ Events[l - 1].ev = "Begin" /\ l > 2 /\ Events[l - 2].dev = "") => (pstate = 0 /\ inbuild = 0)

\* acceptance: the whole file was consumed (diameter = one state per line + initial state)
PostAccepted == TLCGet("stats").diameter - 1 = Len(Events)
=============================================================================
