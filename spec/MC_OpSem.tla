---- MODULE MC_OpSem ----
EXTENDS J2O_OpSem, Json
EmitDone == done => PrintT(ToJson([c |-> case, r |-> res]))
====
