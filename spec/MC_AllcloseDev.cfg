CONSTANTS
  NOut = 2
  CompareMode = "cast_to_ref"
SPECIFICATION Spec
INVARIANT VerdictSound
INVARIANT VerdictComplete
CHECK_DEADLOCK FALSE
