CONSTANTS
  MaxSites = 2
  Unique = FALSE
SPECIFICATION DevSpec
INVARIANT DedupSound
CHECK_DEADLOCK FALSE
