CONSTANTS
  MaxSites = 2
  Unique = FALSE
  Kws = {"none", "s1", "s2", "traced", "param", "ab", "ba"}
  Scopes = {"top", "body"}
SPECIFICATION DevSpec
INVARIANT DedupSound
CHECK_DEADLOCK FALSE
