SPECIFICATION Spec
CONSTANT Variant = "rightpad"
INVARIANT RuleSound
CHECK_DEADLOCK FALSE
