---- MODULE MC_CallForms ----
EXTENDS J2O_CallForms, Json
\* one row per (slot, form) with both verdicts: replayed against inspect.Signature.bind and executed
EmitDone == (Done /\ side = "s") =>
    PrintT(ToJson([s |-> slot, np |-> form.np, kw |-> form.kw, o |-> res.o.v, v |-> verdict]))
====
