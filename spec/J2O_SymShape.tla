---------------------------------- MODULE J2O_SymShape ----------------------------------
(***************************************************************************************)
(* Shape algebra of the shape-changing operations under NAMED DYNAMIC DIMENSIONS        *)
(* (property C04: a model exported with symbols B, N is right for EVERY binding,        *)
(* including size 1, B = N, B # N and sizes never seen at export time).                 *)
(*                                                                                       *)
(* A dimension is an integer code: a positive literal, or a symbol SB = -1 (B),          *)
(* SN = -2 (N), SBN = -3 (B * N), INFER = -9 (reshape's inferred dimension).  A case is   *)
(* one operation with its static parameters; its meaning is a function from bindings to  *)
(* concrete result shapes.  What the exported model must satisfy, for every binding:     *)
(*   result shape = Shape(case, binding)                                                  *)
(* The laws below hold for the algebra (TLC); the deviations are what a converter gets    *)
(* wrong when it resolves a symbol at export time or reads the wrong axis at run time.   *)
(***************************************************************************************)
EXTENDS Integers, Sequences, FiniteSets, TLC, Json

CONSTANT Dev    \* "none" | "squeeze_all_ones" | "tile_positional"

SB == -1
SN == -2
SBN == -3
INFER == -9
BindVals == {1, 2, 3, 5, 64}
Binds == [B : BindVals, N : BindVals]
BindSeq == <<[B |-> 1, N |-> 1], [B |-> 1, N |-> 3], [B |-> 2, N |-> 1], [B |-> 2, N |-> 5], [B |-> 3, N |-> 3],
             [B |-> 5, N |-> 2], [B |-> 64, N |-> 3], [B |-> 3, N |-> 64]>>

Val(d, b) == CASE d = SB -> b.B [] d = SN -> b.N [] d = SBN -> b.B * b.N [] OTHER -> d
Concrete(sh, b) == [i \in 1..Len(sh) |-> Val(sh[i], b)]
RECURSIVE Prod(_)
Prod(s) == IF s = <<>> THEN 1 ELSE Head(s) * Prod(Tail(s))
Norm(ax, rank) == IF ax < 0 THEN ax + rank ELSE ax            \* 0-based
RemoveAt(s, idxs) == LET keep == {i \in 1..Len(s) : (i - 1) \notin idxs}
                         F[i \in 0..Len(s)] == IF i = 0 THEN <<>> ELSE IF i \in keep THEN Append(F[i - 1], s[i]) ELSE F[i - 1]
                     IN F[Len(s)]
InsertAt(s, pos, v) == SubSeq(s, 1, pos) \o <<v>> \o SubSeq(s, pos + 1, Len(s))       \* pos 0-based
SeqSet(s) == {s[i] : i \in 1..Len(s)}

In2 == <<SB, SN>>
In3 == <<SB, 1, SN>>
In3b == <<1, SB, SN>>

C(op, insh, a, r) == [op |-> op, insh |-> insh, a |-> a, r |-> r]
Perms2 == {<<0, 1>>, <<1, 0>>}
Perms3 == {<<0, 1, 2>>, <<2, 1, 0>>, <<1, 0, 2>>, <<0, 2, 1>>, <<2, 0, 1>>}
RepCodes == {1, 2, SB, SN}
Cases ==
       {C("squeeze", In2, <<>>, <<>>)}                                                    \* axis=(): nothing to squeeze
  \cup {C("squeeze", In3, a, <<>>) : a \in {<<>>, <<1>>, <<-2>>}}
  \cup {C("squeeze", In3b, a, <<>>) : a \in {<<>>, <<0>>, <<-3>>}}
  \cup {C("expand_dims", In2, <<a>>, <<>>) : a \in {0, 1, 2, -1, -2, -3}}
  \cup {C("transpose", In2, p, <<>>) : p \in Perms2}
  \cup {C("transpose", In3, p, <<>>) : p \in Perms3}
  \cup {C("tile", In2, <<>>, <<r0, r1>>) : r0 \in RepCodes, r1 \in RepCodes}
  \cup {C("tile", In2, <<>>, <<r0>>) : r0 \in RepCodes}
  \cup {C("tile", In2, <<>>, <<r0, 1, 1>>) : r0 \in {2, SB, SN}}
  \cup {C("reshape", In2, <<>>, r) : r \in {<<SN, SB>>, <<SBN>>, <<INFER>>, <<INFER, SN>>, <<SB, INFER>>, <<SB, SN, 1>>, <<1, INFER>>, <<SB, 1, SN>>, <<1, SBN>>}}
  \cup {C("reshape", In3, <<>>, r) : r \in {<<SB, SN>>, <<SN, SB>>, <<INFER>>, <<SBN, 1>>}}
  \cup {C("broadcast_to", In2, <<>>, r) : r \in {<<2, SB, SN>>, <<SN, SB, SN>>, <<SB, SB, SN>>, <<1, SB, SN>>}}
  \cup {C("concat", In2, <<ax, k>>, <<>>) : ax \in {0, 1, -1, -2}, k \in {2, 3}}
  \cup {C("stack", In2, <<ax, k>>, <<>>) : ax \in {0, 1, 2, -1, -3}, k \in {2}}
  \cup {C("repeat", In2, <<ax, k>>, <<>>) : ax \in {0, 1, -1}, k \in {2, 3}}
  \cup {C("flip", In2, <<ax>>, <<>>) : ax \in {0, 1, -1}}
  \cup {C("ones", In2, <<>>, r) : r \in {<<SN, SB>>, <<SB>>, <<SN>>, <<SBN>>, <<2, SN>>, <<SB, SB>>, <<SN, 1, SB>>}}
  \cup {C("sum_keepdims_squeeze", In2, <<ax>>, <<>>) : ax \in {0, 1, -1}}
  \cup {C("sum_reshape", In2, <<ax>>, <<>>) : ax \in {0, 1}}
  \* Python slicing along a symbolic axis (a = <<axis, kind>>): kind 1 = [1:], 2 = [:-1], 3 = [::2], 4 = [-1:], 5 = [::-1], 6 = [1::2]
  \cup {C("slice", In2, <<ax, k>>, <<>>) : ax \in {0, 1}, k \in 1..6}
  \cup {C("pad", In2, <<lo0, hi0, lo1, hi1>>, <<>>) : lo0 \in {0, 1}, hi0 \in {0, 2}, lo1 \in {0}, hi1 \in {0, 1}}
  \cup {C("roll", In2, <<ax, sh>>, <<>>) : ax \in {0, 1}, sh \in {1, -1, 3}}
  \cup {C("swapaxes", In3, <<a1, a2>>, <<>>) : a1 \in {0, -1}, a2 \in {1, 2}}
  \cup {C("moveaxis", In3, <<a1, a2>>, <<>>) : a1 \in {0, 2, -1}, a2 \in {0, 1, -1}}

TileReps(c, s, b) ==
    \* numpy: reps shorter than the rank are left-padded with 1, a longer reps left-pads the shape with 1
    LET r == c.r
        n == IF Len(r) > Len(s) THEN Len(r) ELSE Len(s)
        sp == [i \in 1..n |-> IF i <= n - Len(s) THEN 1 ELSE s[i - (n - Len(s))]]
        rp == [i \in 1..n |-> IF i <= n - Len(r) THEN 1 ELSE
                 LET code == r[i - (n - Len(r))]
                     pos == i - (n - Len(r))                    \* position of this repeat in the reps tuple (1-based)
                 IN IF Dev = "tile_positional" /\ code \in {SB, SN} /\ pos <= Len(s)
                      THEN s[pos]                               \* reads the axis at the repeat's POSITION, not the symbol's axis
                      ELSE Val(code, b)]
    IN [i \in 1..n |-> sp[i] * rp[i]]

Shape(c, b) ==
    LET s == Concrete(c.insh, b)
        rank == Len(s)
    IN CASE c.op = "squeeze" ->
              IF c.a = <<>> THEN (IF Dev = "squeeze_all_ones" THEN RemoveAt(s, {i - 1 : i \in {j \in 1..rank : s[j] = 1}}) ELSE s)
              ELSE RemoveAt(s, {Norm(c.a[i], rank) : i \in 1..Len(c.a)})
         [] c.op = "expand_dims" ->
              LET ax == c.a[1]
                  pos == IF ax < 0 THEN ax + rank + 1 ELSE ax
              IN InsertAt(s, pos, 1)
         [] c.op = "transpose" -> [i \in 1..rank |-> s[c.a[i] + 1]]
         [] c.op = "tile" -> TileReps(c, s, b)
         [] c.op = "reshape" ->
              LET known == Prod([i \in 1..Len(c.r) |-> IF c.r[i] = INFER THEN 1 ELSE Val(c.r[i], b)])
              IN [i \in 1..Len(c.r) |-> IF c.r[i] = INFER THEN Prod(s) \div known ELSE Val(c.r[i], b)]
         [] c.op \in {"broadcast_to", "ones"} -> Concrete(c.r, b)
         [] c.op = "concat" -> [s EXCEPT ![Norm(c.a[1], rank) + 1] = @ * c.a[2]]
         [] c.op = "repeat" -> [s EXCEPT ![Norm(c.a[1], rank) + 1] = @ * c.a[2]]
         [] c.op = "stack" -> InsertAt(s, IF c.a[1] < 0 THEN c.a[1] + rank + 1 ELSE c.a[1], c.a[2])
         [] c.op = "flip" -> s
         [] c.op = "sum_keepdims_squeeze" -> RemoveAt(s, {Norm(c.a[1], rank)})
         [] c.op = "slice" ->
              LET n == s[c.a[1] + 1]
                  m == CASE c.a[2] \in {1, 2} -> n - 1
                         [] c.a[2] = 3 -> (n + 1) \div 2
                         [] c.a[2] = 4 -> 1
                         [] c.a[2] = 5 -> n
                         [] c.a[2] = 6 -> n \div 2
              IN [s EXCEPT ![c.a[1] + 1] = m]
         [] c.op = "pad" -> <<s[1] + c.a[1] + c.a[2], s[2] + c.a[3] + c.a[4]>>
         [] c.op = "roll" -> s
         [] c.op = "swapaxes" ->
              LET i == Norm(c.a[1], rank) + 1   j == Norm(c.a[2], rank) + 1
              IN [k \in 1..rank |-> IF k = i THEN s[j] ELSE IF k = j THEN s[i] ELSE s[k]]
         [] c.op = "moveaxis" ->
              LET src == Norm(c.a[1], rank)   dst == Norm(c.a[2], rank)
                  rest == RemoveAt(s, {src})
              IN InsertAt(rest, dst, s[src + 1])
         [] c.op = "sum_reshape" -> <<s[2 - c.a[1]], 1>>       \* x.sum(axis).reshape(x.shape[other], 1)

VARIABLES case
Init == case \in Cases
Next == UNCHANGED case
Spec == Init /\ [][Next]_case

\* ---- laws of the algebra, for EVERY binding -------------------------------------------------------------------
Preserving == {"squeeze", "expand_dims", "transpose", "reshape", "flip", "roll", "swapaxes", "moveaxis"}
ElementsPreserved == case.op \in Preserving => \A b \in Binds : Prod(Shape(case, b)) = Prod(Concrete(case.insh, b))
\* the rank of a result is fixed at export time: it cannot depend on the sizes the symbols are bound to
RankIndependentOfBinding == \A b1, b2 \in Binds : Len(Shape(case, b1)) = Len(Shape(case, b2))
TileLaw == case.op = "tile" => \A b \in Binds :
              Prod(Shape(case, b)) = Prod(Concrete(case.insh, b)) * Prod(Concrete(case.r, b))
GrowLaw == case.op \in {"concat", "repeat", "stack"} => \A b \in Binds : Prod(Shape(case, b)) = Prod(Concrete(case.insh, b)) * case.a[2]
\* negative and non-negative spellings of one axis mean the same
AxisSpellings == case.op \in {"expand_dims", "squeeze", "concat", "repeat", "flip"} /\ case.a # <<>> =>
    \A c2 \in Cases : (c2.op = case.op /\ c2.insh = case.insh /\ Len(c2.a) = Len(case.a) /\ c2.r = case.r
                       /\ \A i \in 1..Len(case.a) : (i = 1 /\ Norm(c2.a[i], Len(case.insh) + (IF case.op = "expand_dims" THEN 1 ELSE 0)) = Norm(case.a[i], Len(case.insh) + (IF case.op = "expand_dims" THEN 1 ELSE 0))) \/ (i > 1 /\ c2.a[i] = case.a[i]))
                      => \A b \in Binds : Shape(c2, b) = Shape(case, b)
\* only slicing can produce an empty result (x[1:] of a single row)
AllPositive == \A b \in Binds : \A i \in 1..Len(Shape(case, b)) : Shape(case, b)[i] >= (IF case.op = "slice" THEN 0 ELSE 1)
\* complementary slices partition the axis: [::2] and [1::2]
SlicePartition == case.op = "slice" /\ case.a[2] = 3 =>
    \A b \in Binds : Shape(case, b)[case.a[1] + 1] + Shape([case EXCEPT !.a = <<case.a[1], 6>>], b)[case.a[1] + 1] = Concrete(case.insh, b)[case.a[1] + 1]

Emit == PrintT(ToJson([c |-> case, shapes |-> [k \in 1..Len(BindSeq) |-> [b |-> BindSeq[k], s |-> Shape(case, BindSeq[k])]]]))
=============================================================================
