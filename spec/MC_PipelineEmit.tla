---- MODULE MC_PipelineEmit ----
EXTENDS J2O_Pipeline, Json
\* -simulate: print the request together with the interface the specification predicts
B2N(b) == IF b THEN 1 ELSE 0
\* number of independent reasons for a rejection: single-cause requests isolate each check
Causes(r) == B2N(r.inNames \in {"dup", "wrong_len", "collide_param", "collide_output"}) + B2N(r.outNames \in {"dup", "wrong_len", "collide_param"})
             + B2N(r.nchwIn \in {"bad_index", "bad_rank", "dup_index"}) + B2N(r.nchwOut \in {"bad_index", "bad_rank", "dup_index"})
             + B2N(r.fault # "none") + B2N(r.optRaiseAt > 0 /\ r.strict)
EmitEnd == (stage \in {"returned", "raised"} /\ (result = "model" \/ Causes(req) = 1)) =>
   PrintT(ToJson([req |-> [nin |-> req.nin, nout |-> req.nout, unused |-> req.unused, param |-> req.param, paramUsed |-> req.paramUsed,
                           inNames |-> req.inNames, outNames |-> req.outNames, nchwIn |-> req.nchwIn, nchwOut |-> req.nchwOut,
                           outKind |-> req.outKind, fault |-> req.fault, optRaiseAt |-> req.optRaiseAt, strict |-> req.strict],
                  result |-> result, ins |-> ins, outs |-> outs, aborted |-> aborted]))
====
