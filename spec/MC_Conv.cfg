SPECIFICATION Spec
CONSTANT Dev = "none"
INVARIANT LoweringSound
INVARIANT LengthLaw
CHECK_DEADLOCK FALSE
