CONSTANTS
  NinSet <- WideNin
  NoutSet <- WideNout
  UnusedSets <- WideUnused
  ReqFilter <- WideFilter
  NPass = 2
SPECIFICATION Spec
INVARIANT PositionalStable
INVARIANT OutputsPerLeaf
INVARIANT NamesApplied
INVARIANT RejectIffBad
INVARIANT EmitEnd
CHECK_DEADLOCK FALSE
