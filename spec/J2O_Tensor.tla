------------------------------- MODULE J2O_Tensor -------------------------------
(***************************************************************************)
(* Tensors over the FREE TERM ALGEBRA: a tensor is a shape plus a function *)
(* from index tuples to terms.  Input k holds the term <<"x", k, ix>> at   *)
(* index ix, operators wrap terms, so two tensors are equal iff they are   *)
(* equal for ALL inputs and ALL interpretations of the operators.          *)
(* Data movement (Transpose, Reshape, broadcasting, reduction) is modelled *)
(* exactly as ONNX defines it.                                             *)
(***************************************************************************)
EXTENDS Integers, Sequences, FiniteSets, TLC

RECURSIVE IdxSet(_)
IdxSet(sh) == IF sh = <<>> THEN {<<>>}
              ELSE {<<i>> \o r : i \in 0..(sh[1] - 1), r \in IdxSet(Tail(sh))}

RECURSIVE Prod(_)
Prod(sh) == IF sh = <<>> THEN 1 ELSE sh[1] * Prod(Tail(sh))

Invalid == [sh |-> <<>>, f |-> <<>>, dt |-> "invalid", bad |-> TRUE]
Tn(sh, f, dt) == [sh |-> sh, f |-> f, dt |-> dt, bad |-> FALSE]

InputT(k, sh, dt) == Tn(sh, [ix \in IdxSet(sh) |-> <<"x", k, ix>>], dt)
ConstT(c, sh, dt) == Tn(sh, [ix \in IdxSet(sh) |-> <<"c", c, ix>>], dt)

---------------------------------------------------------------------------
\* Transpose: out.shape[i] = in.shape[perm[i]];  out[ix] = in[jx] with jx[perm[i]] = ix[i]
IsPerm(p, n) == Len(p) = n /\ {p[i] : i \in 1..n} = 0..(n - 1)
PermShape(sh, p) == [i \in 1..Len(p) |-> sh[p[i] + 1]]
PosIn(p, a) == CHOOSE i \in 1..Len(p) : p[i] = a
TransposeT(t, p) ==
    IF t.bad \/ ~IsPerm(p, Len(t.sh)) THEN Invalid
    ELSE LET ns == PermShape(t.sh, p)
         IN Tn(ns, [ix \in IdxSet(ns) |-> t.f[[a \in 1..Len(p) |-> ix[PosIn(p, a - 1)]]]], t.dt)

InversePerm(p, q) == Len(p) = Len(q) /\ \A i \in 1..Len(q) : p[q[i] + 1] = i - 1
IdentityPerm(n) == [i \in 1..n |-> i - 1]

---------------------------------------------------------------------------
\* Elementwise with NumPy/ONNX multidirectional broadcasting
UnT(op, t) == IF t.bad THEN Invalid
              ELSE Tn(t.sh, [ix \in IdxSet(t.sh) |-> <<op, t.f[ix]>>], t.dt)

MaxN(a, b) == IF a >= b THEN a ELSE b
PadShape(sh, n) == [i \in 1..n |-> IF i <= n - Len(sh) THEN 1 ELSE sh[i - (n - Len(sh))]]
Broadcastable(a, b) ==
    LET n == MaxN(Len(a), Len(b))
        pa == PadShape(a, n)  pb == PadShape(b, n)
    IN \A i \in 1..n : pa[i] = pb[i] \/ pa[i] = 1 \/ pb[i] = 1
BShape(a, b) ==
    LET n == MaxN(Len(a), Len(b))
        pa == PadShape(a, n)  pb == PadShape(b, n)
    IN [i \in 1..n |-> MaxN(pa[i], pb[i])]
\* project an index of the broadcast result onto an operand of shape sh
Proj(ix, sh) ==
    LET n == Len(ix)  k == n - Len(sh)
    IN [i \in 1..Len(sh) |-> IF sh[i] = 1 THEN 0 ELSE ix[i + k]]

\* algebraic identities the optimizer relies on are built into term construction
BinTerm(op, x, y) ==
    IF op = "Mul" /\ y[1] = "Sigmoid" /\ y[2] = x THEN <<"Swish", x>>
    ELSE IF op = "Mul" /\ x[1] = "Sigmoid" /\ x[2] = y THEN <<"Swish", y>>
    ELSE <<op, x, y>>

BinT(op, a, b) ==
    IF a.bad \/ b.bad \/ ~Broadcastable(a.sh, b.sh) THEN Invalid
    ELSE LET s == BShape(a.sh, b.sh)
         IN Tn(s, [ix \in IdxSet(s) |-> BinTerm(op, a.f[Proj(ix, a.sh)], b.f[Proj(ix, b.sh)])], a.dt)

---------------------------------------------------------------------------
\* Reshape: row-major re-indexing
RECURSIVE Flat(_, _)
Flat(ix, sh) == IF sh = <<>> THEN 0 ELSE ix[1] * Prod(Tail(sh)) + Flat(Tail(ix), Tail(sh))
RECURSIVE Unflat(_, _)
Unflat(n, sh) == IF sh = <<>> THEN <<>>
                 ELSE LET p == Prod(Tail(sh)) IN <<n \div p>> \o Unflat(n % p, Tail(sh))
ReshapeT(t, ns) ==
    IF t.bad \/ Prod(ns) # Prod(t.sh) THEN Invalid
    ELSE Tn(ns, [ix \in IdxSet(ns) |-> t.f[Unflat(Flat(ix, ns), t.sh)]], t.dt)

---------------------------------------------------------------------------
\* ReduceMean, keepdims = 1: the reduced value is the SET of terms it averages
ReduceT(t, axes) ==
    IF t.bad \/ ~(axes \subseteq 0..(Len(t.sh) - 1)) THEN Invalid
    ELSE LET ns == [i \in 1..Len(t.sh) |-> IF (i - 1) \in axes THEN 1 ELSE t.sh[i]]
         IN Tn(ns, [ix \in IdxSet(ns) |->
                      <<"mean", {t.f[jx] : jx \in {j \in IdxSet(t.sh) :
                                   \A i \in 1..Len(t.sh) : (i - 1) \in axes \/ j[i] = ix[i]}}>>], t.dt)

---------------------------------------------------------------------------
\* Cast: a value-preserving round trip T -> U -> T is the identity on terms (validated by
\* J2O_CastTable); anything else is an opaque conversion.
CastT(to, t, safe) ==
    IF t.bad THEN Invalid
    ELSE IF t.dt = to THEN t
    ELSE Tn(t.sh,
            [ix \in IdxSet(t.sh) |->
               LET e == t.f[ix]
               IN IF e[1] = "cast" /\ e[2] = to /\ e[3] = t.dt /\ <<to, t.dt>> \in safe THEN e[4]
                  ELSE <<"cast", t.dt, to, e>>],
            to)
=============================================================================
