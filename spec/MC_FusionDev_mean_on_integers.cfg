SPECIFICATION Spec
CONSTANT Dev = "mean_on_integers"
INVARIANT FusionSound
INVARIANT LpNormSound
INVARIANT MeanSound
INVARIANT NormLaws
INVARIANT DigitizeLaws
CHECK_DEADLOCK FALSE
