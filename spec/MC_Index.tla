---- MODULE MC_Index ----
EXTENDS J2O_Index, Json
EmitDone == done => PrintT(ToJson([c |-> case, r |-> res]))
====
