SPECIFICATION Spec
CONSTANT Variant = "Dev_canon_batch"
INVARIANT RuleSound
CHECK_DEADLOCK FALSE
