-------------------------------- MODULE J2O_Promotion --------------------------------
(***************************************************************************)
(* Result types of mixed-operand expressions (properties C09 single-        *)
(* precision clause, C05 element classes).  A callable that mixes a float32  *)
(* tensor with integers, Python scalars or NumPy float64 / int64 scalars has *)
(* a well-defined result type under JAX's promotion lattice; with the 64-bit *)
(* mode off every 64-bit type canonicalises to its 32-bit sibling.  While a  *)
(* callable is traced for export the converter's substitutes compute result  *)
(* avals themselves (some with NumPy's promote_types), so an aval can say     *)
(* float64 where JAX says float32 -- the exported model must still contain   *)
(* no double in single-precision mode and declare JAX's result type.          *)
(* Operand kinds: tensors (strong types) b, i32, f32; strong scalars         *)
(* np.int64, np.float64; weak scalars (Python int / float).                   *)
(* Promote transcribes jnp.promote_types incl. weak types; the harness        *)
(* checks it against JAX eager for every case (in both modes) before it is    *)
(* used as the prediction for the exported model.                             *)
(***************************************************************************)
EXTENDS Integers, Sequences, FiniteSets, TLC

T(c, w, weak) == [cls |-> c, w |-> w, weak |-> weak]
Kinds == [t_bool |-> T("b", 8, FALSE), t_i32 |-> T("i", 32, FALSE), t_f32 |-> T("f", 32, FALSE),
          s_i64 |-> T("i", 64, FALSE), s_f64 |-> T("f", 64, FALSE), py_int |-> T("i", 64, TRUE), py_float |-> T("f", 64, TRUE)]
KindNames == DOMAIN Kinds
Rank(c) == CASE c = "b" -> 0 [] c = "i" -> 1 [] c = "f" -> 2
Max2(a, b) == IF a >= b THEN a ELSE b

\* jnp.promote_types with weak types, then canonicalisation for the 64-bit mode
Promote(a, b, x64) ==
    LET hi == IF Rank(a.cls) >= Rank(b.cls) THEN a ELSE b
        lo == IF Rank(a.cls) >= Rank(b.cls) THEN b ELSE a
        dflt == IF x64 THEN 64 ELSE 32
        raw ==
          IF a.weak /\ b.weak THEN T(hi.cls, dflt, TRUE)
          ELSE IF a.weak # b.weak THEN
               LET wk == IF a.weak THEN a ELSE b   st == IF a.weak THEN b ELSE a IN
               IF Rank(wk.cls) <= Rank(st.cls) THEN st                      \* a weak scalar never widens its own category
               ELSE T(wk.cls, IF st.cls = "b" /\ wk.cls = "i" THEN dflt ELSE dflt, FALSE)  \* weak float meets ints: default float
          ELSE IF a.cls = b.cls THEN T(a.cls, Max2(a.w, b.w), FALSE)
          ELSE IF lo.cls = "b" THEN hi
          ELSE T("f", hi.w, FALSE)                                            \* int with float: the float's width
    IN [raw EXCEPT !.w = IF ~x64 /\ @ = 64 THEN 32 ELSE @]

Ops == {"where", "add", "maximum"}
Cases == {[op |-> op, a |-> a, b |-> b, x64 |-> x, tail |-> tl] :
            op \in Ops, a \in {"t_f32", "t_i32", "t_bool"}, b \in KindNames, x \in BOOLEAN, tl \in BOOLEAN}
\* arithmetic on booleans alone is not what this family is about
Legal(c) == ~(c.a = "t_bool" /\ Kinds[c.b].cls = "b") /\ ~(c.op \in {"add", "maximum"} /\ c.a = "t_bool")

VARIABLES case, res, done
vars == <<case, res, done>>
Init == case \in {c \in Cases : Legal(c)} /\ res = T("b", 8, FALSE) /\ done = FALSE
Evaluate == ~done /\ res' = Promote(Kinds[case.a], Kinds[case.b], case.x64) /\ done' = TRUE /\ UNCHANGED case
Spec == Init /\ [][Evaluate]_vars

\* laws
Commutative == done => Promote(Kinds[case.b], Kinds[case.a], case.x64).cls = res.cls /\ Promote(Kinds[case.b], Kinds[case.a], case.x64).w = res.w
SingleModeHasNo64 == (done /\ ~case.x64) => res.w # 64
FloatDominates == (done /\ (Kinds[case.a].cls = "f" \/ Kinds[case.b].cls = "f")) => res.cls = "f"
=============================================================================
