---------------------------------- MODULE J2O_Fusion ----------------------------------
(***************************************************************************************)
(* LOWERING-TIME FUSIONS of a reduction with its producer (plugins/jax/lax/reduce_sum.py: *)
(* sum(|x|) -> ReduceL1, sum(x * x) and sum(x ** 2) -> ReduceSumSquare) and the ORDER      *)
(* semantics of digitize / searchsorted / argmax on ties.  Both are case analyses whose   *)
(* boundary (exponent exactly 2, the SAME operand twice, <= versus <) decides whether the *)
(* exported model computes the callable (C01).  Everything is exact integer arithmetic:   *)
(* inputs are perfect squares so that rational exponents stay integral.                   *)
(***************************************************************************************)
EXTENDS Integers, Sequences, FiniteSets, TLC, Json

CONSTANT Dev    \* "none" | "pow_exponent_truncated" | "mul_any_operands" | "digitize_strict" | "lpnorm_ignores_layout" | "mean_on_integers"

\* ---------- reductions ---------------------------------------------------------------
XU == <<<<0, 1, 4>>, <<9, 4, 1>>>>            \* unsigned perfect squares (rational powers stay integral)
XS == <<<<0, -1, 4>>, <<-9, 4, 1>>>>          \* signed
Y  == <<<<1, 2, 3>>, <<3, 1, 2>>>>
Isqrt(n) == CHOOSE r \in 0..3 : r * r = n
RECURSIVE IPow(_, _)
IPow(b, e) == IF e = 0 THEN 1 ELSE b * IPow(b, e - 1)
Abs(v) == IF v < 0 THEN -v ELSE v
\* x ** (num / den), den \in {1, 2}
RPow(v, num, den) == IF den = 1 THEN IPow(v, num) ELSE IPow(Isqrt(v), num)

Producers == {"abs", "mul_same", "mul_other", "pow", "neg_abs"}
Exps == {<<2, 1>>, <<3, 1>>, <<1, 1>>, <<5, 2>>, <<4, 2>>, <<3, 2>>}
AxesSets == {<<0>>, <<1>>, <<0, 1>>, <<-1>>}
RCases == {[kind |-> "reduce", prod |-> p, ex |-> e, axes |-> a, keep |-> k] :
              p \in Producers, e \in Exps, a \in AxesSets, k \in BOOLEAN}
RLegal(c) == c.prod = "pow" \/ c.ex = <<2, 1>>           \* the exponent only matters for pow
Signed(c) == c.prod # "pow" \/ c.ex[2] = 1
InputOf(c) == IF Signed(c) THEN XS ELSE XU

Elem(c, i, j) ==
    LET v == InputOf(c)[i][j] IN
    CASE c.prod = "abs" -> Abs(v)
      [] c.prod = "neg_abs" -> -Abs(v)
      [] c.prod = "mul_same" -> v * v
      [] c.prod = "mul_other" -> v * Y[i][j]
      [] c.prod = "pow" -> RPow(v, c.ex[1], c.ex[2])
\* what the fused operators compute from the producer's OPERAND
FusedElem(c, i, j) ==
    LET v == InputOf(c)[i][j] IN
    IF c.prod \in {"abs", "neg_abs"} THEN Abs(v) ELSE v * v
\* the lowering's decision
Fuses(c) ==
    \/ c.prod = "abs"
    \/ c.prod = "mul_same"
    \/ c.prod = "mul_other" /\ Dev = "mul_any_operands"
    \/ c.prod = "pow" /\ (IF Dev = "pow_exponent_truncated" THEN c.ex[1] \div c.ex[2] = 2 ELSE c.ex[1] = 2 * c.ex[2])
NormAxes(c) == {IF c.axes[k] < 0 THEN c.axes[k] + 2 ELSE c.axes[k] : k \in 1..Len(c.axes)}
Reduce(c, F(_, _, _)) ==
    LET ax == NormAxes(c) IN
    IF ax = {0, 1} THEN <<F(c, 1, 1) + F(c, 1, 2) + F(c, 1, 3) + F(c, 2, 1) + F(c, 2, 2) + F(c, 2, 3)>>
    ELSE IF ax = {0} THEN [j \in 1..3 |-> F(c, 1, j) + F(c, 2, j)]
    ELSE [i \in 1..2 |-> F(c, i, 1) + F(c, i, 2) + F(c, i, 3)]
Meaning(c) == Reduce(c, Elem)
Lowered(c) == IF Fuses(c) THEN Reduce(c, FusedElem) ELSE Reduce(c, Elem)

\* ---------- x / ||x||_p  -> LpNormalization (plugins/jax/lax/div.py) ------------------------------------
\* The norm is reduced WITHOUT keeping the axis and then put back next to x: in place ("restore": the result is
\* x normalised along that axis) or on the other side ("other_side": every element is divided by the norm of
\* ANOTHER row / column -- legal for a square x, and not an LpNormalization).  Results are exact rationals.
X3 == <<<<3, 4, 0>>, <<0, 0, 2>>, <<4, 3, 0>>>>          \* row 2-norms 5, 2, 5; column 2-norms 5, 5, 2
LCases == {[kind |-> "lpnorm", p |-> p, axis |-> a, layout |-> l] :
              p \in {1, 2}, a \in {0, 1, -1}, l \in {"keepdims", "restore", "other_side"}}
LAxis(c) == IF c.axis < 0 THEN c.axis + 2 ELSE c.axis
Line(c, k) == IF LAxis(c) = 1 THEN X3[k] ELSE [i \in 1..3 |-> X3[i][k]]
Isqrt9(n) == CHOOSE r \in 0..9 : r * r = n
NormOf(c, k) == LET v == Line(c, k) IN
    IF c.p = 1 THEN Abs(v[1]) + Abs(v[2]) + Abs(v[3]) ELSE Isqrt9(v[1] * v[1] + v[2] * v[2] + v[3] * v[3])
\* which line's norm meets element (i, j)
DenIndex(c, i, j, inplace) == IF (LAxis(c) = 1) = inplace THEN i ELSE j
LMeaning(c) == [i \in 1..3 |-> [j \in 1..3 |-> <<X3[i][j], NormOf(c, DenIndex(c, i, j, c.layout # "other_side"))>>]]
LFuses(c) == c.layout # "other_side" \/ Dev = "lpnorm_ignores_layout"
LLowered(c) == IF LFuses(c) THEN [i \in 1..3 |-> [j \in 1..3 |-> <<X3[i][j], NormOf(c, DenIndex(c, i, j, TRUE))>>]]   \* LpNormalization(axis)
               ELSE LMeaning(c)
RatEq(a, b) == a[1] * b[2] = b[1] * a[2]

\* ---------- sqrt(sum(x * x, axis)) -> ReduceL2, sum(|x|, axis) -> ReduceL1 as whole-axis norms ---------------
\* (plugins/jax/lax/sqrt.py on top of the ReduceSumSquare fusion).  "shared": the sum of squares is used a second
\* time next to its root, so it must survive the fusion.
NCases == {[kind |-> "norm", p |-> p, axis |-> a, keep |-> k, shared |-> sh] :
              p \in {1, 2}, a \in {0, 1, -1}, k \in BOOLEAN, sh \in BOOLEAN}
NMeaning(c) == [k \in 1..3 |-> LET n == NormOf([p |-> c.p, axis |-> c.axis], k) IN
                                IF c.shared THEN n + (IF c.p = 2 THEN n * n ELSE n) ELSE n]

\* ---------- (a + b) / k  -> Mean(a, b) (plugins/jax/lax/div.py) --------------------------------------------
\* lax.div on integers truncates toward zero; ONNX Mean is the exact average and exists for floats only.
\* Results as rationals <<num, den>>.
HCases == {[kind |-> "halfsum", k |-> k, int |-> i] : k \in {2, 3, -2}, i \in BOOLEAN}
TruncDiv(a, b) == LET q == (IF a < 0 THEN -a ELSE a) \div (IF b < 0 THEN -b ELSE b) IN IF (a < 0) = (b < 0) THEN q ELSE -q
HSum(i, j) == XS[i][j] + Y[i][j]
HMeaning(c) == [i \in 1..2 |-> [j \in 1..3 |-> IF c.int THEN <<TruncDiv(HSum(i, j), c.k), 1>> ELSE <<HSum(i, j), c.k>>]]
HFuses(c) == c.k = 2 /\ (~c.int \/ Dev = "mean_on_integers")
HLowered(c) == IF HFuses(c) THEN [i \in 1..2 |-> [j \in 1..3 |-> <<HSum(i, j), 2>>]] ELSE HMeaning(c)

\* ---------- order semantics on ties ----------------------------------------------------
BinSets == {<<0, 1, 3>>, <<3, 1, 0>>, <<1, 1, 2>>, <<2, 1, 1>>, <<2>>, <<0, 2, 4, 6>>, <<6, 4, 2, 0>>}
Queries == <<0, 1, 2, 3, 4, 7, -1>>
Count(s, P(_)) == Cardinality({k \in 1..Len(s) : P(s[k])})
Increasing(b) == \A k \in 1..(Len(b) - 1) : b[k] <= b[k + 1]
OCases == {[kind |-> "digitize", bins |-> b, right |-> r] : b \in BinSets, r \in BOOLEAN}
     \cup {[kind |-> "searchsorted", bins |-> b, right |-> r] : b \in {x \in BinSets : Increasing(x)}, r \in BOOLEAN}
     \cup {[kind |-> "argmax", bins |-> b, right |-> r] : b \in BinSets \cup {<<1, 3, 3, 0>>, <<2, 2, 2>>}, r \in BOOLEAN}   \* right = TRUE: argmin
Digitize(b, right, x) ==
    IF Increasing(b)
      THEN (IF right THEN Count(b, LAMBDA e : e < x) ELSE Count(b, LAMBDA e : e <= x))
      ELSE (IF right THEN (IF Dev = "digitize_strict" THEN Count(b, LAMBDA e : e > x) ELSE Count(b, LAMBDA e : e >= x))
                     ELSE Count(b, LAMBDA e : e > x))
OrderResult(c) ==
    CASE c.kind = "digitize" -> [q \in 1..Len(Queries) |-> Digitize(c.bins, c.right, Queries[q])]
      [] c.kind = "searchsorted" -> [q \in 1..Len(Queries) |->
            IF c.right THEN Count(c.bins, LAMBDA e : e <= Queries[q]) ELSE Count(c.bins, LAMBDA e : e < Queries[q])]
      [] c.kind = "argmax" ->
            LET best == IF c.right THEN CHOOSE m \in {c.bins[k] : k \in 1..Len(c.bins)} : \A k \in 1..Len(c.bins) : m <= c.bins[k]
                                   ELSE CHOOSE m \in {c.bins[k] : k \in 1..Len(c.bins)} : \A k \in 1..Len(c.bins) : m >= c.bins[k]
            IN <<(CHOOSE k \in 1..Len(c.bins) : c.bins[k] = best /\ \A k2 \in 1..(k - 1) : c.bins[k2] # best) - 1>>      \* FIRST occurrence

VARIABLE case
Init == case \in {c \in RCases : RLegal(c)} \cup OCases \cup LCases \cup HCases \cup NCases
Next == UNCHANGED case
Spec == Init /\ [][Next]_case

\* a fusion never changes the value
FusionSound == case.kind = "reduce" => Lowered(case) = Meaning(case)
LpNormSound == case.kind = "lpnorm" => \A i, j \in 1..3 : RatEq(LLowered(case)[i][j], LMeaning(case)[i][j])
MeanSound == case.kind = "halfsum" => \A i \in 1..2, j \in 1..3 : RatEq(HLowered(case)[i][j], HMeaning(case)[i][j])
\* a norm is never negative and is zero only for a zero line; the 2-norm never exceeds the 1-norm
NormLaws == case.kind = "norm" /\ ~case.shared => \A k \in 1..3 :
    /\ NMeaning(case)[k] >= 0
    /\ NormOf([p |-> 2, axis |-> case.axis], k) <= NormOf([p |-> 1, axis |-> case.axis], k)
\* digitize is monotone in the query for increasing bins, antitone for decreasing ones; right = TRUE never exceeds right = FALSE
\* for increasing bins (and never falls below it for decreasing ones); they differ exactly on ties
DigitizeLaws == case.kind = "digitize" =>
    LET r == OrderResult(case)
        other == OrderResult([case EXCEPT !.right = ~case.right]) IN
    /\ \A q \in 1..Len(Queries) : r[q] \in 0..Len(case.bins)
    /\ \A q \in 1..Len(Queries) :
          (r[q] # other[q]) <=> (\E k \in 1..Len(case.bins) : case.bins[k] = Queries[q])
Emit == PrintT(ToJson([c |-> case,
                       x |-> IF case.kind = "reduce" THEN InputOf(case) ELSE IF case.kind = "lpnorm" THEN X3 ELSE IF case.kind = "halfsum" THEN XS ELSE IF case.kind = "norm" THEN X3 ELSE <<Queries>>,
                       want |-> IF case.kind = "reduce" THEN Meaning(case) ELSE IF case.kind = "lpnorm" THEN LMeaning(case) ELSE IF case.kind = "halfsum" THEN HMeaning(case) ELSE IF case.kind = "norm" THEN NMeaning(case) ELSE OrderResult(case)]))
=============================================================================
