----------------------------- MODULE J2O_ControlFlow -----------------------------
(***************************************************************************)
(* Control flow (property C06): the JAX constructs and the ONNX Loop / If  *)
(* wiring the plugins emit, run in LOCKSTEP over a finite state domain S.   *)
(* Init ranges over ALL functions body \in [S -> S], cond \in [S -> BOOLEAN]*)
(* (and the analogues for counted loops, scans, conditionals and a two-lane *)
(* vmapped while), so the refinement invariant `Agree' is a statement about *)
(* every loop body, every predicate, every trip count 0..|S| and every      *)
(* data-dependent exit.                                                     *)
(*                                                                         *)
(* ONNX Loop(M, cond0, v0): iteration i runs iff i < M and the incoming     *)
(* condition is true; the body returns (cond', v').  Wiring (facts checked  *)
(* against the real export by the harness):                                 *)
(*   while : M = +infinity, cond0 = c(s0) computed OUTSIDE the loop,        *)
(*           body returns c evaluated on the NEW state                      *)
(*   fori  : M = max(hi - lo, 0), cond = TRUE, body index = lo + i          *)
(*   scan  : M = length(xs), cond = TRUE, x = xs[i], outputs stacked        *)
(*   vmap(while): per-lane predicate p; state' = IF p THEN new ELSE old;    *)
(*           loop condition = any lane active                               *)
(*   cond  : If(index # 0) THEN branches[1] ELSE branches[0]                *)
(* CondOnNewState = FALSE is the self-test variant (predicate evaluated on  *)
(* the old state) and must violate Agree.                                   *)
(***************************************************************************)
EXTENDS Integers, Sequences, FiniteSets, TLC

CONSTANTS S,              \* state domain, e.g. 0..2
          Kinds,          \* subset of {"while", "fori", "scan", "cond", "vwhile"}
          MaxSteps,       \* lockstep bound (|S| suffices for every terminating loop)
          CondOnNewState, \* TRUE = the wiring of the code
          ScanRev, ScanHx \* subsets of BOOLEAN: which scan variants are enumerated

X == {0, 1}                                  \* scanned element domain
Bounds == {<<0, 0>>, <<0, 1>>, <<0, 2>>, <<0, 3>>, <<1, 3>>, <<2, 1>>, <<3, 3>>, <<-1, 1>>}
IdxDom == -1..2
XSeqs == {<<>>} \cup {<<a>> : a \in X} \cup {<<a, b>> : a \in X, b \in X}
         \cup {<<a, b, c>> : a \in X, b \in X, c \in X}
Lanes == {1, 2}
Inf == 1000

VARIABLES kind, prog,
          js, jrun, jn, jys,      \* JAX machine: state, running, iterations, stacked outputs
          os, ocond, oi, oys,     \* ONNX machine: state, incoming condition, iteration, scan outputs
          t                        \* lockstep time
vars == <<kind, prog, js, jrun, jn, jys, os, ocond, oi, oys, t>>

Max2(a, b) == IF a >= b THEN a ELSE b
ScanRejected == kind = "scan" /\ prog.rev             \* constructs without a wiring: export must raise (or be right)
RevSeq(q) == [i \in 1..Len(q) |-> q[Len(q) + 1 - i]]
JaxYs == IF kind = "scan" /\ prog.rev THEN RevSeq(jys) ELSE jys   \* stacked outputs as the user sees them
Lo == prog.bd[1]
Hi == prog.bd[2]
TripBound == CASE kind = "while" -> Inf
               [] kind = "vwhile" -> Inf
               [] kind = "fori" -> Max2(Hi - Lo, 0)
               [] kind = "scan" -> Len(prog.xs)
               [] OTHER -> 1

---------------------------------------------------------------------------
InitWhile ==
    /\ kind = "while"
    /\ prog \in [b : [S -> S], c : [S -> BOOLEAN], s0 : S]
    /\ js = prog.s0 /\ jrun = prog.c[prog.s0] /\ jn = 0 /\ jys = <<>>
    /\ os = prog.s0 /\ ocond = prog.c[prog.s0] /\ oi = 0 /\ oys = <<>>

InitFori ==
    /\ kind = "fori"
    /\ prog \in [b : [(0..2) \X S -> S], bd : Bounds, s0 : S]
    /\ js = prog.s0 /\ jrun = (prog.bd[1] < prog.bd[2]) /\ jn = 0 /\ jys = <<>>
    /\ os = prog.s0 /\ ocond = TRUE /\ oi = 0 /\ oys = <<>>

InitScan ==
    /\ kind = "scan"
    \* rev = lax.scan(..., reverse=TRUE); hx = FALSE is the counted scan (xs = None, length = n): the body sees x = 0
    /\ prog \in {p \in [f : [S \X X -> S], c0 : S, xs : XSeqs, rev : BOOLEAN, hx : BOOLEAN] :
                    (~p.hx => \A i \in 1..Len(p.xs) : p.xs[i] = 0) /\ (p.rev \in ScanRev) /\ (p.hx \in ScanHx)}
    /\ js = prog.c0 /\ jrun = (Len(prog.xs) > 0) /\ jn = 0 /\ jys = <<>>
    /\ os = prog.c0 /\ ocond = TRUE /\ oi = 0 /\ oys = <<>>

InitCond ==
    /\ kind = "cond"
    /\ prog \in [idx : -1..2, br : [{0, 1} -> [S -> S]], s : S]
    /\ js = prog.s /\ jrun = TRUE /\ jn = 0 /\ jys = <<>>
    /\ os = prog.s /\ ocond = TRUE /\ oi = 0 /\ oys = <<>>

InitVWhile ==
    /\ kind = "vwhile"
    /\ prog \in [b : [S -> S], c : [S -> BOOLEAN], s0 : [Lanes -> S]]
    /\ js = prog.s0 /\ jrun = [l \in Lanes |-> prog.c[prog.s0[l]]] /\ jn = [l \in Lanes |-> 0] /\ jys = <<>>
    /\ os = prog.s0 /\ ocond = [l \in Lanes |-> prog.c[prog.s0[l]]] /\ oi = 0 /\ oys = <<>>

Init == /\ kind \in Kinds /\ t = 0
        /\ \/ InitWhile \/ InitFori \/ InitScan \/ InitCond \/ InitVWhile

---------------------------------------------------------------------------
(* One lockstep step of both machines per kind *)
Mod3(i) == ((i % 3) + 3) % 3

StepWhile ==
    /\ kind = "while"
    /\ jrun \/ (ocond /\ oi < Inf)
    \* JAX: while c(s): s := b(s)
    /\ IF jrun THEN /\ js' = prog.b[js] /\ jn' = jn + 1 /\ jrun' = prog.c[prog.b[js]]
               ELSE UNCHANGED <<js, jn, jrun>>
    \* ONNX Loop body: (cond', s') = (c(s') or c(s), b(s))
    /\ IF ocond /\ oi < Inf
         THEN /\ os' = prog.b[os] /\ oi' = oi + 1
              /\ ocond' = IF CondOnNewState THEN prog.c[prog.b[os]] ELSE prog.c[os]
         ELSE UNCHANGED <<os, oi, ocond>>
    /\ UNCHANGED <<jys, oys>>

StepFori ==
    /\ kind = "fori"
    /\ jrun \/ (ocond /\ oi < Max2(Hi - Lo, 0))
    \* JAX: for i = lo .. hi-1
    /\ IF jrun THEN /\ js' = prog.b[<<Mod3(Lo + jn), js>>] /\ jn' = jn + 1
                    /\ jrun' = (Lo + jn + 1 < Hi)
               ELSE UNCHANGED <<js, jn, jrun>>
    \* ONNX: M = max(hi-lo,0), index = lo + iter
    /\ IF ocond /\ oi < Max2(Hi - Lo, 0)
         THEN /\ os' = prog.b[<<Mod3(Lo + oi), os>>] /\ oi' = oi + 1 /\ ocond' = TRUE
         ELSE UNCHANGED <<os, oi, ocond>>
    /\ UNCHANGED <<jys, oys>>

StepScan ==
    /\ kind = "scan"
    /\ jrun \/ (~ScanRejected /\ ocond /\ oi < Len(prog.xs))
    \* JAX: a reverse scan consumes xs from the end; its i-th step output belongs at the index it consumed
    /\ IF jrun THEN LET x == prog.xs[IF prog.rev THEN Len(prog.xs) - jn ELSE jn + 1] IN
                    /\ js' = prog.f[<<js, x>>] /\ jys' = Append(jys, <<js, x>>)
                    /\ jn' = jn + 1 /\ jrun' = (jn + 1 < Len(prog.xs))
               ELSE UNCHANGED <<js, jn, jrun, jys>>
    \* ONNX Loop as the plugin wires it: forward only; a reverse scan has no wiring (the plugin must reject it)
    /\ IF ~ScanRejected /\ ocond /\ oi < Len(prog.xs)
         THEN LET x == prog.xs[oi + 1] IN
              /\ os' = prog.f[<<os, x>>] /\ oys' = Append(oys, <<os, x>>)
              /\ oi' = oi + 1 /\ ocond' = TRUE
         ELSE UNCHANGED <<os, oi, ocond, oys>>

\* lax.switch / lax.cond: the index is clamped into 0..1 by JAX before the primitive
Clamp01(i) == IF i < 0 THEN 0 ELSE IF i > 1 THEN 1 ELSE i
StepCond ==
    /\ kind = "cond" /\ jrun
    /\ js' = prog.br[Clamp01(prog.idx)][js] /\ jrun' = FALSE /\ jn' = 1
    \* ONNX: If(clamped index # 0) then branches[1] else branches[0]
    /\ os' = (IF Clamp01(prog.idx) # 0 THEN prog.br[1] ELSE prog.br[0])[os]
    /\ ocond' = FALSE /\ oi' = 1
    /\ UNCHANGED <<jys, oys>>

AnyLane(p) == \E l \in Lanes : p[l]
StepVWhile ==
    /\ kind = "vwhile"
    /\ AnyLane(jrun) \/ AnyLane(ocond)
    \* JAX semantics of vmap(while_loop): every lane is its own loop
    /\ js' = [l \in Lanes |-> IF jrun[l] THEN prog.b[js[l]] ELSE js[l]]
    /\ jn' = [l \in Lanes |-> IF jrun[l] THEN jn[l] + 1 ELSE jn[l]]
    /\ jrun' = [l \in Lanes |-> IF jrun[l] THEN prog.c[prog.b[js[l]]] ELSE FALSE]
    \* ONNX: masked update, loop while any lane active
    /\ IF AnyLane(ocond)
         THEN LET new == [l \in Lanes |-> IF ocond[l] THEN prog.b[os[l]] ELSE os[l]] IN
              /\ os' = new /\ oi' = oi + 1
              /\ ocond' = [l \in Lanes |-> IF CondOnNewState THEN prog.c[new[l]] ELSE prog.c[os[l]]]
         ELSE UNCHANGED <<os, oi, ocond>>
    /\ UNCHANGED <<jys, oys>>

Next == /\ t < MaxSteps
        /\ t' = t + 1
        /\ StepWhile \/ StepFori \/ StepScan \/ StepCond \/ StepVWhile
        /\ UNCHANGED <<kind, prog>>
Spec == Init /\ [][Next]_vars

---------------------------------------------------------------------------
JaxDone == IF kind = "vwhile" THEN ~AnyLane(jrun) ELSE ~jrun
OnnxDone == CASE ScanRejected -> TRUE
              [] kind = "vwhile" -> ~AnyLane(ocond)
              [] kind = "cond" -> ~ocond
              [] OTHER -> ~(ocond /\ oi < TripBound)

\* refinement: at every lockstep instant the two machines are in the same state
Agree == ScanRejected \/
         /\ js = os
         /\ jys = oys
         /\ (kind \notin {"vwhile"}) => (jn = oi /\ (JaxDone <=> OnnxDone))
         /\ (kind = "vwhile") => (AnyLane(jrun) <=> AnyLane(ocond))

\* final results agree (what a user observes)
FinalAgree == (JaxDone /\ OnnxDone /\ ~ScanRejected) => (js = os /\ jys = oys)
=============================================================================
