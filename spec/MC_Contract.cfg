SPECIFICATION Spec
CONSTANT Dev = "none"
INVARIANT TypeOK
INVARIANT ContractSound
INVARIANT NoSpuriousRaise
CHECK_DEADLOCK FALSE
