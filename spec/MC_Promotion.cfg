SPECIFICATION Spec
INVARIANT Commutative
INVARIANT SingleModeHasNo64
INVARIANT FloatDominates
INVARIANT EmitDone
CHECK_DEADLOCK FALSE
