---- MODULE MC_Transform ----
EXTENDS J2O_Transform, Json
EmitDone == done => PrintT(ToJson([c |-> case, r |-> res]))
====
