SPECIFICATION Spec
CONSTANT Dev = "pow_exponent_truncated"
INVARIANT FusionSound
INVARIANT LpNormSound
INVARIANT MeanSound
INVARIANT NormLaws
INVARIANT DigitizeLaws
CHECK_DEADLOCK FALSE
