SPECIFICATION Spec
CONSTANT Dev = "pow_exponent_truncated"
INVARIANT FusionSound
INVARIANT LpNormSound
INVARIANT MeanSound
INVARIANT DigitizeLaws
CHECK_DEADLOCK FALSE
