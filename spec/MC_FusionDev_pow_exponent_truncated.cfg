SPECIFICATION Spec
CONSTANT Dev = "pow_exponent_truncated"
INVARIANT FusionSound
INVARIANT DigitizeLaws
CHECK_DEADLOCK FALSE
