SPECIFICATION Spec
INVARIANT PositionalStable
INVARIANT OutputsPerLeaf
POSTCONDITION PostAccepted
CHECK_DEADLOCK FALSE
