CONSTANTS
  Tier = "quick"
SPECIFICATION DevSpec
INVARIANT OutputsPreserved
CHECK_DEADLOCK FALSE
