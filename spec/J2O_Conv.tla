---------------------------------- MODULE J2O_Conv ----------------------------------
(***************************************************************************************)
(* lax.conv_general_dilated along one spatial axis, exact integer arithmetic, and its     *)
(* lowering (plugins/jax/lax/conv.py): an ordinary window stride becomes ONNX Conv, an    *)
(* INPUT dilation (lax.conv_transpose with a stride) becomes ONNX ConvTranspose with      *)
(*   strides = the input dilation,  kernel flipped,  pads = k_eff - 1 - jax_pad.           *)
(* ConvOut is the meaning (dilate, pad, cross-correlate); ConvTransposeSem is what the    *)
(* ONNX operator computes (scatter-add, then crop).  LoweringSound: they agree (C01).     *)
(***************************************************************************************)
EXTENDS Integers, Sequences, FiniteSets, TLC, Json

CONSTANT Dev    \* "none" | "transpose_stride_one" | "pads_not_converted" | "kernel_not_flipped"

X == <<1, -2, 3, 0, 2>>
Kernels == {<<2, -1, 3>>, <<1, 2>>}
Cases == [stride : 1..2, ldil : 1..3, rdil : 1..2, plo : 0..2, phi : 0..2, w : Kernels]
Keff(c) == (Len(c.w) - 1) * c.rdil + 1
Supported(c) == c.stride = 1 \/ c.ldil = 1
Legal(c) == /\ (c.ldil > 1 => c.plo <= Keff(c) - 1 /\ c.phi <= Keff(c) - 1)          \* ONNX pads are non-negative
            /\ (Len(X) - 1) * c.ldil + 1 + c.plo + c.phi >= Keff(c)

Zeros(n) == [i \in 1..n |-> 0]
Dilate(x, d) == [j \in 1..((Len(x) - 1) * d + 1) |-> IF ((j - 1) % d) = 0 THEN x[(j - 1) \div d + 1] ELSE 0]
Flip(w) == [k \in 1..Len(w) |-> w[Len(w) + 1 - k]]
RECURSIVE SumTo(_, _)
SumTo(F, n) == IF n = 0 THEN 0 ELSE F[n] + SumTo(F, n - 1)

\* meaning: dilate the input, pad, slide the (dilated) kernel with the window stride
ConvOut(c) ==
    LET p == Zeros(c.plo) \o Dilate(X, c.ldil) \o Zeros(c.phi)
        n == (Len(p) - Keff(c)) \div c.stride + 1
    IN [o \in 1..n |-> SumTo([k \in 1..Len(c.w) |-> p[(o - 1) * c.stride + (k - 1) * c.rdil + 1] * c.w[k]], Len(c.w))]

\* ONNX ConvTranspose along one axis: every input element adds its scaled kernel at i * stride; then pads are cropped
ConvTransposeSem(x, v, s, rdil, a, b) ==
    LET keff == (Len(v) - 1) * rdil + 1
        full == (Len(x) - 1) * s + keff
        cell(j) == SumTo([t \in 1..(Len(x) * Len(v)) |->
                      LET i == (t - 1) \div Len(v) + 1
                          k == ((t - 1) % Len(v)) + 1
                      IN IF (i - 1) * s + (k - 1) * rdil + 1 = j THEN x[i] * v[k] ELSE 0], Len(x) * Len(v))
    IN [j \in 1..(full - a - b) |-> cell(j + a)]

Lowered(c) ==
    IF c.ldil > 1
      THEN ConvTransposeSem(X,
                            IF Dev = "kernel_not_flipped" THEN c.w ELSE Flip(c.w),
                            IF Dev = "transpose_stride_one" THEN 1 ELSE c.ldil,
                            c.rdil,
                            IF Dev = "pads_not_converted" THEN c.plo ELSE Keff(c) - 1 - c.plo,
                            IF Dev = "pads_not_converted" THEN c.phi ELSE Keff(c) - 1 - c.phi)
      ELSE ConvOut(c)

VARIABLE case
Init == case \in {c \in Cases : Legal(c)}
Next == UNCHANGED case
Spec == Init /\ [][Next]_case

LoweringSound == Supported(case) => Lowered(case) = ConvOut(case)
\* output length law of lax: (n - 1) * ldil + 1 + pads - k_eff, divided by the stride, plus 1
LengthLaw == Len(ConvOut(case)) = ((Len(X) - 1) * case.ldil + 1 + case.plo + case.phi - Keff(case)) \div case.stride + 1
Emit == PrintT(ToJson([c |-> case, x |-> X, supported |-> Supported(case), want |-> ConvOut(case)]))
=============================================================================
