---- MODULE MC_Allclose ----
EXTENDS J2O_Allclose, Json
EmitDone == (pc = "done") => PrintT(ToJson([count |-> case.count, outs |-> case.outs, must_mismatch |-> MustMismatch, spec_verdict |-> verdict]))
====
