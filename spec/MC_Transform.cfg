SPECIFICATION Spec
INVARIANT JvpLinear
INVARIANT GradIsTransposedJvp
INVARIANT VmapElementwiseLayoutFree
INVARIANT EmitDone
CHECK_DEADLOCK FALSE
