------------------------------ MODULE J2O_CastRange ------------------------------
(***************************************************************************)
(* C17, part 3: narrowing integer round trips are dropped only when the    *)
(* value range is statically proven to fit.  The statically known producer *)
(* is an ONNX Range(start, limit, delta).  This module is the Range        *)
(* operator as a state machine that emits one element per step; each case  *)
(* carries the decision the IMPLEMENTATION took for that triple and a      *)
(* target interval [lo, hi] (constant Cases, extracted from the working    *)
(* tree by running the real bound prover on a real graph).                 *)
(*   FitsSound   : implementation said "fits"  => every emitted value in   *)
(*                 [lo, hi]                                                *)
(*   BoundsSound : the (min, max) the prover computed encloses every       *)
(*                 emitted value (internal; reported as drift, no alarm)   *)
(***************************************************************************)
EXTENDS Integers, J2O_RangeFacts

VARIABLES c, cur, live, n
vars == <<c, cur, live, n>>

Emits(case, x) == IF case.d > 0 THEN x < case.l ELSE IF case.d < 0 THEN x > case.l ELSE FALSE

Init == /\ c \in Cases
        /\ cur = c.s
        /\ live = Emits(c, c.s)
        /\ n = 0

Step == /\ live
        /\ cur' = cur + c.d
        /\ live' = Emits(c, cur + c.d)
        /\ n' = n + 1
        /\ UNCHANGED c

Next == Step
Spec == Init /\ [][Next]_vars

FitsSound == (live /\ c.fits) => (c.lo <= cur /\ cur <= c.hi)
BoundsSound == (live /\ c.hasB) => (c.bmin <= cur /\ cur <= c.bmax)
\* empty ranges: the prover may claim anything; nothing is emitted
=============================================================================
