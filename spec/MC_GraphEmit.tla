---- MODULE MC_GraphEmit ----
EXTENDS J2O_GraphRewrite, Json
\* emit every valid initial graph as one JSON line (replayed through the real passes)
ASSUME \A p \in ValidPatterns : PrintT(ToJson(p))
Stop == steps < 0
====
