----------------------------- MODULE J2O_PipelineTrace -----------------------------
(***************************************************************************)
(* Code -> spec: the interface logged after every stage of REAL to_onnx     *)
(* calls (harness/pipejobs.StageLog) is validated against J2O_Pipeline.     *)
(* ndjson events:                                                           *)
(*   Req   : [tid, nin, nout]                         the request           *)
(*   Stage : [tid, stage, npos, ordered, ninputs, nout]                      *)
(*           npos = number of positional graph inputs (in_<i>[_nchw]),      *)
(*           ordered = their indices are exactly 0..npos-1 in order         *)
(*   End   : [tid, raised]                                                   *)
(* Stages must appear in pipeline order; PositionalStable / OutputsPerLeaf   *)
(* of J2O_Pipeline are evaluated on every logged state (before Rename the    *)
(* positional inputs carry their default names, so they are countable).     *)
(***************************************************************************)
EXTENDS Integers, Sequences, TLC, TLCExt, Json, IOUtils

Events == ndJsonDeserialize(IOEnv.TRACE_FILE)
Order == <<"bind_in", "bind_out", "optimize", "post", "materialize", "rename">>
Rank(s) == CHOOSE i \in 1..Len(Order) : Order[i] = s

VARIABLES l, tid, nin, nout, last, npos, ordered, obsOut, open
vars == <<l, tid, nin, nout, last, npos, ordered, obsOut, open>>

Init == l = 1 /\ tid = -1 /\ nin = 0 /\ nout = 0 /\ last = 0 /\ npos = 0 /\ ordered = TRUE /\ obsOut = 0 /\ open = FALSE
IsEvent(e) == l <= Len(Events) /\ Events[l].ev = e /\ l' = l + 1

TraceReq == /\ IsEvent("Req") /\ ~open
            /\ tid' = Events[l].tid /\ nin' = Events[l].nin /\ nout' = Events[l].nout
            /\ last' = 0 /\ npos' = Events[l].nin /\ ordered' = TRUE /\ obsOut' = Events[l].nout /\ open' = TRUE

TraceStage == /\ IsEvent("Stage") /\ open /\ Events[l].tid = tid
              /\ LET r == Events[l] IN
                 /\ Rank(r.stage) > last
                 /\ last' = Rank(r.stage)
                 /\ npos' = (IF r.stage = "rename" THEN nin ELSE r.npos)    \* after Rename names are the user's
                 /\ ordered' = (IF r.stage = "rename" THEN TRUE ELSE r.ordered)
                 /\ obsOut' = (IF r.stage = "bind_in" THEN nout ELSE r.nout)
              /\ UNCHANGED <<tid, nin, nout, open>>

TraceEnd == /\ IsEvent("End") /\ open /\ Events[l].tid = tid
            /\ open' = FALSE
            /\ UNCHANGED <<tid, nin, nout, last, npos, ordered, obsOut>>

Next == TraceReq \/ TraceStage \/ TraceEnd
Spec == Init /\ [][Next]_vars

PositionalStable == open => (npos = nin /\ ordered)
OutputsPerLeaf == open => obsOut = nout
PostAccepted == TLCGet("stats").diameter - 1 = Len(Events)
=============================================================================
