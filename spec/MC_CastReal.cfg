SPECIFICATION Spec
INVARIANT FoldOnlyIfSafe
CHECK_DEADLOCK FALSE
