SPECIFICATION Spec
POSTCONDITION PostAccepted
CHECK_DEADLOCK FALSE
