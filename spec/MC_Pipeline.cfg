CONSTANTS
  MaxIn = 2
  MaxOut = 2
  NPass = 3
SPECIFICATION Spec
INVARIANT PositionalStable
INVARIANT OutputsPerLeaf
INVARIANT NamesApplied
INVARIANT RejectIffBad
INVARIANT ReturnedIsSound
INVARIANT AbortPolicy
CHECK_DEADLOCK FALSE
