CONSTANTS
  NinSet <- SmallNin
  NoutSet <- SmallNout
  UnusedSets <- SmallUnused
  ReqFilter <- NoFilter
  NPass = 3
SPECIFICATION Spec
INVARIANT PositionalStable
INVARIANT OutputsPerLeaf
INVARIANT NamesApplied
INVARIANT RejectIffBad
INVARIANT ReturnedIsSound
INVARIANT AbortPolicy
CHECK_DEADLOCK FALSE
