---- MODULE MC_Fusion ----
EXTENDS J2O_Fusion
====
