--------------------------------- MODULE J2O_Transform ---------------------------------
(***************************************************************************)
(* Meaning of JAX transformations on exact templates (property C10).        *)
(* Templates are polynomial maps on integer vectors of length 2, so every    *)
(* transformed value is an exact integer:                                    *)
(*   t1(v) = v*v + 3v           (elementwise)                                *)
(*   t2(v) = sum(v) * v         (reduction, then scale)                      *)
(*   t3(v) = <<v1*v2, v1+v2>>   (cross terms)                                *)
(*   t4(v) = prod(v) * <<1,1>>   (product reduction; its derivative has a     *)
(*                               case split on the number of zeros)           *)
(* Transformations and their meaning:                                        *)
(*   jit, remat (checkpoint), nested jit : identity on the function          *)
(*   vmap(in_axes = a, out_axes = b) on a 2x2 matrix X : apply f to the       *)
(*        slices of X along axis a and stack the results along axis b         *)
(*   jvp(f)(v, t) = J_f(v) . t      grad(sum o f)(v) = J_f(v)^T . 1            *)
(*   custom_jvp(f, rule)            : the USER's tangent rule, not J_f         *)
(* A behaviour picks a case and evaluates it in one step; the invariants are *)
(* the laws that relate the transformations (linearity of jvp, vmap of an    *)
(* elementwise map is layout free, grad = transpose of jvp).                  *)
(***************************************************************************)
EXTENDS Integers, Sequences, FiniteSets, TLC

Dom == -2..2
Vec == [1..2 -> Dom]
Mat == [1..2 -> [1..2 -> {-1, 0, 2}]]

F(t, v) == CASE t = "t1" -> [i \in 1..2 |-> v[i] * v[i] + 3 * v[i]]
             [] t = "t2" -> [i \in 1..2 |-> (v[1] + v[2]) * v[i]]
             [] t = "t3" -> [i \in 1..2 |-> IF i = 1 THEN v[1] * v[2] ELSE v[1] + v[2]]
             [] t = "t4" -> [i \in 1..2 |-> v[1] * v[2]]          \* jnp.prod(v) broadcast: derivative rules with zeros in the window
\* Jacobian J[i][j] = d f_i / d v_j
Jac(t, v) == CASE t = "t1" -> [i \in 1..2 |-> [j \in 1..2 |-> IF i = j THEN 2 * v[i] + 3 ELSE 0]]
               [] t = "t2" -> [i \in 1..2 |-> [j \in 1..2 |-> v[i] + (IF i = j THEN v[1] + v[2] ELSE 0)]]
               [] t = "t3" -> [i \in 1..2 |-> [j \in 1..2 |-> IF i = 1 THEN (IF j = 1 THEN v[2] ELSE v[1]) ELSE 1]]
               [] t = "t4" -> [i \in 1..2 |-> [j \in 1..2 |-> IF j = 1 THEN v[2] ELSE v[1]]]
Jvp(t, v, tg) == [i \in 1..2 |-> Jac(t, v)[i][1] * tg[1] + Jac(t, v)[i][2] * tg[2]]
Grad(t, v) == [j \in 1..2 |-> Jac(t, v)[1][j] + Jac(t, v)[2][j]]
\* user rule of the custom_jvp template: twice the true derivative of t1
CustomJvp(v, tg) == [i \in 1..2 |-> 2 * (2 * v[i] + 3) * tg[i]]

Slice(X, a, k) == IF a = 0 THEN X[k] ELSE [i \in 1..2 |-> X[i][k]]
Stack(rows, b) == IF b = 0 THEN rows ELSE [i \in 1..2 |-> [k \in 1..2 |-> rows[k][i]]]
Vmap(t, X, a, b) == Stack([k \in 1..2 |-> F(t, Slice(X, a, k))], b)

Templates == {"t1", "t2", "t3", "t4"}
Cases ==
    {[k |-> "identity", tr |-> tr, t |-> t, v |-> v] : tr \in {"jit", "nested_jit", "remat"}, t \in Templates, v \in Vec}
    \cup {[k |-> "vmap", t |-> t, X |-> X, a |-> a, b |-> b] : t \in Templates, X \in Mat, a \in {0, 1}, b \in {0, 1}}
    \cup {[k |-> "jvp", t |-> t, v |-> v, tg |-> tg] : t \in Templates, v \in Vec, tg \in [1..2 -> {-1, 0, 1}]}
    \cup {[k |-> "grad", t |-> t, v |-> v] : t \in Templates, v \in Vec}
    \cup {[k |-> "custom_jvp", v |-> v, tg |-> tg] : v \in Vec, tg \in [1..2 -> {-1, 0, 1}]}

Result(c) == CASE c.k = "identity" -> F(c.t, c.v)
               [] c.k = "vmap" -> Vmap(c.t, c.X, c.a, c.b)
               [] c.k = "jvp" -> Jvp(c.t, c.v, c.tg)
               [] c.k = "grad" -> Grad(c.t, c.v)
               [] c.k = "custom_jvp" -> CustomJvp(c.v, c.tg)

VARIABLES case, res, done
vars == <<case, res, done>>
Init == case \in Cases /\ res = 0 /\ done = FALSE
Evaluate == ~done /\ res' = Result(case) /\ done' = TRUE /\ UNCHANGED case
Next == Evaluate
Spec == Init /\ [][Next]_vars

JvpLinear == (done /\ case.k = "jvp") =>
    \A i \in 1..2 : Jvp(case.t, case.v, [j \in 1..2 |-> 2 * case.tg[j]])[i] = 2 * res[i]
GradIsTransposedJvp == (done /\ case.k = "grad") =>
    \A j \in 1..2 : res[j] = Jvp(case.t, case.v, [m \in 1..2 |-> IF m = j THEN 1 ELSE 0])[1] + Jvp(case.t, case.v, [m \in 1..2 |-> IF m = j THEN 1 ELSE 0])[2]
VmapElementwiseLayoutFree == (done /\ case.k = "vmap" /\ case.t = "t1" /\ case.a = case.b) =>
    \A i, j \in 1..2 : res[i][j] = case.X[i][j] * case.X[i][j] + 3 * case.X[i][j]
=============================================================================
