------------------------------ MODULE J2O_BroadcastBatch ------------------------------
(***************************************************************************)
(* Elementwise n-ary substitutes under vmap (property C10).  About thirty   *)
(* substituted jnp functions (add, maximum, where, comparisons, ...) share   *)
(* one batching rule, `broadcast_batcher_compat'.  Its job: given operands   *)
(* whose batch dimension sits at arbitrary positions (or is absent) and      *)
(* whose per-example ranks differ, produce operands that NumPy broadcasting  *)
(* combines example by example.                                              *)
(*   vmap(op, in_axes=(bx, by))(X, Y)[b] = op(X_b, Y_b)   (X_b, Y_b broadcast *)
(*   right-aligned, as NumPy does)                                            *)
(* Rule `leftpad' (sound): move every mapped batch dimension to the front,    *)
(* then insert unit dimensions right AFTER it until every mapped operand has  *)
(* 1 + the per-example rank of the RESULT (unmapped operands count for that   *)
(* rank); unmapped operands are left as they are (NumPy right-aligns them      *)
(* against the per-example dimensions).                                       *)
(* Deviations: `rightpad' appends the unit dimensions at the END (the batch   *)
(* dimension of the lower-rank operand then meets a per-example dimension of  *)
(* the other); `fastpath_unmapped' binds directly whenever the MAPPED         *)
(* operands agree, leaving an unmapped array operand to broadcast against the *)
(* still-batched layout.                                                      *)
(* Elements are symbolic pairs <<x-term, y-term>>, so equality means equality *)
(* for all inputs; shapes use pairwise different sizes where possible.        *)
(***************************************************************************)
EXTENDS Integers, Sequences, FiniteSets, TLC

CONSTANT Variant

RECURSIVE IdxSet(_)
IdxSet(sh) == IF sh = <<>> THEN {<<>>} ELSE {<<i>> \o t : i \in 1..Head(sh), t \in IdxSet(Tail(sh))}
RemoveAt(s, k) == [i \in 1..(Len(s) - 1) |-> IF i < k THEN s[i] ELSE s[i + 1]]
InsertAt(s, k, v) == [i \in 1..(Len(s) + 1) |-> IF i < k THEN s[i] ELSE IF i = k THEN v ELSE s[i - 1]]
Tensor(sh, g(_)) == [sh |-> sh, f |-> [ix \in IdxSet(sh) |-> g(ix)]]
Invalid == [sh |-> <<0>>, f |-> <<>>]
MoveFront(t, d) == IF d = 1 THEN t ELSE
    LET v == t.sh[d]  rest == RemoveAt(t.sh, d) IN
    Tensor(<<v>> \o rest, LAMBDA ix : t.f[InsertAt(Tail(ix), d, ix[1])])
SliceT(t, d, b) == Tensor(RemoveAt(t.sh, d), LAMBDA ix : t.f[InsertAt(ix, d, b)])
StackT(fam, n) == Tensor(<<n>> \o fam[1].sh, LAMBDA ix : fam[ix[1]].f[Tail(ix)])
\* reshape by inserting a unit dimension at position k
Unsq(t, k) == Tensor(InsertAt(t.sh, k, 1), LAMBDA ix : t.f[RemoveAt(ix, k)])
RECURSIVE UnsqN(_, _, _)
UnsqN(t, k, n) == IF n = 0 THEN t ELSE UnsqN(Unsq(t, k), k, n - 1)

Max2(a, b) == IF a >= b THEN a ELSE b
Pad(sh, n) == [i \in 1..n |-> IF i <= n - Len(sh) THEN 1 ELSE sh[i - (n - Len(sh))]]
Compatible(a, b) == LET n == Max2(Len(a), Len(b)) IN \A i \in 1..n : Pad(a, n)[i] = Pad(b, n)[i] \/ Pad(a, n)[i] = 1 \/ Pad(b, n)[i] = 1
BShape(a, b) == LET n == Max2(Len(a), Len(b)) IN [i \in 1..n |-> Max2(Pad(a, n)[i], Pad(b, n)[i])]
Proj(ix, sh) == LET k == Len(ix) - Len(sh) IN [i \in 1..Len(sh) |-> IF sh[i] = 1 THEN 1 ELSE ix[i + k]]
Bin(a, b) == IF a = Invalid \/ b = Invalid \/ ~Compatible(a.sh, b.sh) THEN Invalid
             ELSE Tensor(BShape(a.sh, b.sh), LAMBDA ix : <<a.f[Proj(ix, a.sh)], b.f[Proj(ix, b.sh)]>>)

B == 2
\* per-example shapes of the two operands and where the batch dimension sits (0 = unmapped)
ExampleShapes == {<<3>>, <<2, 3>>, <<3, 3>>}
Operand(tag, exsh, bd) == IF bd = 0 THEN Tensor(exsh, LAMBDA ix : <<tag, 0, ix>>)
                          ELSE Tensor(InsertAt(exsh, bd, B), LAMBDA ix : <<tag, ix[bd], RemoveAt(ix, bd)>>)
Example(t, bd, b) == IF bd = 0 THEN t ELSE SliceT(t, bd, b)

VmapSpec(X, bx, Y, by) == StackT([b \in 1..B |-> Bin(Example(X, bx, b), Example(Y, by, b))], B)

ExRank(t, bd) == Len(t.sh) - (IF bd = 0 THEN 0 ELSE 1)
Rule(v, X, bx, Y, by) ==
    LET xf == IF bx = 0 THEN X ELSE MoveFront(X, bx)
        yf == IF by = 0 THEN Y ELSE MoveFront(Y, by)
        r == Max2(ExRank(X, bx), ExRank(Y, by))      \* per-example rank of the result (unmapped operands count)
    IN CASE v = "leftpad" ->
              Bin(IF bx = 0 THEN xf ELSE UnsqN(xf, 2, r - ExRank(X, bx)), IF by = 0 THEN yf ELSE UnsqN(yf, 2, r - ExRank(Y, by)))
         [] v = "rightpad" ->
              Bin(IF bx = 0 THEN xf ELSE UnsqN(xf, Len(xf.sh) + 1, r - ExRank(X, bx)), IF by = 0 THEN yf ELSE UnsqN(yf, Len(yf.sh) + 1, r - ExRank(Y, by)))
         [] v = "fastpath_unmapped" ->
              \* mapped operands have one shape and one batch position: bind as they are
              IF (bx = 0 \/ by = 0 \/ (bx = by /\ X.sh = Y.sh))
                THEN LET raw == Bin(X, Y)  bd == IF bx # 0 THEN bx ELSE by IN
                     IF raw = Invalid \/ bd > Len(raw.sh) THEN Invalid ELSE MoveFront(raw, bd + (Len(raw.sh) - Len(IF bx # 0 THEN X.sh ELSE Y.sh)))
                ELSE Bin(IF bx = 0 THEN xf ELSE UnsqN(xf, 2, r - ExRank(X, bx)), IF by = 0 THEN yf ELSE UnsqN(yf, 2, r - ExRank(Y, by)))

Cases == {[xs |-> xs, bx |-> bx, ys |-> ys, by |-> by] :
            xs \in ExampleShapes, ys \in ExampleShapes, bx \in 0..3, by \in 0..3}
Legal(c) == /\ c.bx <= Len(c.xs) + 1 /\ c.by <= Len(c.ys) + 1 /\ (c.bx # 0 \/ c.by # 0)
            /\ Compatible(c.xs, c.ys)

VARIABLES case, expect, got, done
vars == <<case, expect, got, done>>
Init == case \in {c \in Cases : Legal(c)} /\ expect = 0 /\ got = 0 /\ done = FALSE
Evaluate == /\ ~done
            /\ LET X == Operand("x", case.xs, case.bx)  Y == Operand("y", case.ys, case.by) IN
               /\ expect' = VmapSpec(X, case.bx, Y, case.by)
               /\ got' = Rule(Variant, X, case.bx, Y, case.by)
            /\ done' = TRUE /\ UNCHANGED case
Spec == Init /\ [][Evaluate]_vars
RuleSound == done => got = expect
=============================================================================
