------------------------------- MODULE J2O_OptTrace -------------------------------
(***************************************************************************)
(* Code -> spec: the optimizer pipeline observed on REAL exports.          *)
(* One ndjson line per event: [tid, ev, idx, name, equiv]                  *)
(*   OptBegin  : the pipeline starts on export tid                         *)
(*   OptPass   : pass idx (position in the registry) changed the model;    *)
(*               equiv = ORT outputs of the model after the pass equal the *)
(*               outputs before the pipeline on the same feeds             *)
(*   OptEnd    : pipeline finished                                         *)
(* The pass registry (names in order) is a fact extracted from the working *)
(* tree (J2O_OptFacts).  Trace actions mirror J2O_Pipeline's OptPass(k):   *)
(* passes fire in registry order; the invariant is C02 / C16: after EVERY  *)
(* prefix of passes the model is equivalent to the unoptimised one.        *)
(***************************************************************************)
EXTENDS Integers, Sequences, TLC, TLCExt, Json, IOUtils, J2O_OptFacts

Events == ndJsonDeserialize(IOEnv.TRACE_FILE)

VARIABLES l, tid, inPipe, k, equiv
vars == <<l, tid, inPipe, k, equiv>>

Init == l = 1 /\ tid = -1 /\ inPipe = FALSE /\ k = 0 /\ equiv = TRUE

IsEvent(e) == l <= Len(Events) /\ Events[l].ev = e /\ l' = l + 1

TraceBegin == /\ IsEvent("OptBegin")
              /\ ~inPipe
              /\ tid' = Events[l].tid /\ inPipe' = TRUE /\ k' = 0 /\ equiv' = TRUE

TracePass == /\ IsEvent("OptPass")
             /\ inPipe /\ Events[l].tid = tid
             /\ LET r == Events[l] IN
                /\ r.idx = 0 \/ (r.idx > k /\ r.idx <= Len(PassNames) /\ PassNames[r.idx] = r.name)
                /\ k' = r.idx
                /\ equiv' = r.equiv
             /\ UNCHANGED <<tid, inPipe>>

TraceEnd == /\ IsEvent("OptEnd")
            /\ inPipe /\ Events[l].tid = tid
            /\ inPipe' = FALSE
            /\ UNCHANGED <<tid, k, equiv>>

Next == TraceBegin \/ TracePass \/ TraceEnd
Spec == Init /\ [][Next]_vars

EveryPrefixEquivalent == equiv
PostAccepted == TLCGet("stats").diameter - 1 = Len(Events)
=============================================================================
