------------------------------ MODULE J2O_CastTable ------------------------------
(***************************************************************************)
(* Cast round trips  T -> U -> T  (property C17).                          *)
(*                                                                         *)
(* Part 1 (this module, MC_CastMini.cfg): a complete MINIATURE family of   *)
(* number formats -- bool, signed/unsigned integers of 1..MaxBits bits and  *)
(* binary floating formats (precision p, min subnormal exponent emin, max  *)
(* normal exponent emax, with/without infinities and negative zero).        *)
(* A behaviour picks a source format s, an intermediate format t and a      *)
(* value v of s, converts v to t and back with the ONNX/NumPy conversion   *)
(* rules (wrap for int->int, round-to-nearest for ->float with ties and     *)
(* overflow left NONDETERMINISTIC, truncation for float->int, C truthiness  *)
(* for ->bool).  Invariants:                                               *)
(*   RoundTripSafe : Accepts(s,t) => the value that comes back equals v     *)
(*   LemmaExact    : the parametric inclusion tests used by Accepts are     *)
(*                   EXACTLY set inclusion of the enumerated value sets     *)
(* so the parameter-only decision rule `Accepts' is validated against real  *)
(* value sets for every pair of the family.                                 *)
(*                                                                         *)
(* Part 2 (J2O_CastReal.tla) applies the same `Accepts' to the real ONNX    *)
(* element types and checks the decision table extracted from the           *)
(* implementation against it.                                               *)
(***************************************************************************)
EXTENDS J2O_CastRules, FiniteSets, TLC

CONSTANTS MaxBits,      \* miniature integer widths 1..MaxBits
          MaxPrec,      \* miniature float precisions 1..MaxPrec
          EMinMag,      \* miniature emin ranges over -EMinMag..0
          EMaxHi        \* miniature emax ranges over 0..EMaxHi

EMinLo == -EMinMag

RECURSIVE Pow2(_)
Pow2(n) == IF n <= 0 THEN 1 ELSE 2 * Pow2(n - 1)

SC == Pow2(-EMinLo)          \* every miniature value times SC is an integer

Abs(x) == IF x < 0 THEN -x ELSE x
Max(S) == CHOOSE x \in S : \A y \in S : y <= x
Min(S) == CHOOSE x \in S : \A y \in S : x <= y

---------------------------------------------------------------------------
(* Formats: constructors live in J2O_CastRules *)
MiniInts == {IntFmt(sg, b) : sg \in BOOLEAN, b \in 1..MaxBits}
MiniFloats == {FloatFmt(p, emin, emax, inf, nz, cx) :
                 p \in 1..MaxPrec, emin \in EMinLo..0, emax \in 0..EMaxHi,
                 inf \in BOOLEAN, nz \in {TRUE}, cx \in BOOLEAN}
MiniFmts == {BoolFmt} \cup MiniInts \cup {f \in MiniFloats : f.emax - f.p + 1 >= f.emin}

---------------------------------------------------------------------------
(* Value sets.  A value is Num(x) (x = real value * SC) or a special.      *)
Num(x) == [t |-> "num", x |-> x]
NaN == [t |-> "nan", x |-> 0]
PInf == [t |-> "pinf", x |-> 0]
NInf == [t |-> "ninf", x |-> 0]
NZero == [t |-> "nzero", x |-> 0]
Undef == [t |-> "undef", x |-> 0]

IntLo(f) == IF f.sg THEN -Pow2(f.b - 1) ELSE 0
IntHi(f) == IF f.sg THEN Pow2(f.b - 1) - 1 ELSE Pow2(f.b) - 1

\* finite non-negative magnitudes of a float format, scaled by SC
Mags(f) == {m * Pow2(e - EMinLo) : m \in 0..(Pow2(f.p) - 1), e \in f.emin..(f.emax - f.p + 1)}

Nums(f) ==
    CASE f.k = "bool" -> {0, SC}
      [] f.k = "int" -> {i * SC : i \in IntLo(f)..IntHi(f)}
      [] f.k = "float" -> Mags(f) \cup {-x : x \in Mags(f)}

Rep(f) ==
    {Num(x) : x \in Nums(f)} \cup
    (IF f.k = "float"
       THEN {NaN} \cup (IF f.inf THEN {PInf, NInf} ELSE {}) \cup (IF f.nz THEN {NZero} ELSE {})
       ELSE {})

---------------------------------------------------------------------------
(* Conversions: the SET of results an ONNX/NumPy Cast may produce.          *)
TruncToInt(x) == IF x >= 0 THEN x \div SC ELSE -((-x) \div SC)

WrapInt(i, g) ==
    LET m == Pow2(g.b)
        r == i % m           \* 0..m-1
    IN IF g.sg /\ r >= Pow2(g.b - 1) THEN r - m ELSE r

RoundFloat(x, g) ==          \* x scaled; nearest representable, ties and overflow nondeterministic
    LET R == Nums(g)
        mx == Max(R)
    IN IF x \in R THEN {Num(x)}
       ELSE IF x > mx THEN {Num(mx)} \cup (IF g.inf THEN {PInf} ELSE {NaN})
       ELSE IF x < -mx THEN {Num(-mx)} \cup (IF g.inf THEN {NInf} ELSE {NaN})
       ELSE LET lo == Max({r \in R : r <= x})
                hi == Min({r \in R : r >= x})
            IN IF x - lo < hi - x THEN {Num(lo)}
               ELSE IF hi - x < x - lo THEN {Num(hi)}
               ELSE {Num(lo), Num(hi)}

Conv(v, f, g) ==
    CASE g.k = "bool" ->
           IF v.t \in {"nan", "pinf", "ninf"} \/ (v.t = "num" /\ v.x # 0)
             THEN {Num(SC)} ELSE {Num(0)}
      [] g.k = "int" ->
           IF v.t = "nzero" THEN {Num(0)}
           ELSE IF v.t # "num" THEN {Undef}
           ELSE IF f.k = "float"
                  THEN LET i == TruncToInt(v.x)
                       IN IF i < IntLo(g) \/ i > IntHi(g) THEN {Undef} ELSE {Num(i * SC)}
                  ELSE {Num(WrapInt(v.x \div SC, g) * SC)}
      [] g.k = "float" ->
           CASE v.t = "nan" -> {NaN}
             [] v.t = "pinf" -> IF g.inf THEN {PInf} ELSE {NaN, Num(Max(Nums(g)))}
             [] v.t = "ninf" -> IF g.inf THEN {NInf} ELSE {NaN, Num(-Max(Nums(g)))}
             [] v.t = "nzero" -> IF g.nz THEN {NZero} ELSE {Num(0)}
             [] v.t = "undef" -> {Undef}
             [] OTHER -> RoundFloat(v.x, g)

---------------------------------------------------------------------------
(* Behaviour: pick (s, t, v); convert; convert back.                        *)
VARIABLES s, t, v, mid, back, stage
vars == <<s, t, v, mid, back, stage>>

Init == /\ s \in MiniFmts /\ t \in MiniFmts
        /\ v \in Rep(s)
        /\ mid = Undef /\ back = Undef /\ stage = "src"

CastForward == /\ stage = "src"
               /\ mid' \in Conv(v, s, t)
               /\ stage' = "mid"
               /\ UNCHANGED <<s, t, v, back>>

\* complex -> real drops the imaginary part; values here have imaginary part 0, so the
\* component conversion is the whole story.
CastBack == /\ stage = "mid"
            /\ back' \in Conv(mid, t, s)
            /\ stage' = "back"
            /\ UNCHANGED <<s, t, v, mid>>

Next == CastForward \/ CastBack
Spec == Init /\ [][Next]_vars

RoundTripSafe == (stage = "back" /\ Accepts(s, t)) => back = v

\* The intermediate value of an accepted pair is the same abstract value.
ForwardExact == (stage = "mid" /\ Accepts(s, t) /\ s.k # "bool" /\ v.t # "undef") => mid = v

\* The lemma is exactly value-set inclusion (bool handled separately).
LemmaExact ==
    (stage = "src" /\ s.k # "bool" /\ t.k # "bool" /\ ~(s.k = "float" /\ t.k = "int")
       /\ ~(s.k = "float" /\ t.k = "float" /\ s.cx /\ ~t.cx)) =>
        (Accepts(s, t) <=> Rep(s) \subseteq Rep(t))

\* Non-vacuity witnesses (expected to be VIOLATED when checked; used by the self test only).
SomeRejected == ~(stage = "back" /\ ~Accepts(s, t) /\ back # v)
=============================================================================
