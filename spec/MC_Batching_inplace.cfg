SPECIFICATION Spec
CONSTANT Variant = "inplace"
INVARIANT RuleSound
INVARIANT AxisAlias
CHECK_DEADLOCK FALSE
