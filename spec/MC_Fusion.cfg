SPECIFICATION Spec
CONSTANT Dev = "none"
INVARIANT FusionSound
INVARIANT LpNormSound
INVARIANT DigitizeLaws
CHECK_DEADLOCK FALSE
