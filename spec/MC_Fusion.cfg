SPECIFICATION Spec
CONSTANT Dev = "none"
INVARIANT FusionSound
INVARIANT LpNormSound
INVARIANT MeanSound
INVARIANT NormLaws
INVARIANT DigitizeLaws
CHECK_DEADLOCK FALSE
