SPECIFICATION Spec
CONSTANT Dev = "none"
INVARIANT FusionSound
INVARIANT DigitizeLaws
CHECK_DEADLOCK FALSE
