SPECIFICATION Spec
CONSTANT Dev = "mul_any_operands"
INVARIANT FusionSound
INVARIANT LpNormSound
INVARIANT MeanSound
INVARIANT NormLaws
INVARIANT DigitizeLaws
CHECK_DEADLOCK FALSE
