SPECIFICATION Spec
CONSTANT Variant = "front"
INVARIANT RuleSound
INVARIANT AxisAlias
CHECK_DEADLOCK FALSE
