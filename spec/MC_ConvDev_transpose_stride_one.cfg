SPECIFICATION Spec
CONSTANT Dev = "transpose_stride_one"
INVARIANT LoweringSound
INVARIANT LengthLaw
CHECK_DEADLOCK FALSE
