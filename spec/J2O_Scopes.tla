--------------------------------- MODULE J2O_Scopes ---------------------------------
(***************************************************************************)
(* Code -> spec monitor for C03: the define / use / enter / exit events of  *)
(* a walk over a REAL exported ModelProto (main graph, nested Loop/If        *)
(* bodies, function bodies), validated against ONNX scoping:                 *)
(*   Define(n): n must not be defined in this scope or any enclosing one     *)
(*              (single assignment, no shadowing);                           *)
(*   Use(n)   : n must be defined in this scope or an enclosing one;         *)
(*   a function body is a fresh namespace (it sees nothing of the caller).   *)
(* ndjson: [tid, ev, kind, name]; many models are batched, Begin starts one. *)
(***************************************************************************)
EXTENDS Integers, Sequences, FiniteSets, TLC, TLCExt, Json, IOUtils

Events == ndJsonDeserialize(IOEnv.TRACE_FILE)

VARIABLES l, stack, base, err
vars == <<l, stack, base, err>>

Init == l = 1 /\ stack = <<>> /\ base = <<>> /\ err = "none"
IsEvent(e) == l <= Len(Events) /\ Events[l].ev = e /\ l' = l + 1

\* scopes visible from the innermost one: down to the root of the current main graph / function
VisibleFrom == IF base = <<>> THEN 1 ELSE base[Len(base)]
Defined(n) == \E k \in VisibleFrom..Len(stack) : n \in stack[k]

TraceBegin == IsEvent("Begin") /\ stack' = <<>> /\ base' = <<>> /\ err' = err
TraceEnter == /\ IsEvent("Enter")
              /\ stack' = Append(stack, {})
              /\ base' = IF Events[l].kind \in {"main", "function"} THEN Append(base, Len(stack) + 1) ELSE base
              /\ UNCHANGED err
TraceExit == /\ IsEvent("Exit") /\ stack # <<>>
             /\ stack' = SubSeq(stack, 1, Len(stack) - 1)
             /\ base' = IF Events[l].kind \in {"main", "function"} /\ base # <<>> THEN SubSeq(base, 1, Len(base) - 1) ELSE base
             /\ UNCHANGED err
TraceDefine == /\ IsEvent("Define") /\ stack # <<>>
               /\ LET n == Events[l].name IN
                  /\ err' = IF err = "none" /\ Defined(n) THEN "redefined" ELSE err
                  /\ stack' = [stack EXCEPT ![Len(stack)] = @ \cup {n}]
               /\ UNCHANGED base
TraceUse == /\ IsEvent("Use") /\ stack # <<>>
            /\ err' = IF err = "none" /\ ~Defined(Events[l].name) THEN "undefined_use" ELSE err
            /\ UNCHANGED <<stack, base>>

Next == TraceBegin \/ TraceEnter \/ TraceExit \/ TraceDefine \/ TraceUse
Spec == Init /\ [][Next]_vars

WellScoped == err = "none"
PostAccepted == TLCGet("stats").diameter - 1 = Len(Events)
=============================================================================
