---- MODULE MC_SymShape ----
EXTENDS J2O_SymShape
====
