SPECIFICATION Spec
INVARIANT AnnotationsSound
POSTCONDITION PostAccepted
CHECK_DEADLOCK FALSE
