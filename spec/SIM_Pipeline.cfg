CONSTANTS
  MaxIn = 2
  MaxOut = 2
  NPass = 3
SPECIFICATION Spec
INVARIANT EmitEnd
CHECK_DEADLOCK FALSE
