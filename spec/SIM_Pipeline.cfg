CONSTANTS
  NinSet <- SmallNin
  NoutSet <- SmallNout
  UnusedSets <- SmallUnused
  ReqFilter <- NoFilter
  NPass = 3
SPECIFICATION Spec
INVARIANT EmitEnd
CHECK_DEADLOCK FALSE
