-------------------------------- MODULE J2O_Precision --------------------------------
(***************************************************************************)
(* Code -> spec monitor for C09.  One event per REAL export:                 *)
(*   [tid, double, ndouble, nfloat, allf64, outs_single_ok, x64_before,      *)
(*    x64_after, explicit64]                                                 *)
(*   double       : enable_double_precision of the request                   *)
(*   ndouble      : DOUBLE typed tensors / constants / Cast targets found    *)
(*                  anywhere in the model (bodies and functions included)    *)
(*   nfloat       : FLOAT typed ones                                         *)
(*   allf64       : the callable traced by JAX in 64-bit mode involves only  *)
(*                  float64 floating values (the antecedent of the double     *)
(*                  clause)                                                   *)
(*   explicit64   : the request itself names a float64 input (then DOUBLE is  *)
(*                  what the user asked for even in single mode)             *)
(*   outs_single_ok : every floating model output is float32 (single mode)   *)
(* Invariants = the property; the x64 flag is J2O_Host!FlagRestored.          *)
(***************************************************************************)
EXTENDS Integers, Sequences, TLC, TLCExt, Json, IOUtils

Events == ndJsonDeserialize(IOEnv.TRACE_FILE)
VARIABLES l, cur
vars == <<l, cur>>
None == [double |-> FALSE, ndouble |-> 0, nfloat |-> 0, allf64 |-> FALSE, outs_single_ok |-> TRUE, x64_before |-> FALSE, x64_after |-> FALSE, explicit64 |-> FALSE]
Init == l = 1 /\ cur = None
Consume == /\ l <= Len(Events)
           /\ cur' = [k \in DOMAIN None |-> Events[l][k]]
           /\ l' = l + 1
Next == Consume
Spec == Init /\ [][Next]_vars

SingleHasNoDouble == (~cur.double /\ ~cur.explicit64) => (cur.ndouble = 0 /\ cur.outs_single_ok)
DoubleHasNoFloatDetour == (cur.double /\ cur.allf64) => cur.nfloat = 0
FlagRestored == cur.x64_after = cur.x64_before
PostAccepted == TLCGet("stats").diameter - 1 = Len(Events)
=============================================================================
