SPECIFICATION Spec
INVARIANT WindowFits
INVARIANT UpdateThenSlice
INVARIANT RollInverse
INVARIANT TakeInRangeAgree
INVARIANT EmitDone
CHECK_DEADLOCK FALSE
