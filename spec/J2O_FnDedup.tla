-------------------------------- MODULE J2O_FnDedup --------------------------------
(***************************************************************************)
(* @onnx_function boundaries (property C07): call sites are lowered in      *)
(* order; each computes a registry key; a hit re-uses the stored function    *)
(* definition, a miss traces and stores a new one.  A call site is           *)
(*   inst : which object is called (identity)                                *)
(*   kw   : the keyword argument: none | static value s1 / s2 | a traced      *)
(*          value | a call-time parameter (input_params)                     *)
(*   shp, dt : shape / dtype class of the tensor argument                     *)
(* and the instance table gives each object its weights and static config.   *)
(* Sem(site) is everything that determines the function body; the key is     *)
(* what the registry compares (per mode, transcribed from                    *)
(* FunctionPlugin._lower_and_call / _build_unique_signature):                *)
(*   shared (default): object identity + captured kwargs + input signature    *)
(*   unique          : target + instance state BY VALUE + captures + inputs   *)
(* DedupSound: a call site that hits an existing definition computes the      *)
(* same function; CallArity: call node inputs = definition inputs.            *)
(* Named deviations (not in Next): the object is mutated between two calls,  *)
(* or a collected temporary's identity is reused by a different object.      *)
(***************************************************************************)
EXTENDS Integers, Sequences, FiniteSets, TLC

CONSTANTS MaxSites, Unique

Insts == {1, 2}
Kws == {"none", "s1", "s2", "traced", "param"}
\* instance tables: object 1 is (w1, cfg1); object 2 is an equal twin, or differs in weights or config
Tables == {"twin", "other_weights", "other_config"}
W(tab, i) == IF i = 2 /\ tab = "other_weights" THEN 2 ELSE 1
Cfg(tab, i) == IF i = 2 /\ tab = "other_config" THEN 2 ELSE 1

Site == [inst : Insts, kw : Kws, shp : {1, 2}, dt : {1, 2}]

VARIABLES tab, sites, k, freg, calls, ids
vars == <<tab, sites, k, freg, calls, ids>>

KwCap(kw) == CASE kw \in {"s1", "s2", "none"} -> kw [] kw = "traced" -> "dynamic" [] kw = "param" -> "call_input"
Sem(s) == <<W(tab, s.inst), Cfg(tab, s.inst), KwCap(s.kw), s.shp, s.dt>>
Arity(s) == 1 + (IF s.kw \in {"traced", "param"} THEN 1 ELSE 0)
\* ids[i]: the identity the registry sees for object i (differs from i only under Dev_IdReuse)
Key(s) == IF Unique THEN <<"u", W(tab, s.inst), Cfg(tab, s.inst), KwCap(s.kw), s.shp, s.dt>>
          ELSE <<"s", ids[s.inst], KwCap(s.kw), s.shp, s.dt>>

Init == /\ tab \in Tables
        /\ sites \in UNION {[1..n -> Site] : n \in 1..MaxSites}
        /\ k = 0 /\ freg = <<>> /\ calls = <<>>
        /\ ids = [i \in Insts |-> i]

InReg(key) == \E j \in 1..Len(freg) : freg[j].key = key
Lookup(key) == CHOOSE j \in 1..Len(freg) : freg[j].key = key

LowerCallHit ==
    /\ k < Len(sites)
    /\ LET s == sites[k + 1] IN
       /\ InReg(Key(s))
       /\ calls' = Append(calls, [site |-> k + 1, def |-> Lookup(Key(s)), nin |-> Arity(s)])
    /\ k' = k + 1
    /\ UNCHANGED <<tab, sites, freg, ids>>

LowerCallMiss ==     \* FunctionScope.begin .. trace body .. lower .. end .. registry.put
    /\ k < Len(sites)
    /\ LET s == sites[k + 1] IN
       /\ ~InReg(Key(s))
       /\ freg' = Append(freg, [key |-> Key(s), sem |-> Sem(s), nin |-> Arity(s)])
       /\ calls' = Append(calls, [site |-> k + 1, def |-> Len(freg) + 1, nin |-> Arity(s)])
    /\ k' = k + 1
    /\ UNCHANGED <<tab, sites, ids>>

Next == LowerCallHit \/ LowerCallMiss
Spec == Init /\ [][Next]_vars

DedupSound == \A c \in 1..Len(calls) : freg[calls[c].def].sem = Sem(sites[calls[c].site])
CallArity == \A c \in 1..Len(calls) : freg[calls[c].def].nin = calls[c].nin
\* sharing happens only between equal functions; the converse (equal => shared) is not required
DistinctWhenDifferent ==
    \A a, b \in 1..Len(calls) : Sem(sites[calls[a].site]) # Sem(sites[calls[b].site]) => calls[a].def # calls[b].def

\* ---- named deviations
Dev_IdReuse ==      \* object 1 was a temporary; its identity is handed to object 2
    /\ ~Unique /\ k >= 1 /\ ids[2] # ids[1]
    /\ ids' = [ids EXCEPT ![2] = ids[1]]
    /\ UNCHANGED <<tab, sites, k, freg, calls>>
Dev_MutateBetweenCalls ==   \* the user's object changes its weights between two calls
    /\ ~Unique /\ k >= 1 /\ tab = "twin"
    /\ tab' = "other_weights"
    /\ UNCHANGED <<sites, k, freg, calls, ids>>
DevSpec == Init /\ [][Next \/ Dev_IdReuse \/ Dev_MutateBetweenCalls]_vars
=============================================================================
