-------------------------------- MODULE J2O_FnDedup --------------------------------
(***************************************************************************)
(* @onnx_function boundaries (property C07): call sites are lowered in      *)
(* order; each computes a registry key; a hit re-uses the stored function    *)
(* definition, a miss traces and stores a new one.  A call site is           *)
(*   inst : which object is called (identity)                                *)
(*   kw   : the keyword argument: none | static value s1 / s2 | a traced      *)
(*          value | a call-time parameter (input_params)                     *)
(*   shp, dt : shape / dtype class of the tensor argument                     *)
(* and the instance table gives each object its weights and static config.   *)
(* Sem(site) is everything that determines the function body; the key is     *)
(* what the registry compares (per mode, transcribed from                    *)
(* FunctionPlugin._lower_and_call / _build_unique_signature):                *)
(*   shared (default): object identity + captured kwargs + input signature    *)
(*   unique          : target + instance state BY VALUE + captures + inputs   *)
(* DedupSound: a call site that hits an existing definition computes the      *)
(* same function; CallArity: call node inputs = definition inputs.            *)
(* Named deviations (not in Next): the object is mutated between two calls,  *)
(* or a collected temporary's identity is reused by a different object.      *)
(***************************************************************************)
EXTENDS Integers, Sequences, FiniteSets, TLC

CONSTANTS MaxSites, Unique,
          Kws,        \* keyword-argument forms enumerated: subset of AllKws
          Scopes      \* where a call site sits: "top" (main graph) | "body" (inside ITS OWN outer @onnx_function,
                      \*   so two "body" sites live in SIBLING function bodies = sibling child contexts)

Insts == {1, 2}
\* "ab" / "ba": two traced keyword arguments (scale, shift) written in this / the opposite order at the call site
AllKws == {"none", "s1", "s2", "traced", "param", "ab", "ba"}
\* instance tables: object 1 is (w1, cfg1); object 2 is an equal twin, or differs in weights or config
\* "homonym": object 2 is an instance of ANOTHER decorated class that has the same display name (same class name
\* in another module, or the same type= override) and a body of its own
Tables == {"twin", "other_weights", "other_config", "homonym"}
W(tab, i) == IF i = 2 /\ tab \in {"other_weights", "homonym"} THEN 2 ELSE 1
Cls(tab, i) == IF i = 2 /\ tab = "homonym" THEN 2 ELSE 1
Cfg(tab, i) == IF i = 2 /\ tab = "other_config" THEN 2 ELSE 1

Site == [inst : Insts, kw : Kws, shp : {1, 2}, dt : {1, 2}, scope : Scopes]

VARIABLES tab, sites, k, freg, calls, ids,
          ctr,        \* name counters: ctr[0] is the dict object every context of a conversion shares by
                      \* reference; ctr[i] is the private copy of call site i's outer body (used only by Dev_CopyCounters)
          copied,     \* TRUE once a deviation detached the counters of the function bodies
          perTarget   \* TRUE once a deviation keyed the name counters by target class instead of display name
vars == <<tab, sites, k, freg, calls, ids, ctr, copied, perTarget>>

\* what the function computes does not depend on the order keywords are written in
KwSem(kw) == CASE kw \in {"s1", "s2", "none"} -> kw [] kw = "traced" -> "dynamic" [] kw = "param" -> "call_input"
               [] kw \in {"ab", "ba"} -> "dynamic2"
\* what the registry key records: captured items in CALL-SITE order
KwCap(kw) == IF kw \in {"ab", "ba"} THEN <<"dynamic2", kw>> ELSE <<KwSem(kw), "-">>
\* runtime inputs appended to the call node / declared by the definition, in order
RuntimeOrd(kw) == CASE kw = "ab" -> <<"scale", "shift">> [] kw = "ba" -> <<"shift", "scale">>
                    [] kw = "traced" -> <<"scale">> [] kw = "param" -> <<"flip">> [] OTHER -> <<>>
Sem(s) == <<W(tab, s.inst), Cfg(tab, s.inst), KwSem(s.kw), s.shp, s.dt>>
Arity(s) == 1 + Len(RuntimeOrd(s.kw))
\* ids[i]: the identity the registry sees for object i (differs from i only under Dev_IdReuse)
Key(s) == IF Unique THEN <<"u", W(tab, s.inst), Cfg(tab, s.inst), KwCap(s.kw), s.shp, s.dt>>
          ELSE <<"s", ids[s.inst], KwCap(s.kw), s.shp, s.dt>>

Init == /\ tab \in Tables
        /\ sites \in UNION {[1..n -> Site] : n \in 1..MaxSites}
        /\ k = 0 /\ freg = <<>> /\ calls = <<>>
        /\ ids = [i \in Insts |-> i]
        /\ ctr = [c \in 0..MaxSites |-> 0] /\ copied = FALSE /\ perTarget = FALSE

\* _allocate_friendly_name: (domain, op_type) = (namespace.base.<n>, base); n from the counters the lowering
\* context of THIS call site holds -- the shared dict, unless a deviation gave the body a private copy
\* (names are allocated per DISPLAY name: homonymous classes draw from one counter; Dev_CounterPerTarget keys it by class)
CtrOf(i) == IF copied /\ sites[i].scope = "body" THEN i
            ELSE IF perTarget /\ Cls(tab, sites[i].inst) = 2 THEN MaxSites ELSE 0
NextName(i) == ctr[CtrOf(i)] + 1

InReg(key) == \E j \in 1..Len(freg) : freg[j].key = key
Lookup(key) == CHOOSE j \in 1..Len(freg) : freg[j].key = key

LowerCallHit ==
    /\ k < Len(sites)
    /\ LET s == sites[k + 1] IN
       /\ InReg(Key(s))
       /\ calls' = Append(calls, [site |-> k + 1, def |-> Lookup(Key(s)), nin |-> Arity(s), ord |-> RuntimeOrd(s.kw)])
    /\ k' = k + 1
    /\ UNCHANGED <<tab, sites, freg, ids, ctr, copied, perTarget>>

LowerCallMiss ==     \* FunctionScope.begin .. trace body .. lower .. end .. registry.put
    /\ k < Len(sites)
    /\ LET s == sites[k + 1] IN
       /\ ~InReg(Key(s))
       /\ freg' = Append(freg, [key |-> Key(s), sem |-> Sem(s), nin |-> Arity(s), ord |-> RuntimeOrd(s.kw), name |-> NextName(k + 1)])
       /\ calls' = Append(calls, [site |-> k + 1, def |-> Len(freg) + 1, nin |-> Arity(s), ord |-> RuntimeOrd(s.kw)])
       /\ ctr' = [ctr EXCEPT ![CtrOf(k + 1)] = @ + 1]
    /\ k' = k + 1
    /\ UNCHANGED <<tab, sites, ids, copied, perTarget>>

Next == LowerCallHit \/ LowerCallMiss
Spec == Init /\ [][Next]_vars

DedupSound == \A c \in 1..Len(calls) : freg[calls[c].def].sem = Sem(sites[calls[c].site])
CallArity == \A c \in 1..Len(calls) : freg[calls[c].def].nin = calls[c].nin
\* the i-th input of a call node is bound to the i-th formal of the definition it refers to
CallBinding == \A c \in 1..Len(calls) : freg[calls[c].def].ord = calls[c].ord
\* the model stores functions by (domain, name): two definitions must never get one name, and a call
\* resolves to the LAST definition stored under its name
NamesUnique == \A i, j \in 1..Len(freg) : i # j => freg[i].name # freg[j].name
Resolve(c) == CHOOSE j \in 1..Len(freg) : /\ freg[j].name = freg[calls[c].def].name
                                           /\ \A m \in 1..Len(freg) : freg[m].name = freg[j].name => m <= j
ResolvedSound == \A c \in 1..Len(calls) : freg[Resolve(c)].sem = Sem(sites[calls[c].site])
\* sharing happens only between equal functions; the converse (equal => shared) is not required
DistinctWhenDifferent ==
    \A a, b \in 1..Len(calls) : Sem(sites[calls[a].site]) # Sem(sites[calls[b].site]) => calls[a].def # calls[b].def

\* ---- named deviations
Dev_IdReuse ==      \* object 1 was a temporary; its identity is handed to object 2
    /\ ~Unique /\ k >= 1 /\ ids[2] # ids[1]
    /\ ids' = [ids EXCEPT ![2] = ids[1]]
    /\ UNCHANGED <<tab, sites, k, freg, calls, ctr, copied, perTarget>>
Dev_MutateBetweenCalls ==   \* the user's object changes its weights between two calls
    /\ ~Unique /\ k >= 1 /\ tab = "twin"
    /\ tab' = "other_weights"
    /\ UNCHANGED <<sites, k, freg, calls, ids, ctr, copied, perTarget>>
Dev_CopyCounters ==         \* a function body gets a COPY of the name counters instead of the shared dict
    /\ ~copied /\ k = 0
    /\ copied' = TRUE /\ UNCHANGED perTarget
    /\ UNCHANGED <<tab, sites, k, freg, calls, ids, ctr>>
\* the key canonicalises keyword order while the call node keeps appending in call-site order
DevKey(s) == IF Unique THEN <<"u", W(tab, s.inst), Cfg(tab, s.inst), KwSem(s.kw), s.shp, s.dt>>
             ELSE <<"s", ids[s.inst], KwSem(s.kw), s.shp, s.dt>>
Dev_LowerCallHitSortedKey ==
    /\ k < Len(sites)
    /\ LET s == sites[k + 1] IN
       /\ \E j \in 1..Len(freg) : freg[j].key[1] = Key(s)[1] /\ freg[j].sem = Sem(s) /\ freg[j].key # Key(s)
       /\ LET j == CHOOSE j \in 1..Len(freg) : freg[j].key[1] = Key(s)[1] /\ freg[j].sem = Sem(s) /\ freg[j].key # Key(s) IN
          calls' = Append(calls, [site |-> k + 1, def |-> j, nin |-> Arity(s), ord |-> RuntimeOrd(s.kw)])
    /\ k' = k + 1
    /\ UNCHANGED <<tab, sites, freg, ids, ctr, copied, perTarget>>
DevSpec == Init /\ [][Next \/ Dev_IdReuse \/ Dev_MutateBetweenCalls]_vars
Dev_CounterPerTarget ==     \* the per-context name counter is keyed by the qualified target instead of the display name
    /\ ~perTarget /\ k = 0
    /\ perTarget' = TRUE
    /\ UNCHANGED <<tab, sites, k, freg, calls, ids, ctr, copied>>
DevSpecPerTarget == Init /\ [][Next \/ Dev_CounterPerTarget]_vars

DevSpecNames == Init /\ [][Next \/ Dev_CopyCounters]_vars
DevSpecKwOrder == Init /\ [][Next \/ Dev_LowerCallHitSortedKey]_vars
=============================================================================
