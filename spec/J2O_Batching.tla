--------------------------------- MODULE J2O_Batching ---------------------------------
(***************************************************************************)
(* Axis-parameterised operators under vmap (property C10, and C01 for the   *)
(* per-example meaning).  While a callable is traced for export the          *)
(* converter substitutes its own primitives for library functions; each      *)
(* substitute carries its own batching rule.  For an operator with an        *)
(* `axis` parameter the rule has to translate the axis, which addresses the  *)
(* PER-EXAMPLE operand, into the coordinates of the BATCHED operand.         *)
(*                                                                           *)
(* Specification of vmap (what JAX means):                                   *)
(*     vmap(op(axis), in_axes = bd, out_axes = ob)(X)                        *)
(*         = Stack(ob, [b |-> op(axis)(Slice(X, bd, b))])                    *)
(* Implementation shape (what a batching rule does): it receives X, bd and   *)
(* the parameters, binds the primitive ONCE on a batched operand with a      *)
(* translated axis, and reports where the batch dimension of the result is.  *)
(* Rules modelled as named variants:                                         *)
(*   front    moveaxis(bd -> 0), axis' = canon(axis, r) + 1, out_bdim = 0    *)
(*   inplace  axis' = canon(axis, r) + [bd <= canon], out_bdim = bd (minus 1 *)
(*            for reductions when axis' < bd)                                 *)
(*   Dev_keep        binds with the axis unchanged, out_bdim = bd  (the      *)
(*                   "elementwise" rule applied to an axis operator)         *)
(*   Dev_canon_batch canonicalises the axis against the BATCHED rank, then    *)
(*                   shifts as if it were per-example (double shift)          *)
(* RuleSound(v) says: unbatching the rule's result gives exactly the vmap     *)
(* specification, for every operator class, per-example rank 2 operand,      *)
(* every axis (negative too), every bd and every ob.  It holds for `front`   *)
(* and `inplace` and is violated by both deviations (MC_BatchingDev*.cfg),    *)
(* so the invariant is not vacuous.  Every case is emitted with its exact    *)
(* expected tensor; the harness exports vmap(f) for every registered library  *)
(* function of that operator class and compares ORT with the prediction.     *)
(***************************************************************************)
EXTENDS Integers, Sequences, FiniteSets, TLC

CONSTANT Variant            \* which batching rule the model binds with

\* ---- tensors: [sh |-> shape (sequence of sizes), f |-> [index tuples -> Int]]
RECURSIVE IdxSet(_)
IdxSet(sh) == IF sh = <<>> THEN {<<>>}
              ELSE {<<i>> \o t : i \in 1..Head(sh), t \in IdxSet(Tail(sh))}
RemoveAt(s, k) == [i \in 1..(Len(s) - 1) |-> IF i < k THEN s[i] ELSE s[i + 1]]
InsertAt(s, k, v) == [i \in 1..(Len(s) + 1) |-> IF i < k THEN s[i] ELSE IF i = k THEN v ELSE s[i - 1]]
SetAt(s, k, v) == [s EXCEPT ![k] = v]
Tensor(sh, g(_)) == [sh |-> sh, f |-> [ix \in IdxSet(sh) |-> g(ix)]]

\* slice b along (1-based) dimension d, dropping it; stack a family along dimension d
SliceT(t, d, b) == Tensor(RemoveAt(t.sh, d), LAMBDA ix : t.f[InsertAt(ix, d, b)])
StackT(fam, n, d) == LET sh0 == fam[1].sh IN
    Tensor(InsertAt(sh0, d, n), LAMBDA ix : fam[ix[d]].f[RemoveAt(ix, d)])
MoveAxisT(t, from, to) == LET v == t.sh[from]  rest == RemoveAt(t.sh, from) IN
    Tensor(InsertAt(rest, to, v), LAMBDA ix : t.f[InsertAt(RemoveAt(ix, to), from, ix[to])])

\* ---- per-example operators along (1-based, canonical) axis a
Line(t, ix, a) == [k \in 1..t.sh[a] |-> t.f[SetAt(ix, a, k)]]          \* the fibre through ix along a
RECURSIVE SumTo(_, _)
SumTo(v, k) == IF k = 0 THEN 0 ELSE v[k] + SumTo(v, k - 1)
MaxTo(v, k) == CHOOSE m \in {v[i] : i \in 1..k} : \A i \in 1..k : v[i] <= m
ArgMax(v) == CHOOSE i \in 1..Len(v) : (\A j \in 1..Len(v) : v[j] <= v[i]) /\ (\A j \in 1..(i - 1) : v[j] < v[i])
SortedLine(v) == CHOOSE s \in [1..Len(v) -> {v[i] : i \in 1..Len(v)}] :
    /\ \A i \in 1..(Len(v) - 1) : s[i] <= s[i + 1]
    /\ \A x \in {v[i] : i \in 1..Len(v)} : Cardinality({i \in 1..Len(v) : s[i] = x}) = Cardinality({i \in 1..Len(v) : v[i] = x})

Reducing == {"sum", "max", "argmax"}
Keeping == {"cumsum", "cummax", "flip", "sort"}
Ops == Reducing \cup Keeping

ApplyOp(op, t, a) ==
    IF op \in Reducing
    THEN Tensor(RemoveAt(t.sh, a), LAMBDA ix : LET ln == Line(t, InsertAt(ix, a, 1), a) IN
            CASE op = "sum" -> SumTo(ln, Len(ln)) [] op = "max" -> MaxTo(ln, Len(ln)) [] op = "argmax" -> ArgMax(ln) - 1)
    ELSE Tensor(t.sh, LAMBDA ix : LET ln == Line(t, ix, a)  k == ix[a] IN
            CASE op = "cumsum" -> SumTo(ln, k) [] op = "cummax" -> MaxTo(ln, k)
              [] op = "flip" -> ln[Len(ln) + 1 - k] [] op = "sort" -> SortedLine(ln)[k])

\* JAX axis numbers are 0-based and may be negative; Canon gives the 1-based canonical axis for rank r
Canon(axis, r) == (IF axis < 0 THEN axis + r ELSE axis) + 1

\* ---- the specification of vmap
R == 2                                                              \* per-example rank
VmapSpec(op, X, bd, axis, ob) ==
    LET n == X.sh[bd]
        fam == [b \in 1..n |-> ApplyOp(op, SliceT(X, bd, b), Canon(axis, R))]
    IN StackT(fam, n, ob)

\* ---- batching rules: <<result, out_bdim>> (out_bdim 1-based)
Rule(v, op, X, bd, axis) ==
    LET c == Canon(axis, R) IN
    CASE v = "front" -> <<ApplyOp(op, MoveAxisT(X, bd, 1), c + 1), 1>>
      [] v = "inplace" -> LET a2 == IF bd <= c THEN c + 1 ELSE c IN
            <<ApplyOp(op, X, a2), IF op \in Reducing /\ a2 < bd THEN bd - 1 ELSE bd>>
      [] v = "Dev_keep" -> LET a2 == Canon(axis, R + 1) IN                   \* axis number reused on the batched operand
            <<ApplyOp(op, X, a2), IF op \in Reducing /\ a2 < bd THEN bd - 1 ELSE IF op \in Reducing /\ a2 = bd THEN 1 ELSE bd>>
      [] v = "Dev_canon_batch" -> LET cb == Canon(axis, R + 1)  a2 == IF bd <= cb THEN cb + 1 ELSE cb  a3 == IF a2 > R + 1 THEN R + 1 ELSE a2 IN
            <<ApplyOp(op, X, a3), IF op \in Reducing /\ a3 < bd THEN bd - 1 ELSE IF op \in Reducing /\ a3 = bd THEN 1 ELSE bd>>

\* what the caller of the rule does with out_bdim: move it to the requested out axis
Finish(res, ob) == IF res[2] = ob THEN res[1] ELSE MoveAxisT(res[1], res[2], ob)

\* ---- inputs: batched operands of rank 3 with sizes 2 (batch), 2, 3 placed according to bd; values with ties
ShapeFor(bd) == InsertAt(<<2, 3>>, bd, 2)
InputT(bd, s) == Tensor(ShapeFor(bd), LAMBDA ix : ((7 * ix[1] + 3 * ix[2] + 5 * ix[3] + s * ix[1] * ix[3]) % 5) - 2)

\* kind "vmap": the batched cases above.  kind "direct": the operator itself on a rank-3 operand along every
\* axis (C01: the per-example meaning the lowering of each axis operator has to reproduce) -- bd, ob unused (0)
Cases == {[kind |-> "vmap", op |-> op, bd |-> bd, axis |-> axis, ob |-> ob, s |-> s] :
             op \in Ops, bd \in 1..3, axis \in {-2, -1, 0, 1}, ob \in 1..3, s \in {1, 2}}
         \cup {[kind |-> "direct", op |-> op, bd |-> 0, axis |-> axis, ob |-> 0, s |-> s] :
                 op \in Ops, axis \in -3..2, s \in {1, 2}}
OutRank(op) == IF op \in Reducing THEN R ELSE R + 1
Legal(c) == c.kind = "direct" \/ c.ob <= OutRank(c.op)
DirectT(s) == Tensor(<<2, 3, 2>>, LAMBDA ix : ((7 * ix[1] + 3 * ix[2] + 5 * ix[3] + s * ix[1] * ix[3] + 2 * ix[2] * ix[3]) % 5) - 2)
\* nested sequences for emission
Nest(t) == CASE Len(t.sh) = 1 -> [i \in 1..t.sh[1] |-> t.f[<<i>>]]
             [] Len(t.sh) = 2 -> [i \in 1..t.sh[1] |-> [j \in 1..t.sh[2] |-> t.f[<<i, j>>]]]
             [] Len(t.sh) = 3 -> [i \in 1..t.sh[1] |-> [j \in 1..t.sh[2] |-> [m \in 1..t.sh[3] |-> t.f[<<i, j, m>>]]]]
CaseInput(c) == IF c.kind = "direct" THEN DirectT(c.s) ELSE InputT(c.bd, c.s)

VARIABLES case, expect, got, done
vars == <<case, expect, got, done>>
Init == case \in {c \in Cases : Legal(c)} /\ expect = 0 /\ got = 0 /\ done = FALSE
Canon3(axis) == (IF axis < 0 THEN axis + 3 ELSE axis) + 1
Evaluate == /\ ~done
            /\ IF case.kind = "direct"
                 THEN /\ expect' = ApplyOp(case.op, DirectT(case.s), Canon3(case.axis))
                      \* the same operator computed through a layout change: move the axis last, apply, move back
                      /\ got' = LET a == Canon3(case.axis)
                                    moved == ApplyOp(case.op, MoveAxisT(DirectT(case.s), a, 3), 3)
                                IN IF case.op \in Reducing THEN moved ELSE MoveAxisT(moved, 3, a)
                 ELSE LET X == InputT(case.bd, case.s) IN
                      /\ expect' = VmapSpec(case.op, X, case.bd, case.axis, case.ob)
                      /\ got' = Finish(Rule(Variant, case.op, X, case.bd, case.axis), case.ob)
            /\ done' = TRUE /\ UNCHANGED case
Next == Evaluate
Spec == Init /\ [][Next]_vars

RuleSound == done => got = expect
\* the two formulations of the specification agree (negative and non-negative axis address the same dimension)
AxisAlias == (done /\ case.kind = "vmap") => expect = VmapSpec(case.op, InputT(case.bd, case.s), case.bd, IF case.axis < 0 THEN case.axis + R ELSE case.axis - R, case.ob)
=============================================================================
