---------------------------------- MODULE J2O_Annot ----------------------------------
(***************************************************************************)
(* Code -> spec monitor for C08.  Events recorded from REAL exports:        *)
(*   Run   : [tid]                       a new execution (symbol bindings    *)
(*                                       start empty)                        *)
(*   Value : [tid, name, ddt, odt, ddims, odims]                             *)
(*           declared element type / dims of a value (graph output or        *)
(*           intermediate with value_info) and what ORT actually produced;   *)
(*           a declared dim is [k |-> "int", v], [k |-> "sym", s] or         *)
(*           [k |-> "unk"]                                                   *)
(*   Post  : [tid, name, io, bdt, adt, bdims, adims]                         *)
(*           annotation of a value before / after postprocess_ir_model       *)
(* Invariants (the property): a declared element type equals the runtime    *)
(* type; a declared integer dim equals the runtime size; one symbol has one  *)
(* size per run; post-processing leaves graph inputs/outputs untouched and   *)
(* only weakens (never changes) what it says about intermediates.            *)
(***************************************************************************)
EXTENDS Integers, Sequences, FiniteSets, TLC, TLCExt, Json, IOUtils

Events == ndJsonDeserialize(IOEnv.TRACE_FILE)

VARIABLES l, bind, err
vars == <<l, bind, err>>
Init == l = 1 /\ bind = <<>> /\ err = "none"
IsEvent(e) == l <= Len(Events) /\ Events[l].ev = e /\ l' = l + 1

Bound(s) == \E i \in 1..Len(bind) : bind[i][1] = s
SizeOf(s) == bind[CHOOSE i \in 1..Len(bind) : bind[i][1] = s][2]

TraceRun == IsEvent("Run") /\ bind' = <<>> /\ UNCHANGED err

DimOk(d, size) == CASE d.k = "int" -> d.v = size
                    [] d.k = "sym" -> (Bound(d.s) => SizeOf(d.s) = size)
                    [] OTHER -> TRUE
TraceValue ==
    /\ IsEvent("Value")
    /\ LET r == Events[l] IN
       /\ err' = IF err # "none" THEN err
                 ELSE IF r.ddt # r.odt THEN "dtype"
                 ELSE IF r.ddims # <<>> /\ Len(r.ddims) # Len(r.odims) THEN "rank"
                 ELSE IF \E i \in 1..Len(r.ddims) : ~DimOk(r.ddims[i], r.odims[i]) THEN "dim"
                 ELSE "none"
       /\ bind' = bind \o SelectSeq([i \in 1..Len(r.ddims) |-> IF r.ddims[i].k = "sym" /\ ~Bound(r.ddims[i].s) /\ Len(r.ddims) = Len(r.odims)
                                                               THEN <<r.ddims[i].s, r.odims[i]>> ELSE <<"", 0>>],
                                    LAMBDA x : x[1] # "")

Weaker(a, b) == a.k = "unk" \/ a = b          \* after is unknown, or unchanged
TracePost ==
    /\ IsEvent("Post")
    /\ LET r == Events[l] IN
       err' = IF err # "none" THEN err
              ELSE IF r.bdt # r.adt THEN "post_changed_dtype"
              ELSE IF r.io /\ r.bdims # r.adims THEN "post_touched_io"
              ELSE IF Len(r.bdims) = Len(r.adims) /\ \E i \in 1..Len(r.adims) : ~Weaker(r.adims[i], r.bdims[i]) THEN "post_strengthened"
              ELSE "none"
    /\ UNCHANGED bind

Next == TraceRun \/ TraceValue \/ TracePost
Spec == Init /\ [][Next]_vars
AnnotationsSound == err = "none"
PostAccepted == TLCGet("stats").diameter - 1 = Len(Events)
=============================================================================
