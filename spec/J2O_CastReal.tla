------------------------------ MODULE J2O_CastReal ------------------------------
(***************************************************************************)
(* C17, part 2: the decision table of the IMPLEMENTATION, extracted from   *)
(* the working tree for every ordered pair of ONNX element types           *)
(* (constant ImplAccepts, generated into J2O_CastFacts.tla), checked       *)
(* against the validated rule Accepts applied to the real formats below.   *)
(* The format parameters are IEEE-754 / ONNX facts written here            *)
(* independently of the code under test.                                   *)
(*                                                                         *)
(* The cast-pair folding rule of the optimizer is modelled as a two step   *)
(* behaviour: Decide (reads the table) then Fold / Keep.  Invariant        *)
(* FoldOnlyIfSafe: a folded pair is value preserving.                      *)
(***************************************************************************)
EXTENDS J2O_CastRules, J2O_CastFacts, TLC

RealFmt(n) ==
    CASE n = "BOOL" -> BoolFmt
      [] n = "INT2" -> IntFmt(TRUE, 2)    [] n = "UINT2" -> IntFmt(FALSE, 2)
      [] n = "INT4" -> IntFmt(TRUE, 4)    [] n = "UINT4" -> IntFmt(FALSE, 4)
      [] n = "INT8" -> IntFmt(TRUE, 8)    [] n = "UINT8" -> IntFmt(FALSE, 8)
      [] n = "INT16" -> IntFmt(TRUE, 16)  [] n = "UINT16" -> IntFmt(FALSE, 16)
      [] n = "INT32" -> IntFmt(TRUE, 32)  [] n = "UINT32" -> IntFmt(FALSE, 32)
      [] n = "INT64" -> IntFmt(TRUE, 64)  [] n = "UINT64" -> IntFmt(FALSE, 64)
      [] n = "FLOAT16" -> FloatFmt(11, -24, 15, TRUE, TRUE, FALSE)
      [] n = "BFLOAT16" -> FloatFmt(8, -133, 127, TRUE, TRUE, FALSE)
      [] n = "FLOAT" -> FloatFmt(24, -149, 127, TRUE, TRUE, FALSE)
      [] n = "DOUBLE" -> FloatFmt(53, -1074, 1023, TRUE, TRUE, FALSE)
      [] n = "COMPLEX64" -> FloatFmt(24, -149, 127, TRUE, TRUE, TRUE)
      [] n = "COMPLEX128" -> FloatFmt(53, -1074, 1023, TRUE, TRUE, TRUE)
      [] n = "FLOAT8E5M2" -> FloatFmt(3, -16, 15, TRUE, TRUE, FALSE)
      [] n = "FLOAT8E5M2FNUZ" -> FloatFmt(3, -17, 15, FALSE, FALSE, FALSE)
      [] n = "FLOAT8E4M3FNUZ" -> FloatFmt(4, -10, 7, FALSE, FALSE, FALSE)
      \* formats the (p, emin, emax) family does not describe exactly (missing top
      \* mantissa code, no NaN, no zero) and non numeric types: only identity is accepted
      [] OTHER -> OtherFmt(n)

VARIABLES src, mid, decided, folded
vars == <<src, mid, decided, folded>>

Init == /\ src \in TypeNames /\ mid \in TypeNames
        /\ decided = FALSE /\ folded = FALSE

\* remove_redundant_casts: Cast(src->mid) feeding Cast(mid->src) is folded iff the
\* implementation's table says the round trip is value preserving.
Decide == /\ ~decided
          /\ decided' = TRUE
          /\ folded' = (<<src, mid>> \in ImplAccepts)
          /\ UNCHANGED <<src, mid>>

Next == Decide
Spec == Init /\ [][Next]_vars

FoldOnlyIfSafe == folded => Accepts(RealFmt(src), RealFmt(mid))

\* informational (never an alarm): pairs the rule would allow but the implementation keeps
MissedFold == decided /\ ~folded /\ Accepts(RealFmt(src), RealFmt(mid))
=============================================================================
