CONSTANTS
  Kinds <- MCKinds
  FailKinds <- MCFail
  TargetOf <- MCTarget
  MaxHist = 3
  Deviation = "leak_in_build"
SPECIFICATION Spec
INVARIANT HistoryIndependent
CHECK_DEADLOCK FALSE
