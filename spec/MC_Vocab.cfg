SPECIFICATION Spec
INVARIANT VocabSound
INVARIANT ClassSemantics
CHECK_DEADLOCK FALSE
