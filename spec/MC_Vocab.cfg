SPECIFICATION Spec
INVARIANT VocabSound
INVARIANT IntVocabSound
INVARIANT ClassSemantics
CHECK_DEADLOCK FALSE
