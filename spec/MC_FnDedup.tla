---- MODULE MC_FnDedup ----
EXTENDS J2O_FnDedup, Json
EmitDone == (k = Len(sites)) => PrintT(ToJson([tab |-> tab, unique |-> Unique, sites |-> sites, ndefs |-> Len(freg),
                  defs |-> [c \in 1..Len(calls) |-> calls[c].def], sems |-> Cardinality({Sem(sites[i]) : i \in 1..Len(sites)})]))
====
