---------------------------------- MODULE J2O_Index ----------------------------------
(***************************************************************************)
(* Exact semantics of the index-driven primitives on 1-D integer tensors    *)
(* (property C01, and the data-dependent half of C04/C06): what happens at  *)
(* the EDGES of the index domain is part of the function -- JAX clamps the  *)
(* start of dynamic_slice / dynamic_update_slice so that the window fits,   *)
(* wraps negative starts first; take / indexing has three out-of-bounds     *)
(* modes; pad may be negative (cropping); roll takes any shift.             *)
(*   x : the operand, length N = 5, x[i] = 10 + i (all distinct)            *)
(*   index classes: < -N, -N..-1, 0..N-1, >= N                              *)
(* A behaviour picks a case and evaluates it; the harness exports the real  *)
(* primitive ONCE per (primitive, static parameters) with the index as a    *)
(* run-time input and runs every index through ORT: specification = JAX     *)
(* eager = exported model.                                                  *)
(***************************************************************************)
EXTENDS Integers, Sequences, FiniteSets, TLC

N == 5
X == [i \in 1..N |-> 9 + i]                 \* 10, 11, 12, 13, 14
Idx == -7..7
Max2(a, b) == IF a >= b THEN a ELSE b
Min2(a, b) == IF a <= b THEN a ELSE b
Clamp(v, lo, hi) == Max2(lo, Min2(v, hi))
Mod(a, n) == ((a % n) + n) % n

\* lax.dynamic_slice(x, (i,), (k,)): negative start counts from the end, then the start is clamped to [0, N-k]
DsStart(i, k) == Clamp(IF i < 0 THEN i + N ELSE i, 0, N - k)
DynamicSlice(i, k) == [j \in 1..k |-> X[DsStart(i, k) + j]]
\* lax.dynamic_update_slice(x, u, (i,)) with u = <<-1, .., -k>>
DynamicUpdateSlice(i, k) == [j \in 1..N |-> IF j > DsStart(i, k) /\ j <= DsStart(i, k) + k THEN -(j - DsStart(i, k)) ELSE X[j]]
\* jnp.take(x, i, mode=...)
Take(i, mode) == CASE mode = "clip" -> X[Clamp(i, 0, N - 1) + 1]
                   [] mode = "wrap" -> X[Mod(i, N) + 1]
                   [] mode = "fill" -> IF i >= -N /\ i < N THEN X[Mod(i, N) + 1] ELSE -1     \* fill_value = -1; negative in range wraps
\* x[i] with a traced index: default gather mode for integer indexing is clip after normalising negatives
IndexGet(i) == X[Clamp(IF i < 0 THEN i + N ELSE i, 0, N - 1) + 1]
\* jnp.roll(x, s)
Roll(s) == [j \in 1..N |-> X[Mod(j - 1 - s, N) + 1]]
\* lax.pad(x, 0, ((lo, hi, 0),)) with negative amounts cropping
Pad(lo, hi) == LET L == N + lo + hi IN
    IF L <= 0 THEN <<>> ELSE [j \in 1..L |-> LET src == j - lo IN IF src >= 1 /\ src <= N THEN X[src] ELSE 0]
\* lax.slice / x[a:b:s] with Python slicing rules for static a, b (negative allowed), s > 0
NormS(a) == Clamp(IF a < 0 THEN a + N ELSE a, 0, N)
PySlice(a, b, st) == LET lo == NormS(a)  hi == NormS(b)  cnt == IF hi > lo THEN (hi - lo + st - 1) \div st ELSE 0
                     IN [j \in 1..cnt |-> X[lo + (j - 1) * st + 1]]

Cases ==
    {[k |-> "dynamic_slice", i |-> i, n |-> n] : i \in Idx, n \in 1..3}
    \cup {[k |-> "dynamic_update_slice", i |-> i, n |-> n] : i \in Idx, n \in 1..3}
    \cup {[k |-> "take", i |-> i, mode |-> m] : i \in Idx, m \in {"clip", "wrap", "fill"}}
    \cup {[k |-> "index_get", i |-> i] : i \in Idx}
    \cup {[k |-> "roll", s |-> s] : s \in Idx}
    \cup {[k |-> "pad", lo |-> lo, hi |-> hi] : lo \in -2..2, hi \in -2..2}
    \cup {[k |-> "slice", a |-> a, b |-> b, st |-> st] : a \in -6..6, b \in -6..6, st \in 1..2}

Result(c) == CASE c.k = "dynamic_slice" -> DynamicSlice(c.i, c.n)
               [] c.k = "dynamic_update_slice" -> DynamicUpdateSlice(c.i, c.n)
               [] c.k = "take" -> Take(c.i, c.mode)
               [] c.k = "index_get" -> IndexGet(c.i)
               [] c.k = "roll" -> Roll(c.s)
               [] c.k = "pad" -> Pad(c.lo, c.hi)
               [] c.k = "slice" -> PySlice(c.a, c.b, c.st)

VARIABLES case, res, done
vars == <<case, res, done>>
Init == case \in Cases /\ res = 0 /\ done = FALSE
Evaluate == ~done /\ res' = Result(case) /\ done' = TRUE /\ UNCHANGED case
Spec == Init /\ [][Evaluate]_vars

\* laws
WindowFits == (done /\ case.k \in {"dynamic_slice", "dynamic_update_slice"}) => (DsStart(case.i, case.n) >= 0 /\ DsStart(case.i, case.n) + case.n <= N)
UpdateThenSlice == (done /\ case.k = "dynamic_update_slice") =>
    \A j \in 1..case.n : res[DsStart(case.i, case.n) + j] = -j
RollInverse == (done /\ case.k = "roll") => \A j \in 1..N : res[Mod(j - 1 + case.s, N) + 1] = X[j]
TakeInRangeAgree == (done /\ case.k = "take" /\ case.i >= 0 /\ case.i < N) => res = X[case.i + 1]
=============================================================================
