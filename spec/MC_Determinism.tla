---- MODULE MC_Determinism ----
EXTENDS J2O_Determinism, Json
MCKinds == {"ok", "ok_double", "fn_ok", "loop_ok", "nnx_linear", "tchain", "user_raise", "unsupported", "fn_body_fail", "save_fail"}
MCFail == {"user_raise", "unsupported", "fn_body_fail", "save_fail"}
EmitHist == (Len(hist) = MaxHist /\ hist[MaxHist] \notin MCFail /\ hashSeed = 0) => PrintT(ToJson(hist))
====
