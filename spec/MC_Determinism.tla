---- MODULE MC_Determinism ----
EXTENDS J2O_Determinism, Json
MCKinds == {"ok", "ok_double", "fn_ok", "loop_ok", "nnx_linear", "tchain", "user_raise", "unsupported", "fn_body_fail", "save_fail", "fn_flaky_ok", "fn_flaky_fail"}
MCFail == {"user_raise", "unsupported", "fn_body_fail", "save_fail", "fn_flaky_fail"}
MCTarget(r) == CASE r \in {"fn_flaky_ok", "fn_flaky_fail"} -> "flaky" [] r = "fn_ok" -> "inner_ok" [] r = "fn_body_fail" -> "inner_unsupported" [] OTHER -> ""
EmitHist == (Len(hist) = MaxHist /\ hist[MaxHist] \notin MCFail /\ hashSeed = 0) => PrintT(ToJson(hist))
====
