CONSTANTS
  MaxIn = 2
  MaxOut = 2
  NPass = 2
SPECIFICATION Spec
INVARIANT EmitEnd
CHECK_DEADLOCK FALSE
