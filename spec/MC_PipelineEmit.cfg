CONSTANTS
  NinSet <- SmallNin
  NoutSet <- SmallNout
  UnusedSets <- SmallUnused
  ReqFilter <- NoFilter
  NPass = 2
SPECIFICATION Spec
INVARIANT EmitEnd
CHECK_DEADLOCK FALSE
