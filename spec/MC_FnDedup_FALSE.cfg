CONSTANTS
  MaxSites = 2
  Unique = FALSE
SPECIFICATION Spec
INVARIANT DedupSound
INVARIANT CallArity
INVARIANT DistinctWhenDifferent
CHECK_DEADLOCK FALSE
