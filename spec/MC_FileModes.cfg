CONSTANTS
  MaxExports = 3
SPECIFICATION Spec
INVARIANT LoadIsLastExport
INVARIANT WebSelfContained
INVARIANT StaleNeverReferenced
INVARIANT EmitAll
CHECK_DEADLOCK FALSE
