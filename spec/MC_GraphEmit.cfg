CONSTANTS
  Tier = "quick"
SPECIFICATION Spec
CONSTRAINT Stop
CHECK_DEADLOCK FALSE
