SPECIFICATION Spec
INVARIANT WellScoped
POSTCONDITION PostAccepted
CHECK_DEADLOCK FALSE
