CONSTANTS
  S = {0, 1}
  Kinds = {"fori"}
  MaxSteps = 4
  CondOnNewState = TRUE
  ScanRev = {FALSE, TRUE}
  ScanHx = {TRUE, FALSE}
SPECIFICATION Spec
INVARIANT Agree
INVARIANT FinalAgree
CHECK_DEADLOCK FALSE
