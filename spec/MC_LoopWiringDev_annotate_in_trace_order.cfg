SPECIFICATION Spec
CONSTANT Dev = "annotate_in_trace_order"
INVARIANT AnnotationsMatchRuntime
INVARIANT ArityMatches
INVARIANT ValuesLast
CHECK_DEADLOCK FALSE
