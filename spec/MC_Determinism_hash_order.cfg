CONSTANTS
  Kinds <- MCKinds
  FailKinds <- MCFail
  MaxHist = 3
  Deviation = "hash_order"
SPECIFICATION Spec
INVARIANT HistoryIndependent
CHECK_DEADLOCK FALSE
