SPECIFICATION Spec
INVARIANT MachineIsFunctional
INVARIANT OrigAlwaysAccepts
INVARIANT EmitDone
CHECK_DEADLOCK FALSE
