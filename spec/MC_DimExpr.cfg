SPECIFICATION Spec
INVARIANT LoweredEqualsMath
CHECK_DEADLOCK FALSE
