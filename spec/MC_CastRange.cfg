SPECIFICATION Spec
INVARIANT FitsSound
INVARIANT BoundsSound
CHECK_DEADLOCK FALSE
