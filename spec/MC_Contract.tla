---- MODULE MC_Contract ----
EXTENDS J2O_Contract
====
