CONSTANTS
  Tier = "quick"
SPECIFICATION Spec
INVARIANT OutputsPreserved
INVARIANT InitialGraphValid
INVARIANT WellFormed
CHECK_DEADLOCK FALSE
