CONSTANTS
  MaxSites = 2
  Unique = TRUE
SPECIFICATION Spec
INVARIANT DedupSound
INVARIANT CallArity
INVARIANT DistinctWhenDifferent
INVARIANT EmitDone
CHECK_DEADLOCK FALSE
