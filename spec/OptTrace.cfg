SPECIFICATION Spec
INVARIANT EveryPrefixEquivalent
POSTCONDITION PostAccepted
CHECK_DEADLOCK FALSE
