---- MODULE MC_BroadcastBatch ----
EXTENDS J2O_BroadcastBatch, Json
EmitDone == done => PrintT(ToJson(case))
====
