CONSTANTS
  Tier = "thorough"
SPECIFICATION Spec
CONSTRAINT Stop
CHECK_DEADLOCK FALSE
