CONSTANTS
  MaxBits = 3
  MaxPrec = 3
  EMinMag = 2
  EMaxHi = 2
SPECIFICATION Spec
INVARIANT RoundTripSafe
INVARIANT ForwardExact
INVARIANT LemmaExact
CHECK_DEADLOCK FALSE
