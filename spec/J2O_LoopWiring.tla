---------------------------------- MODULE J2O_LoopWiring ----------------------------------
(***************************************************************************************)
(* Wiring of a lowered lax.while_loop (plugins/jax/lax/while_loop.py).  Tensors the      *)
(* body or the cond closes over cannot be captured by the ONNX Loop body here: they are  *)
(* carried THROUGH the Loop as extra loop-carried values.  The Loop node's operands are  *)
(*     M, cond, body-consts ..., cond-consts ..., carried values ...                      *)
(* and its results come back in the same order (after an optional extra result when the  *)
(* condition is batched).  Every result is annotated by the lowering; property C08 says  *)
(* the annotation of result k must be what the runtime produces there, which for a Loop   *)
(* is the type of operand k + 2.  Types are abstract ids: every closed-over tensor and    *)
(* every carried value has a shape of its own.                                            *)
(***************************************************************************************)
EXTENDS Integers, Sequences, FiniteSets, TLC, Json

CONSTANT Dev     \* "none" | "annotate_in_trace_order" | "values_first"

Cases == [nb : 0..2, nc : 0..2, nv : 1..2, batched : BOOLEAN]

BodyT(i) == 10 + i
CondT(i) == 20 + i
ValT(i) == 30 + i
Seq1(n, F(_)) == [i \in 1..n |-> F(i)]

\* jaxpr order of the primitive's operands: cond consts, body consts, values
TraceOrder(c) == Seq1(c.nc, CondT) \o Seq1(c.nb, BodyT) \o Seq1(c.nv, ValT)
\* operands of the Loop node after M and cond
LoopOperands(c) == Seq1(c.nb, BodyT) \o Seq1(c.nc, CondT) \o Seq1(c.nv, ValT)
\* what the runtime produces: result k has the type of operand k (Loop semantics); a batched condition adds one leading result
Runtime(c) == (IF c.batched THEN <<1>> ELSE <<>>) \o LoopOperands(c)
\* what the lowering writes on the results
Annotated(c) == (IF c.batched THEN <<1>> ELSE <<>>) \o
    (CASE Dev = "annotate_in_trace_order" -> TraceOrder(c)
       [] Dev = "values_first" -> Seq1(c.nv, ValT) \o Seq1(c.nb, BodyT) \o Seq1(c.nc, CondT)
       [] OTHER -> LoopOperands(c))

VARIABLE case
Init == case \in Cases
Next == UNCHANGED case
Spec == Init /\ [][Next]_case

AnnotationsMatchRuntime == Annotated(case) = Runtime(case)
ArityMatches == Len(Annotated(case)) = Len(Runtime(case))
\* the carried values come last, in order: that is where the primitive's results are read from
ValuesLast == SubSeq(Runtime(case), Len(Runtime(case)) - case.nv + 1, Len(Runtime(case))) = Seq1(case.nv, ValT)
Emit == PrintT(ToJson([c |-> case, runtime |-> Runtime(case)]))
=============================================================================
