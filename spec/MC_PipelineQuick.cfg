CONSTANTS
  MaxIn = 2
  MaxOut = 2
  NPass = 2
SPECIFICATION Spec
INVARIANT PositionalStable
INVARIANT OutputsPerLeaf
INVARIANT NamesApplied
INVARIANT RejectIffBad
INVARIANT ReturnedIsSound
INVARIANT AbortPolicy
CHECK_DEADLOCK FALSE
