CONSTANTS
  MaxSites = 3
  Unique = TRUE
  Kws = {"none", "s1", "s2", "traced", "param"}
  Scopes = {"top"}
SPECIFICATION Spec
INVARIANT DedupSound
INVARIANT CallArity
INVARIANT CallBinding
INVARIANT NamesUnique
INVARIANT ResolvedSound
INVARIANT DistinctWhenDifferent
CHECK_DEADLOCK FALSE
