CONSTANTS
  MaxSites = 3
  Unique = TRUE
SPECIFICATION Spec
INVARIANT DedupSound
INVARIANT CallArity
INVARIANT DistinctWhenDifferent
CHECK_DEADLOCK FALSE
