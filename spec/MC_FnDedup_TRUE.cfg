CONSTANTS
  MaxSites = 2
  Unique = TRUE
SPECIFICATION Spec
INVARIANT DedupSound
INVARIANT CallArity
INVARIANT DistinctWhenDifferent
CHECK_DEADLOCK FALSE
