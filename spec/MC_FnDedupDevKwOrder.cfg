CONSTANTS
  MaxSites = 2
  Unique = FALSE
  Kws = {"none", "ab", "ba"}
  Scopes = {"top"}
SPECIFICATION DevSpecKwOrder
INVARIANT CallBinding
CHECK_DEADLOCK FALSE
