SPECIFICATION Spec
INVARIANT QuiescentObserved
INVARIANT PristineAtBegin
POSTCONDITION PostAccepted
CHECK_DEADLOCK FALSE
