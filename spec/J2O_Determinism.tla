------------------------------- MODULE J2O_Determinism -------------------------------
(***************************************************************************)
(* Export determinism and history independence (property C14).              *)
(* Process-wide state that survives a conversion:                           *)
(*   registry   : plugins / decorated functions registered so far (grows)   *)
(*   sigCache   : lower-signature cache, instance map, trace caches          *)
(*                (membership only; looked up by key)                        *)
(* Per-conversion state, created fresh by every to_onnx call:                *)
(*   nameCtr    : fresh-name counters of the IRContext / builder            *)
(*   fnCtr      : function-name counters, function registry                  *)
(* A conversion of request r emits the model M(r, nameCtr at start, fnCtr    *)
(* at start, iteration order).  The code iterates lists (insertion order),   *)
(* never hash order, so `order' is a function of r alone.                    *)
(* HistoryIndependent: the emitted model of r is the same whatever was        *)
(* converted (or failed) before.  The deviation actions keep a counter in    *)
(* process state or iterate a set in hash order; they must violate it.        *)
(***************************************************************************)
EXTENDS Integers, Sequences, FiniteSets, TLC

CONSTANTS Kinds,        \* request kinds
          FailKinds,    \* subset of Kinds that raise part-way through
          MaxHist,
          Deviation,    \* "none" | "global_counter" | "hash_order" | "leak_in_build"
          TargetOf(_)   \* the @onnx_function target a request calls ("" if none): requests may share one

VARIABLES hist, registry, sigCache, globalCtr, hashSeed, emitted,
          inBuild       \* targets marked "body being traced" (_IN_FUNCTION_BUILD); a conversion-scoped context variable:
                        \* set while a function body is traced, reset on EVERY exit -- a marked target is inlined, not called
vars == <<hist, registry, sigCache, globalCtr, hashSeed, emitted, inBuild>>

Init == /\ hist = <<>> /\ registry = {} /\ sigCache = {} /\ globalCtr = 0
        /\ hashSeed \in {0, 1}
        /\ emitted = <<>> /\ inBuild = {}

\* the model a conversion emits, as the tuple of everything it depends on
Model(r, startCtr, order) == <<r, startCtr, order, "call">>
ModelInlined(r, startCtr, order) == <<r, startCtr, order, "inlined">>

Convert(r) ==
    /\ Len(hist) < MaxHist
    /\ hist' = Append(hist, r)
    /\ registry' = registry \cup {r}
    /\ sigCache' = sigCache \cup {r}
    /\ LET start == IF Deviation = "global_counter" THEN globalCtr ELSE 0      \* per-conversion counters start at 0
           order == IF Deviation = "hash_order" THEN hashSeed ELSE 0
           mdl == IF TargetOf(r) # "" /\ TargetOf(r) \in inBuild THEN ModelInlined(r, start, order) ELSE Model(r, start, order)
       IN emitted' = IF r \in FailKinds THEN emitted ELSE Append(emitted, [req |-> r, model |-> mdl])
    /\ globalCtr' = globalCtr + 1      \* names handed out during the conversion (even a failing one)
    \* the mark is removed in a finally block; the deviation forgets it when the body trace raises
    /\ inBuild' = IF Deviation = "leak_in_build" /\ r \in FailKinds /\ TargetOf(r) # "" THEN inBuild \cup {TargetOf(r)} ELSE inBuild
    /\ UNCHANGED hashSeed

Next == \E r \in Kinds : Convert(r)
Spec == Init /\ [][Next]_vars

\* what a fresh process with hash seed 0 emits
Reference(r) == Model(r, 0, 0)
HistoryIndependent == \A i \in 1..Len(emitted) : emitted[i].model = Reference(emitted[i].req)
=============================================================================
