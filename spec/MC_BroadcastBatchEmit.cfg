SPECIFICATION Spec
CONSTANT Variant = "leftpad"
INVARIANT RuleSound
INVARIANT EmitDone
CHECK_DEADLOCK FALSE
