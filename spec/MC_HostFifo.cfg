CONSTANTS
  Slots <- MCSlots
  Missing <- MCMissing
  LeafSpecs <- MCLeafSpecs
  FnSlots <- MCFnSlots
  MaxDepth = 2
  MaxConv = 2
  LifoRestore = FALSE
  MaxBuilds = 1
  Inherit <- MCInherit
  SaveResolved = FALSE
SPECIFICATION Spec
VIEW view
INVARIANT Quiescent
INVARIANT ResolvesAsBefore
INVARIANT NoLeakOutsideWorlds
INVARIANT ActiveInBody
INVARIANT RefCounts
INVARIANT FlagInBody
PROPERTY FramesRestored
CHECK_DEADLOCK FALSE
