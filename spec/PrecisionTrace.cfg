SPECIFICATION Spec
INVARIANT SingleHasNoDouble
INVARIANT DoubleHasNoFloatDetour
INVARIANT FlagRestored
POSTCONDITION PostAccepted
CHECK_DEADLOCK FALSE
