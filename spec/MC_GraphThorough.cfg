CONSTANTS
  Tier = "thorough"
SPECIFICATION Spec
INVARIANT OutputsPreserved
INVARIANT InitialGraphValid
INVARIANT WellFormed
CHECK_DEADLOCK FALSE
