SPECIFICATION Spec
CONSTANT Dev = "no_postcheck"
INVARIANT TypeOK
INVARIANT ContractSound
INVARIANT NoSpuriousRaise
CHECK_DEADLOCK FALSE
