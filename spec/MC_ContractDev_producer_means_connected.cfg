SPECIFICATION Spec
CONSTANT Dev = "producer_means_connected"
INVARIANT TypeOK
INVARIANT ContractSound
INVARIANT NoSpuriousRaise
CHECK_DEADLOCK FALSE
