SPECIFICATION Spec
CONSTANT Dev = "digitize_strict"
INVARIANT FusionSound
INVARIANT DigitizeLaws
CHECK_DEADLOCK FALSE
