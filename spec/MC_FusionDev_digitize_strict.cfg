SPECIFICATION Spec
CONSTANT Dev = "digitize_strict"
INVARIANT FusionSound
INVARIANT LpNormSound
INVARIANT MeanSound
INVARIANT NormLaws
INVARIANT DigitizeLaws
CHECK_DEADLOCK FALSE
