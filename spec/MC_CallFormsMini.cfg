SPECIFICATION Spec
INVARIANT MachineIsFunctional
INVARIANT OrigAlwaysAccepts
CHECK_DEADLOCK FALSE
