CONSTANTS
  NOut = 1
  CompareMode = "common"
SPECIFICATION Spec
INVARIANT VerdictSound
INVARIANT VerdictComplete
INVARIANT EmitDone
CHECK_DEADLOCK FALSE
