CONSTANTS
  NOut = 2
  CompareMode = "common"
SPECIFICATION Spec
INVARIANT VerdictSound
INVARIANT VerdictComplete
CHECK_DEADLOCK FALSE
