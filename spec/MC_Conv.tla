---- MODULE MC_Conv ----
EXTENDS J2O_Conv
====
