CONSTANTS
  MaxSites = 3
  Unique = FALSE
  Kws = {"none", "s1", "s2", "traced", "param"}
  Scopes = {"top"}
SPECIFICATION Spec
INVARIANT DedupSound
INVARIANT CallArity
INVARIANT CallBinding
INVARIANT NamesUnique
INVARIANT ResolvedSound
INVARIANT DistinctWhenDifferent
CHECK_DEADLOCK FALSE
