CONSTANTS
  NOut = 2
  CompareMode = "common"
SPECIFICATION Spec
INVARIANT VerdictSound
INVARIANT VerdictComplete
INVARIANT EmitDone
CHECK_DEADLOCK FALSE
