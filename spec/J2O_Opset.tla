---------------------------------- MODULE J2O_Opset ----------------------------------
(***************************************************************************)
(* Code -> spec monitor for C11.  Facts (J2O_OpsetFacts, generated from the *)
(* installed onnx.defs for the operators that occur): for every operator    *)
(* the list of its versions with the attribute names and input arity each    *)
(* version admits.  Events from REAL exports, one per node (recursively,     *)
(* bodies and functions included):                                           *)
(*   [tid, op, declared, attrs, nin]                                         *)
(* A node is well formed at the declared opset iff some version v <= declared *)
(* of the operator exists, and the newest such version admits the attributes  *)
(* and the number of inputs used.  "Nothing newer than the declared opset".  *)
(***************************************************************************)
EXTENDS Integers, Sequences, FiniteSets, TLC, TLCExt, Json, IOUtils, J2O_OpsetFacts

Events == ndJsonDeserialize(IOEnv.TRACE_FILE)
VARIABLES l, err
vars == <<l, err>>
Init == l = 1 /\ err = "none"

Versions(op) == IF op \in DOMAIN Schema THEN Schema[op] ELSE <<>>
Eligible(op, d) == {i \in 1..Len(Versions(op)) : Versions(op)[i].v <= d}
Resolved(op, d) == Versions(op)[CHOOSE i \in Eligible(op, d) : \A j \in Eligible(op, d) : Versions(op)[j].v <= Versions(op)[i].v]

Verdict(r) ==
    IF r.op \notin DOMAIN Schema THEN "unknown_operator"
    ELSE IF Eligible(r.op, r.declared) = {} THEN "operator_newer_than_declared_opset"
    ELSE LET s == Resolved(r.op, r.declared) IN
         IF ~({r.attrs[i] : i \in 1..Len(r.attrs)} \subseteq s.attrs) THEN "attribute_not_in_declared_opset"
         ELSE IF r.nin > s.maxin THEN "too_many_inputs_for_declared_opset"
         ELSE IF r.nin < s.minin THEN "too_few_inputs"
         ELSE "none"

Consume == /\ l <= Len(Events)
           /\ err' = IF err # "none" THEN err ELSE Verdict(Events[l])
           /\ l' = l + 1
Next == Consume
Spec == Init /\ [][Next]_vars
OpsetHonoured == err = "none"
PostAccepted == TLCGet("stats").diameter - 1 = Len(Events)
=============================================================================
