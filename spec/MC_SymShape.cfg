SPECIFICATION Spec
CONSTANT Dev = "none"
INVARIANT ElementsPreserved
INVARIANT RankIndependentOfBinding
INVARIANT TileLaw
INVARIANT GrowLaw
INVARIANT AxisSpellings
INVARIANT AllPositive
INVARIANT SlicePartition
CHECK_DEADLOCK FALSE
