CONSTANTS
  MaxSites = 2
  Unique = TRUE
  Kws = {"none", "s1"}
  Scopes = {"top", "body"}
SPECIFICATION DevSpecPerTarget
INVARIANT ResolvedSound
CHECK_DEADLOCK FALSE
