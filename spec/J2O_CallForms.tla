--------------------------------- MODULE J2O_CallForms ---------------------------------
(***************************************************************************)
(* Property C19: a library call keeps its call signature while traced.       *)
(*                                                                           *)
(* While a callable is traced, ~300 attributes of jax / flax / equinox        *)
(* modules and classes hold SUBSTITUTES.  A call written against the          *)
(* original's signature reaches the substitute, whose own parameter list      *)
(* decides how the arguments are bound.  This module is Python's argument     *)
(* binding algorithm (positional-only, positional-or-keyword, *args,          *)
(* keyword-only, **kwargs, defaults) as a step machine, run on the ORIGINAL   *)
(* signature and on the SUBSTITUTE's signature of one slot for one call form: *)
(*                                                                           *)
(*   Start -> BindPositional* -> BindKeyword* -> FillDefaults -> (next side)  *)
(*                                                                           *)
(* A call form is [np |-> number of positional arguments,                     *)
(*                 kw |-> set of keyword names].                             *)
(* Signatures are FACTS extracted from the working tree at run time           *)
(* (inspect.signature of the original and of the callable that the real       *)
(* plugin worlds install); J2O_CallFormsFacts is generated.                  *)
(*                                                                           *)
(* Invariants                                                                *)
(*   MachineIsFunctional : the step machine's verdict and routing equal the   *)
(*        closed-form definitions Fail / Dest for every order in which the    *)
(*        keyword arguments are processed (binding is confluent)              *)
(*   SubAcceptsOrigForms : a form the original binds is bound by the          *)
(*        substitute, unless <<slot, reason>> is Listed (known findings)      *)
(*   SameParameter       : an argument that the original routes to parameter  *)
(*        p is routed by the substitute to a parameter of the same name       *)
(*        or into its *args / **kwargs (opaque forwarding, judged by          *)
(*        execution), never to a differently named parameter                  *)
(* The accepted forms and the Python verdicts are emitted (MC_ module) and    *)
(* replayed: inspect.Signature.bind must agree with Fail on every form, and   *)
(* every emitted form is executed on the real substitute.                    *)
(***************************************************************************)
EXTENDS Integers, Sequences, FiniteSets, TLC, J2O_CallFormsFacts

\* Facts: Slots == << [id |-> "jax.numpy.sort", orig |-> <<param..>>, sub |-> <<param..>>] .. >>
\*        param == [n |-> "axis", k |-> "po"|"pk"|"vp"|"ko"|"vk", d |-> BOOLEAN]
\*        Listed == set of <<slot id, reason>>; MaxOpt, KwAnyOrder constants of the run

Min(a, b) == IF a < b THEN a ELSE b
Idx(sig) == 1..Len(sig)
PosIdx(sig) == {i \in Idx(sig) : sig[i].k \in {"po", "pk"}}
NPos(sig) == Cardinality(PosIdx(sig))
\* the j-th positional-capable parameter (signature order)
PosParam(sig, j) == sig[CHOOSE i \in PosIdx(sig) : Cardinality({m \in PosIdx(sig) : m <= i}) = j]
HasVP(sig) == \E i \in Idx(sig) : sig[i].k = "vp"
HasVK(sig) == \E i \in Idx(sig) : sig[i].k = "vk"
KwNames(sig) == {sig[i].n : i \in {j \in Idx(sig) : sig[j].k \in {"pk", "ko"}}}
Named(sig) == {i \in Idx(sig) : sig[i].k \in {"po", "pk", "ko"}}
PosAssigned(sig, np) == {PosParam(sig, j).n : j \in 1..Min(np, NPos(sig))}

(* ---- closed form ---- *)
Fail(sig, f) ==
    IF f.np > NPos(sig) /\ ~HasVP(sig) THEN "too_many_positional"
    ELSE IF \E k \in f.kw : k \in PosAssigned(sig, f.np) /\ k \in KwNames(sig) THEN "multiple_values"
    ELSE IF \E k \in f.kw : k \notin KwNames(sig) /\ ~HasVK(sig) THEN "unexpected_keyword"
    ELSE IF \E i \in Named(sig) : ~sig[i].d /\ sig[i].n \notin (PosAssigned(sig, f.np) \cup (f.kw \cap KwNames(sig))) THEN "missing_argument"
    ELSE "ok"
Accepts(sig, f) == Fail(sig, f) = "ok"

\* where an argument ends up: a parameter name, or "*" (var-positional), "**" (var-keyword)
DestPos(sig, j) == IF j <= NPos(sig) THEN PosParam(sig, j).n ELSE "*"
DestKw(sig, k) == IF k \in KwNames(sig) THEN k ELSE "**"
Dest(sig, f) == [src \in ({<<"pos", j>> : j \in 1..f.np} \cup {<<"kw", k>> : k \in f.kw}) |->
                    IF src[1] = "pos" THEN DestPos(sig, src[2]) ELSE DestKw(sig, src[2])]

(* ---- the forms of one signature (bounded: at most MaxOpt optional keywords, or all of them) ---- *)
OptKw(sig) == {sig[i].n : i \in {j \in Idx(sig) : sig[j].k \in {"pk", "ko"} /\ sig[j].d}}
ReqKw(sig) == {sig[i].n : i \in {j \in Idx(sig) : sig[j].k \in {"pk", "ko"} /\ ~sig[j].d}}
MaxNp(sig) == NPos(sig) + (IF HasVP(sig) THEN 2 ELSE 0)
\* subsets of S with at most n elements, built without enumerating SUBSET S (signatures have up to ~25 keywords)
RECURSIVE UpTo(_, _)
UpTo(S, n) == IF n = 0 THEN {{}} ELSE LET P == UpTo(S, n - 1) IN P \cup {T \cup {x} : T \in P, x \in S}
KwChoices(sig, np) ==
    LET avail == (KwNames(sig) \ PosAssigned(sig, np)) \cup (IF HasVK(sig) THEN {"zz_extra"} ELSE {})
        req == ReqKw(sig) \cap avail
        opt == avail \ req
    IN  {req \cup T : T \in UpTo(opt, MaxOpt)} \cup {req \cup (opt \ {"zz_extra"})}
Forms(sig) == {f \in UNION {{[np |-> n, kw |-> K] : K \in KwChoices(sig, n)} : n \in 0..MaxNp(sig)} : Accepts(sig, f)}

(* ---- step machine ---- *)
VARIABLES slot, form, side, pc, j, kwLeft, assigned, route, verdict, res
vars == <<slot, form, side, pc, j, kwLeft, assigned, route, verdict, res>>

SigOf(s, sd) == IF sd = "o" THEN Slots[s].orig ELSE Slots[s].sub
Cur == SigOf(slot, side)

Init == /\ slot \in 1..Len(Slots)
        /\ form \in Forms(Slots[slot].orig)
        /\ side = "o" /\ pc = "pos" /\ j = 1 /\ kwLeft = form.kw
        /\ assigned = {} /\ route = <<>> /\ verdict = "running" /\ res = <<>>

Finish(v) == /\ verdict' = v /\ pc' = "done"
             /\ UNCHANGED <<slot, form, side, j, kwLeft, assigned, route, res>>

BindPositional ==
    /\ pc = "pos" /\ j <= form.np
    /\ IF j <= NPos(Cur)
       THEN /\ assigned' = assigned \cup {PosParam(Cur, j).n}
            /\ route' = route @@ (<<"pos", j>> :> PosParam(Cur, j).n)
            /\ j' = j + 1 /\ UNCHANGED <<pc, verdict>>
       ELSE IF HasVP(Cur)
       THEN /\ route' = route @@ (<<"pos", j>> :> "*")
            /\ j' = j + 1 /\ UNCHANGED <<assigned, pc, verdict>>
       ELSE /\ verdict' = "too_many_positional" /\ pc' = "done" /\ UNCHANGED <<assigned, route, j>>
    /\ UNCHANGED <<slot, form, side, kwLeft, res>>

PositionalDone == /\ pc = "pos" /\ j > form.np /\ pc' = "kw"
                  /\ UNCHANGED <<slot, form, side, j, kwLeft, assigned, route, verdict, res>>

\* the order is irrelevant for the result (MachineIsFunctional is checked with KwAnyOrder = TRUE on the
\* miniature family); with KwAnyOrder = FALSE one representative order keeps the facts run linear
PickKw == IF KwAnyOrder THEN kwLeft ELSE {CHOOSE k \in kwLeft : TRUE}
BindKeyword ==
    /\ pc = "kw" /\ kwLeft # {}
    /\ \E k \in PickKw :
         /\ kwLeft' = kwLeft \ {k}
         /\ IF k \in KwNames(Cur)
            THEN IF k \in assigned
                 THEN /\ verdict' = "multiple_values" /\ pc' = "done" /\ UNCHANGED <<assigned, route>>
                 ELSE /\ assigned' = assigned \cup {k} /\ route' = route @@ (<<"kw", k>> :> k)
                      /\ UNCHANGED <<pc, verdict>>
            ELSE IF HasVK(Cur)
                 THEN /\ route' = route @@ (<<"kw", k>> :> "**") /\ UNCHANGED <<assigned, pc, verdict>>
                 ELSE /\ verdict' = "unexpected_keyword" /\ pc' = "done" /\ UNCHANGED <<assigned, route>>
    /\ UNCHANGED <<slot, form, side, j, res>>

FillDefaults ==
    /\ pc = "kw" /\ kwLeft = {}
    /\ IF \E i \in Named(Cur) : ~Cur[i].d /\ Cur[i].n \notin assigned
       THEN verdict' = "missing_argument"
       ELSE verdict' = "ok"
    /\ pc' = "done"
    /\ UNCHANGED <<slot, form, side, j, kwLeft, assigned, route, res>>

\* the original has been bound: record, then bind the same call on the substitute's signature
NextSide ==
    /\ pc = "done" /\ side = "o"
    /\ res' = [o |-> [v |-> verdict, r |-> route]]
    /\ side' = "s" /\ pc' = "pos" /\ j' = 1 /\ kwLeft' = form.kw /\ assigned' = {} /\ route' = <<>> /\ verdict' = "running"
    /\ UNCHANGED <<slot, form>>

Next == BindPositional \/ PositionalDone \/ BindKeyword \/ FillDefaults \/ NextSide
Spec == Init /\ [][Next]_vars

(* ---- properties ---- *)
Done == pc = "done"
\* a failing machine stops early, so its route is a restriction of the closed form
MachineIsFunctional ==
    Done => /\ (verdict = "ok") = Accepts(Cur, form)
            /\ verdict = "ok" => route = Dest(Cur, form)
            /\ \A src \in DOMAIN route : route[src] = Dest(Cur, form)[src]

OrigAlwaysAccepts == (Done /\ side = "o") => verdict = "ok"     \* Forms() only holds accepted forms

SubAcceptsOrigForms ==
    (Done /\ side = "s") => (verdict = "ok" \/ <<Slots[slot].id, verdict>> \in Listed)

\* positional argument j denotes the original's parameter p; if the substitute has a keyword-capable
\* parameter called p, then position j must be that parameter (else f(x, 0) and f(x, axis=0) diverge)
SameParameter ==
    (Done /\ side = "s" /\ verdict = "ok") =>
        \A src \in DOMAIN route :
            \/ src[1] = "kw"
            \/ route[src] = "*"
            \/ res.o.r[src] = "*"
            \/ res.o.r[src] \notin KwNames(Slots[slot].orig)
            \/ res.o.r[src] \notin KwNames(Slots[slot].sub)
            \/ route[src] = res.o.r[src]
            \/ <<Slots[slot].id, "renamed_parameter">> \in Listed
=============================================================================
