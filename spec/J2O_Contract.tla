---- MODULE J2O_Contract ----
(***************************************************************************************************)
(* The LOWERING CONTRACT of one equation (jax2onnx/converter/lowering_dispatch.py ::              *)
(* lower_equation_with_plugin, output_binding.py :: bind_returned_lowering_values /                *)
(* assert_eqn_outputs_bound).                                                                      *)
(*                                                                                                 *)
(* A plugin's lower() may bind each result variable itself, return values to be bound for it, or   *)
(* both.  What it binds can be                                                                     *)
(*   "connected"  the output of a node it handed to the builder,                                   *)
(*   "dangling"   the output of a node it built but never added to the graph,                      *)
(*   "orphan"     a fresh value nothing produces,                                                  *)
(*   "none"       nothing at all.                                                                  *)
(* The converter accepts the equation only if every result that is not dropped ends up on a value  *)
(* that is part of the graph; anything else raises (C16: a contract violation never yields a model *)
(* that omits that part).  One action per step of the code.                                        *)
(***************************************************************************************************)
EXTENDS Naturals, FiniteSets, TLC, Json

CONSTANT Dev       \* "none" | "producer_means_connected" | "no_postcheck" | "count_only"

Kinds == {"none", "connected", "dangling", "orphan"}
Rets == {"none", "all_connected", "unbound_connected", "all_dangling", "too_many", "not_values"}

Lowerings == {l \in [n : 1..2, drop : SUBSET (1..2), bind : [1..2 -> Kinds], ret : Rets] :
                 /\ l.drop \subseteq 1..l.n /\ l.drop # 1..l.n
                 /\ (l.n = 1 => l.bind[2] = "none")}

VARIABLES low, bound, stage, result
vars == <<low, bound, stage, result>>

NonDrop == {i \in 1..low.n : i \notin low.drop}
\* ground truth vs what the code's connectivity test says
Really(k) == k = "connected"
Connected(k) == IF Dev = "producer_means_connected" THEN k \in {"connected", "dangling"} ELSE k = "connected"
Needs(b, i) == b[i] = "none" \/ ~Connected(b[i])
Unbound(b) == {i \in NonDrop : Needs(b, i)}

RetCount == CASE low.ret = "all_connected" -> Cardinality(NonDrop)
              [] low.ret = "all_dangling" -> Cardinality(NonDrop)
              [] low.ret = "unbound_connected" -> Cardinality(Unbound(bound))
              [] low.ret = "too_many" -> Cardinality(NonDrop) + 1
              [] OTHER -> 0
RetKind == IF low.ret = "all_dangling" THEN "dangling" ELSE "connected"

Init == /\ low \in Lowerings
        /\ bound = [i \in 1..2 |-> IF i \in (1..low.n) \ low.drop THEN low.bind[i] ELSE "none"]
        /\ stage = "lowered" /\ result = "pending"

Raise == stage' = "done" /\ result' = "raised"

\* bind_returned_lowering_values
BindReturned ==
    /\ stage = "lowered"
    /\ IF Unbound(bound) = {} \/ low.ret = "none"
         THEN stage' = "assert" /\ UNCHANGED <<low, bound, result>>
       ELSE IF low.ret = "not_values"
         THEN Raise /\ UNCHANGED <<low, bound>>
       ELSE IF RetCount = Cardinality(NonDrop) \/ RetCount = Cardinality(Unbound(bound))
         THEN /\ bound' = [i \in 1..2 |-> IF i \in Unbound(bound) THEN RetKind ELSE bound[i]]
              /\ stage' = "assert" /\ UNCHANGED <<low, result>>
       ELSE Raise /\ UNCHANGED <<low, bound>>

\* assert_eqn_outputs_bound
AssertBound ==
    /\ stage = "assert"
    /\ stage' = "done"
    /\ result' = IF Dev = "no_postcheck" THEN "accepted"
                 ELSE IF Dev = "count_only" THEN (IF \E i \in NonDrop : bound[i] = "none" THEN "raised" ELSE "accepted")
                 ELSE IF \E i \in NonDrop : Needs(bound, i) THEN "raised" ELSE "accepted"
    /\ UNCHANGED <<low, bound>>

Next == BindReturned \/ AssertBound \/ (stage = "done" /\ UNCHANGED vars)
Spec == Init /\ [][Next]_vars

TypeOK == stage \in {"lowered", "assert", "done"} /\ result \in {"pending", "accepted", "raised"}
\* an accepted equation has every live result on a value that IS in the graph
ContractSound == result = "accepted" => \A i \in NonDrop : Really(bound[i])
\* and nothing that ends up sound is refused, except a return value of the wrong type / count
NoSpuriousRaise == result = "raised" =>
    \/ \E i \in NonDrop : ~Really(bound[i])
    \/ low.ret \in {"not_values", "too_many"}

Emit == stage = "done" =>
          PrintT(ToJson([c |-> [n |-> low.n, drop |-> low.drop, bind |-> low.bind, ret |-> low.ret], result |-> result]))
====
