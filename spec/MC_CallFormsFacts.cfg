SPECIFICATION Spec
INVARIANT MachineIsFunctional
INVARIANT OrigAlwaysAccepts
INVARIANT SubAcceptsOrigForms
INVARIANT SameParameter
INVARIANT EmitDone
CHECK_DEADLOCK FALSE
