SPECIFICATION Spec
INVARIANT RestoredOnEveryPath
INVARIANT StylesKnown
CHECK_DEADLOCK FALSE
