--------------------------- MODULE J2O_ControlFlowTrace ---------------------------
(***************************************************************************)
(* Code -> spec: per-iteration traces of the EXPORTED model's Loop node     *)
(* (recorded by a tracing Loop kernel of the ONNX reference evaluator) are  *)
(* validated against the JAX-side machine of J2O_ControlFlow for the same   *)
(* table-driven program.  ndjson events:                                    *)
(*   Prog : [tid, tb, tc, s0]          the program (tables) of this run     *)
(*   Iter : [tid, it, cond_in, s_in, s_out, cond_out]  one body execution   *)
(*   Done : [tid, s, n]                final carried values of the model    *)
(* Each Iter must be exactly the step the JAX machine takes next, and Done  *)
(* must come exactly when the JAX machine halts.                            *)
(***************************************************************************)
EXTENDS Integers, Sequences, TLC, TLCExt, Json, IOUtils

Events == ndJsonDeserialize(IOEnv.TRACE_FILE)

VARIABLES l, tid, tb, tc, js, jn, run, open
vars == <<l, tid, tb, tc, js, jn, run, open>>

Init == l = 1 /\ tid = -1 /\ tb = <<>> /\ tc = <<>> /\ js = 0 /\ jn = 0 /\ run = FALSE /\ open = FALSE

IsEvent(e) == l <= Len(Events) /\ Events[l].ev = e /\ l' = l + 1

TraceProg == /\ IsEvent("Prog") /\ ~open
             /\ LET r == Events[l] IN
                /\ tid' = r.tid /\ tb' = r.tb /\ tc' = r.tc
                /\ js' = r.s0 /\ jn' = 0 /\ run' = r.tc[r.s0 + 1] /\ open' = TRUE

\* J2O_ControlFlow!StepWhile (JAX side) with the logged fields bound
TraceIter == /\ IsEvent("Iter") /\ open
             /\ LET r == Events[l] IN
                /\ r.tid = tid
                /\ run                              \* JAX would iterate now
                /\ r.it = jn /\ r.cond_in = TRUE
                /\ r.s_in = js
                /\ r.s_out = tb[js + 1]
                /\ r.cond_out = tc[tb[js + 1] + 1]   \* predicate on the NEW state
                /\ js' = r.s_out /\ jn' = jn + 1 /\ run' = r.cond_out
             /\ UNCHANGED <<tid, tb, tc, open>>

TraceDone == /\ IsEvent("Done") /\ open
             /\ LET r == Events[l] IN
                /\ r.tid = tid
                /\ ~run                             \* JAX has halted
                /\ r.s = js /\ r.n = jn
             /\ open' = FALSE
             /\ UNCHANGED <<tid, tb, tc, js, jn, run>>

Next == TraceProg \/ TraceIter \/ TraceDone
Spec == Init /\ [][Next]_vars
PostAccepted == TLCGet("stats").diameter - 1 = Len(Events)
=============================================================================
