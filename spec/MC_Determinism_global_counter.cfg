CONSTANTS
  Kinds <- MCKinds
  FailKinds <- MCFail
  TargetOf <- MCTarget
  MaxHist = 3
  Deviation = "global_counter"
SPECIFICATION Spec
INVARIANT HistoryIndependent
CHECK_DEADLOCK FALSE
