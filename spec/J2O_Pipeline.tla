-------------------------------- MODULE J2O_Pipeline --------------------------------
(***************************************************************************)
(* One conversion as a pipeline of stages (properties C05 interface, C16   *)
(* failure policy, C12 layout flag validation).  Stage order follows        *)
(* user_interface.to_onnx / conversion_api.to_onnx:                         *)
(*   Validate -> Trace -> BindInputs -> Lower -> BindOutputs -> Build ->    *)
(*   Optimize (passes 1..NPass, abortable) -> PruneInputs (last pass) ->     *)
(*   Postprocess -> MaterializeParams -> Rename -> Return                   *)
(* The abstract model is the INTERFACE: the ordered list of graph inputs    *)
(* (positional Pos(i), possibly as NCHW, or named parameters) and outputs   *)
(* (one per result leaf), plus two bits `valid' / `equiv' maintained by the *)
(* optimizer actions.  A request fixes arity, which inputs are unused, the  *)
(* custom names, layout indices, runtime parameters and the failure policy. *)
(***************************************************************************)
EXTENDS Integers, Sequences, FiniteSets, TLC

CONSTANTS NinSet,        \* arities enumerated (e.g. 0..2, or {12}: names are matched to positions for EVERY arity)
          NoutSet,       \* numbers of result leaves
          UnusedSets,    \* sets of ignored positional inputs
          NPass,
          ReqFilter(_)   \* restriction of the request space of a configuration (TRUE = all)

SmallNin == 0..2
SmallNout == 1..2
SmallUnused == SUBSET (0..1)
NoFilter(r) == TRUE
\* wide interface: twelve positional inputs (two-digit indices), custom names, three leaves with a repeated one
WideNin == {12}
WideNout == {1, 3, 4}
WideUnused == {{}, {3, 10}}
WideFilter(r) == /\ r.fault = "none" /\ r.optRaiseAt = 0 /\ ~r.strict /\ ~r.param /\ r.nchwIn \in {"none", "first"}
                 /\ r.nchwOut \in {"none", "first"} /\ r.inNames \in {"none", "ok"} /\ r.outNames \in {"none", "ok"}
                 /\ r.outKind \in {"computed", "duplicate", "folds_to_duplicate", "all_one_value"}
                 /\ (r.nout = 4 => r.outKind = "all_one_value")       \* four leaves on one value: three aliases of it

InNames == {"none", "ok", "dup", "wrong_len", "collide_param", "collide_output"}
OutNames == {"none", "ok", "dup", "wrong_len", "collide_param"}
NchwSel == {"none", "first", "bad_index", "bad_rank", "dup_index"}
Faults == {"none", "user_raises", "unsupported_primitive", "lowering_contract"}

Requests ==
    [nin : NinSet, nout : NoutSet,
     unused : UnusedSets,                     \* positional inputs the callable ignores
     param : BOOLEAN,                          \* one runtime parameter "p" in input_params
     paramUsed : BOOLEAN,
     inNames : InNames, outNames : OutNames,
     nchwIn : NchwSel, nchwOut : NchwSel,
     \* what the result leaves are.  "folds_to_duplicate": the last leaf is a Transpose / Reshape / Cast ROUND TRIP of
     \* the leaf before it -- two distinct values after lowering that the optimizer folds into one; the interface must
     \* still have one output per leaf with a name of its own (OutputsPerLeaf, NamesApplied)
     \* "all_one_value": EVERY leaf is the same value (three leaves = the value itself plus two aliases)
     outKind : {"computed", "alias_input", "constant", "duplicate", "folds_to_duplicate", "all_one_value"},
     fault : Faults,
     optRaiseAt : 0..NPass,                    \* 0 = optimizer does not fail
     strict : BOOLEAN]

WellFormedReq(r) ==
    /\ r.unused \subseteq 0..(r.nin - 1)
    /\ (r.paramUsed => r.param)
    /\ (r.inNames = "collide_param" => r.param)
    /\ (r.outNames = "collide_param" => r.param)
    /\ (r.inNames \in {"ok", "dup", "collide_param", "collide_output"} => r.nin >= 1)
    /\ (r.inNames = "dup" => r.nin >= 2) /\ (r.outNames = "dup" => r.nout >= 2)
    /\ (r.inNames = "collide_output" => r.outNames = "ok")
    /\ (r.outKind = "alias_input" => r.nin >= 1 /\ 0 \notin r.unused)
    /\ (r.outKind \in {"duplicate", "folds_to_duplicate", "all_one_value"} => r.nout >= 2)
    /\ (r.outKind = "all_one_value" => r.nchwOut = "none")
    \* "duplicate": the LAST TWO leaves are one value; with three leaves the first may be layout-flagged
    /\ (r.outKind \in {"alias_input", "constant"} => r.nchwOut = "none")
    /\ (r.outKind \in {"duplicate", "folds_to_duplicate"} /\ r.nout = 2 => r.nchwOut = "none")
    /\ ReqFilter(r)
    /\ (r.nchwIn # "none" => r.nin >= 1)
    /\ (r.nchwIn = "dup_index" => r.nin >= 1) /\ (r.nchwOut = "dup_index" => r.nout >= 1)

\* requests the user cannot expect to succeed: contradictory names, invalid layout selection
\* (a returned input is a leaf like any other: the model gives it an output value of its own, so an input and
\*  an output never share a name)
NameClash(r) == r.inNames = "collide_output"     \* every leaf is a value of its own (also a returned input): one name for both collides
Contradictory(r) ==
    \/ r.inNames \in {"dup", "wrong_len", "collide_param"} \/ NameClash(r)
    \/ r.outNames \in {"dup", "wrong_len", "collide_param"}
    \/ r.nchwIn \in {"bad_index", "bad_rank", "dup_index"}
    \/ r.nchwOut \in {"bad_index", "bad_rank", "dup_index"}

VARIABLES req, stage, ins, outs, passIdx, aborted, valid, equiv, result
vars == <<req, stage, ins, outs, passIdx, aborted, valid, equiv, result>>

Pos(i, nchw) == [kind |-> "pos", i |-> i, nchw |-> nchw, name |-> "default"]
Par == [kind |-> "param", i |-> -1, nchw |-> FALSE, name |-> "p"]
Out(j, nchw) == [leaf |-> j, nchw |-> nchw, name |-> "default"]

Init == /\ req \in {r \in Requests : WellFormedReq(r)}
        /\ stage = "validate" /\ ins = <<>> /\ outs = <<>>
        /\ passIdx = 0 /\ aborted = FALSE /\ valid = TRUE /\ equiv = TRUE /\ result = "none"

Raise == stage' = "raised" /\ result' = "raised"

\* user_interface: name normalisation, length / collision checks with input_params
Validate ==
    /\ stage = "validate"
    /\ IF req.inNames \in {"dup", "wrong_len", "collide_param"} \/ req.outNames \in {"dup", "collide_param"}
         THEN Raise /\ UNCHANGED <<req, ins, outs, passIdx, aborted, valid, equiv>>
         ELSE stage' = "trace" /\ UNCHANGED <<req, ins, outs, passIdx, aborted, valid, equiv, result>>

\* tracing: the callable may raise; layout indices and name lengths are validated against the jaxpr
Trace ==
    /\ stage = "trace"
    /\ IF req.fault = "user_raises" \/ req.outNames = "wrong_len"
          \/ req.nchwIn \in {"bad_index", "dup_index"} \/ req.nchwOut \in {"bad_index", "dup_index"}
         THEN Raise /\ UNCHANGED <<req, ins, outs, passIdx, aborted, valid, equiv>>
         ELSE stage' = "bind_in" /\ UNCHANGED <<req, ins, outs, passIdx, aborted, valid, equiv, result>>

\* one graph input per positional argument, in order, used or not
BindInputs ==
    /\ stage = "bind_in"
    /\ IF req.nchwIn = "bad_rank"
         THEN Raise /\ UNCHANGED <<req, ins, outs, passIdx, aborted, valid, equiv>>
         ELSE /\ ins' = [i \in 1..req.nin |-> Pos(i - 1, req.nchwIn = "first" /\ i = 1)]
              /\ stage' = "lower"
              /\ UNCHANGED <<req, outs, passIdx, aborted, valid, equiv, result>>

Lower ==
    /\ stage = "lower"
    /\ IF req.fault \in {"unsupported_primitive", "lowering_contract"}
         THEN Raise /\ UNCHANGED <<req, ins, outs, passIdx, aborted, valid, equiv>>
         ELSE stage' = "bind_out" /\ UNCHANGED <<req, ins, outs, passIdx, aborted, valid, equiv, result>>

BindOutputs ==
    /\ stage = "bind_out"
    /\ IF req.nchwOut = "bad_rank"
         THEN Raise /\ UNCHANGED <<req, ins, outs, passIdx, aborted, valid, equiv>>
         ELSE /\ outs' = [j \in 1..req.nout |-> Out(j - 1, req.nchwOut = "first" /\ j = 1)]
              /\ stage' = "optimize"
              /\ UNCHANGED <<req, ins, passIdx, aborted, valid, equiv, result>>

\* optimizer: passes run in order; a pass keeps the model valid and equivalent, or raises
OptPass ==
    /\ stage = "optimize" /\ ~aborted /\ passIdx < NPass
    /\ req.optRaiseAt # passIdx + 1
    /\ passIdx' = passIdx + 1
    \* the last pass prunes unused graph inputs -- but never positional ones
    /\ ins' = IF passIdx + 1 = NPass THEN SelectSeq(ins, LAMBDA x : x.kind = "pos" \/ req.paramUsed) ELSE ins
    /\ UNCHANGED <<req, stage, outs, aborted, valid, equiv, result>>

OptPassRaise ==
    /\ stage = "optimize" /\ ~aborted /\ passIdx < NPass
    /\ req.optRaiseAt = passIdx + 1
    /\ IF req.strict
         THEN Raise /\ UNCHANGED <<req, ins, outs, passIdx, aborted, valid, equiv>>
         ELSE aborted' = TRUE /\ UNCHANGED <<req, stage, ins, outs, passIdx, valid, equiv, result>>   \* logged, rest skipped

OptDone ==
    /\ stage = "optimize" /\ (aborted \/ passIdx = NPass)
    /\ stage' = "post"
    /\ UNCHANGED <<req, ins, outs, passIdx, aborted, valid, equiv, result>>

Postprocess ==   \* only weakens intermediate annotations; interface untouched
    /\ stage = "post"
    /\ stage' = "materialize"
    /\ UNCHANGED <<req, ins, outs, passIdx, aborted, valid, equiv, result>>

MaterializeParams ==   \* a referenced runtime parameter becomes a named graph input (after the positional ones)
    /\ stage = "materialize"
    /\ ins' = IF req.param /\ req.paramUsed /\ ~(\E k \in 1..Len(ins) : ins[k].kind = "param") THEN Append(ins, Par) ELSE ins
    /\ stage' = "rename"
    /\ UNCHANGED <<req, outs, passIdx, aborted, valid, equiv, result>>

Rename ==
    /\ stage = "rename"
    /\ IF NameClash(req)
         THEN Raise /\ UNCHANGED <<req, ins, outs, passIdx, aborted, valid, equiv>>
         ELSE /\ ins' = [k \in 1..Len(ins) |-> IF ins[k].kind = "pos" /\ req.inNames \in {"ok", "collide_output"}
                                                 THEN [ins[k] EXCEPT !.name = "custom"] ELSE ins[k]]
              /\ outs' = [k \in 1..Len(outs) |-> IF req.outNames = "ok" THEN [outs[k] EXCEPT !.name = "custom"] ELSE outs[k]]
              /\ stage' = "returned" /\ result' = "model"
              /\ UNCHANGED <<req, passIdx, aborted, valid, equiv>>

Next == Validate \/ Trace \/ BindInputs \/ Lower \/ BindOutputs \/ OptPass \/ OptPassRaise \/ OptDone
        \/ Postprocess \/ MaterializeParams \/ Rename
Spec == Init /\ [][Next]_vars

---------------------------------------------------------------------------
PosOf == SelectSeq(ins, LAMBDA x : x.kind = "pos")
AfterBind == stage \notin {"validate", "trace", "bind_in", "raised"}

\* C05: exactly one input per positional argument, in order, never dropped or reordered
PositionalStable == AfterBind => /\ Len(PosOf) = req.nin
                                 /\ \A k \in 1..req.nin : PosOf[k].i = k - 1
                                 /\ \A k \in 1..Len(ins) : ins[k].kind = "pos" => k <= req.nin
\* C05: one output per result leaf, in order
OutputsPerLeaf == stage \in {"optimize", "post", "materialize", "rename", "returned"} =>
                     (Len(outs) = req.nout /\ \A j \in 1..req.nout : outs[j].leaf = j - 1)
\* C05: names applied exactly
NamesApplied == stage = "returned" =>
                   /\ (req.inNames \in {"ok", "collide_output"} => \A k \in 1..req.nin : ins[k].name = "custom")
                   /\ (req.outNames = "ok" => \A j \in 1..req.nout : outs[j].name = "custom")
\* C05 / C12: a request is rejected iff it is contradictory or the program is faulty
RejectIffBad == stage \in {"returned", "raised"} =>
                   (result = "raised" <=> (Contradictory(req) \/ req.fault # "none" \/ (req.optRaiseAt > 0 /\ req.strict)))
\* C16: whatever the optimizer did, a returned model is valid and equivalent
ReturnedIsSound == stage = "returned" => (valid /\ equiv)
\* C16: non strict abort still returns a model; strict re-raises
AbortPolicy == (stage \in {"returned", "raised"} /\ req.optRaiseAt > 0 /\ ~Contradictory(req) /\ req.fault = "none") =>
                  (IF req.strict THEN result = "raised" ELSE result = "model")
=============================================================================
