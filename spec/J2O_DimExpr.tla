-------------------------------- MODULE J2O_DimExpr --------------------------------
(***************************************************************************)
(* Symbolic dimension arithmetic (property C04).                           *)
(* A case pairs a dimension expression (AST with MATHEMATICAL semantics:   *)
(* floor division, non-negative remainder for positive divisors, max, min,  *)
(* powers) with the integer ONNX program the converter actually emitted     *)
(* for it -- extracted node by node from a real export (J2O_DimFacts).      *)
(* The module executes that program one node per step with ONNX integer     *)
(* semantics (Div truncates toward zero, Mod follows the divisor's sign,    *)
(* Shape[start:end] reads the runtime shape) for EVERY binding of the       *)
(* symbols, and requires the program's result to be the AST's value.        *)
(***************************************************************************)
EXTENDS Integers, Sequences, FiniteSets, TLC, J2O_DimFacts

Abs(x) == IF x < 0 THEN -x ELSE x
TruncDiv(a, b) == LET q == Abs(a) \div Abs(b) IN IF (a < 0) # (b < 0) THEN -q ELSE q
FloorDiv(a, b) == IF b > 0 THEN a \div b ELSE (-a) \div (-b)
FloorMod(a, b) == a - b * FloorDiv(a, b)
RECURSIVE IPow(_, _)
IPow(a, n) == IF n <= 0 THEN 1 ELSE a * IPow(a, n - 1)
Max2(a, b) == IF a >= b THEN a ELSE b
Min2(a, b) == IF a <= b THEN a ELSE b

\* ---- mathematical semantics of the expression
RECURSIVE Eval(_, _)
Eval(e, bind) ==
    CASE e.t = "sym" -> bind[e.n]
      [] e.t = "const" -> e.v
      [] e.t = "add" -> Eval(e.a, bind) + Eval(e.b, bind)
      [] e.t = "sub" -> Eval(e.a, bind) - Eval(e.b, bind)
      [] e.t = "mul" -> Eval(e.a, bind) * Eval(e.b, bind)
      [] e.t = "floordiv" -> FloorDiv(Eval(e.a, bind), Eval(e.b, bind))
      [] e.t = "mod" -> FloorMod(Eval(e.a, bind), Eval(e.b, bind))
      [] e.t = "max" -> Max2(Eval(e.a, bind), Eval(e.b, bind))
      [] e.t = "min" -> Min2(Eval(e.a, bind), Eval(e.b, bind))
      [] e.t = "pow" -> IPow(Eval(e.a, bind), e.k)

\* ---- ONNX semantics of one node on 1-D int64 tensors (sequences of integers)
BC(x, n) == IF Len(x) = n THEN x ELSE [i \in 1..n |-> x[1]]        \* broadcast a 1-element operand
Bin(op(_, _), x, y) == LET n == Max2(Len(x), Len(y)) IN [i \in 1..n |-> op(BC(x, n)[i], BC(y, n)[i])]
Add2(a, b) == a + b
Sub2(a, b) == a - b
Mul2(a, b) == a * b
RunNode(nd, env, shapes) ==
    LET in(k) == env[nd.ins[k]] IN
    CASE nd.op = "Shape" -> SubSeq(shapes[nd.src], nd.start + 1, nd.stop)
      [] nd.op = "Const" -> nd.val
      [] nd.op = "Add" -> Bin(Add2, in(1), in(2))
      [] nd.op = "Sub" -> Bin(Sub2, in(1), in(2))
      [] nd.op = "Mul" -> Bin(Mul2, in(1), in(2))
      [] nd.op = "Div" -> Bin(TruncDiv, in(1), in(2))          \* ONNX integer Div truncates
      [] nd.op = "Mod" -> Bin(FloorMod, in(1), in(2))          \* ONNX Mod, fmod = 0
      [] nd.op = "Pow" -> Bin(IPow, in(1), in(2))
      [] nd.op = "Max" -> Bin(Max2, in(1), in(2))
      [] nd.op = "Min" -> Bin(Min2, in(1), in(2))
      [] nd.op = "Concat" -> in(1) \o in(2)
      [] nd.op = "Gather" -> [i \in 1..Len(in(2)) |-> in(1)[(IF in(2)[i] < 0 THEN in(2)[i] + Len(in(1)) ELSE in(2)[i]) + 1]]
      [] nd.op \in {"Reshape", "Squeeze", "Unsqueeze", "Cast", "Identity"} -> in(1)

VARIABLES c, bind, pcnt, env
vars == <<c, bind, pcnt, env>>

Shapes(case, b) == [k \in DOMAIN case.inshapes |-> [i \in 1..Len(case.inshapes[k]) |->
                       LET d == case.inshapes[k][i] IN IF d \in DOMAIN b THEN b[d] ELSE case.fixed[d]]]

Init == /\ c \in Cases
        /\ bind \in [Syms -> BindVals]
        /\ pcnt = 0
        /\ env = <<>>

\* one emitted ONNX node per step
ExecNode == /\ pcnt < Len(c.prog)
            /\ env' = Append(env, RunNode(c.prog[pcnt + 1], env, Shapes(c, bind)))
            /\ pcnt' = pcnt + 1
            /\ UNCHANGED <<c, bind>>
Next == ExecNode
Spec == Init /\ [][Next]_vars

Finished == pcnt = Len(c.prog)
\* C04: shape arithmetic is evaluated at run time with the integer result JAX computes
LoweredEqualsMath == Finished => env[c.out] = <<Eval(c.ast, bind)>>
=============================================================================
