SPECIFICATION Spec
CONSTANT Variant = "front"
INVARIANT RuleSound
INVARIANT EmitDone
CHECK_DEADLOCK FALSE
