--------------------------------- MODULE J2O_Vocab ---------------------------------
(***************************************************************************)
(* The op-name vocabularies the optimizer's guards consult (C02, C12).      *)
(* The real passes decide "this node may be moved across a Transpose or a   *)
(* Reshape" by looking an operator name up in module-level sets             *)
(* (ELEMENTWISE_UNARY_OPS, ELEMENTWISE_BINARY_OPS, ALLOWED_ELEMWISE,         *)
(* UNARY_DATAFLOW_OPS).  Those sets are FACTS extracted from the working     *)
(* tree (J2O_VocabFacts).  The specification says which operator CLASSES     *)
(* commute with a change of layout, in the free term algebra of J2O_Tensor:  *)
(*   pointwise : out[ix] = op(in[ix])                 -- commutes            *)
(*   nary      : out[ix] = op(a[ix], b[ix']) with broadcasting  -- commutes  *)
(*               iff the side operand is a scalar (guard of the rules)       *)
(*   axis      : out[ix] = op(in[ix], {in[jx] : jx on the fibre through ix   *)
(*               along `axis'})   (Softmax, LogSoftmax, CumSum, ...)          *)
(*               -- does NOT commute: the axis attribute keeps its number     *)
(* A behaviour picks (set, op, perm, axis) and evaluates both sides.         *)
(* VocabSound: every member of a layout set commutes.  The harness turns a   *)
(* counterexample (op name, perm, axis) into a real ONNX graph and lets the   *)
(* real passes + ORT decide; unknown classes are decided by ORT alone.        *)
(***************************************************************************)
EXTENDS J2O_Tensor, J2O_VocabFacts

\* J2O_VocabFacts defines: LayoutSets (set-name :> set of op names), ClassOf (op name :> class),
\*                        IntPreserving (set of op names), IntClassOf (op name :> class)

Sh == <<2, 2, 3>>
Perms == {<<0, 2, 1>>, <<1, 2, 0>>, <<2, 0, 1>>, <<1, 0, 2>>, <<2, 1, 0>>}
InvP(p) == CHOOSE q \in Perms \cup {<<0, 1, 2>>} : InversePerm(p, q)

Fibre(t, ix, a) == {t.f[[ix EXCEPT ![a + 1] = k]] : k \in 0..(t.sh[a + 1] - 1)}
AxisT(op, t, a) == Tn(t.sh, [ix \in IdxSet(t.sh) |-> <<op, t.f[ix], Fibre(t, ix, a)>>], t.dt)

Apply(cls, op, t, a) == CASE cls = "pointwise" -> UnT(op, t)
                          [] cls = "pointwise_nary" -> BinT(op, t, ConstT("s", <<>>, t.dt))      \* scalar side operand
                          [] cls = "axis" -> AxisT(op, t, a)
                          [] OTHER -> UnT(op, t)

X == InputT(0, Sh, "FLOAT")
Commutes(cls, op, p, a) == TransposeT(Apply(cls, op, TransposeT(X, p), a), InvP(p)) = Apply(cls, op, X, a)

Members == {<<s, o>> : s \in DOMAIN LayoutSets, o \in UNION {LayoutSets[z] : z \in DOMAIN LayoutSets}}
VARIABLES pick, verdict
vars == <<pick, verdict>>
Init == /\ pick \in {[set |-> m[1], op |-> m[2], p |-> p, a |-> a] : m \in {mm \in Members : mm[2] \in LayoutSets[mm[1]]}, p \in Perms, a \in 0..2}
        /\ verdict = "pending"
Evaluate == /\ verdict = "pending"
            /\ verdict' = IF ClassOf[pick.op] = "unknown" THEN "undecided"
                          ELSE IF Commutes(ClassOf[pick.op], pick.op, pick.p, pick.a) THEN "commutes" ELSE "differs"
            /\ UNCHANGED pick
Spec == Init /\ [][Evaluate]_vars

VocabSound == verdict # "differs"

---------------------------------------------------------------------------
(* Second vocabulary (C17): _INTEGER_VALUE_PRESERVING_OPS.  The static range prover walks from a value
   back to its producer's FIRST input as long as the producer is in this set, so every member must only
   select / rearrange / repeat elements of its first input:  Elements(out) \subseteq Elements(in0).
   Classes: selects_first (Reshape, Transpose, Squeeze, Unsqueeze, Flatten, Identity, Expand, Gather,
   Slice, Tile), joins (Concat: elements of ALL operands), pointwise_nary (Add, Max, ...: new values). *)
Elems(t) == {t.f[ix] : ix \in IdxSet(t.sh)}
A1 == InputT(0, <<3>>, "INT32")
B1 == InputT(1, <<2>>, "INT32")
ApplyInt(cls, op) == CASE cls = "selects_first" -> Tn(<<4>>, [ix \in IdxSet(<<4>>) |-> A1.f[<<(ix[1] + 1) % 3>>]], "INT32")
                       [] cls = "joins" -> Tn(<<5>>, [ix \in IdxSet(<<5>>) |-> IF ix[1] < 3 THEN A1.f[<<ix[1]>>] ELSE B1.f[<<ix[1] - 3>>]], "INT32")
                       [] cls = "pointwise_nary" -> BinT(op, A1, ConstT("s", <<>>, "INT32"))
                       [] cls = "pointwise" -> UnT(op, A1)
                       [] OTHER -> A1
IntMemberSound(op) == IntClassOf[op] = "unknown" \/ Elems(ApplyInt(IntClassOf[op], op)) \subseteq Elems(A1)
IntVocabSound == \A op \in IntPreserving : IntMemberSound(op)
\* non-vacuity of the class semantics themselves
ClassSemantics == /\ Elems(ApplyInt("selects_first", "g")) \subseteq Elems(A1)
                  /\ ~(Elems(ApplyInt("joins", "g")) \subseteq Elems(A1))
                  /\ ~(Elems(ApplyInt("pointwise", "g")) \subseteq Elems(A1))
                  /\ Commutes("pointwise", "f", <<1, 2, 0>>, 0)
                  /\ ~Commutes("axis", "g", <<1, 2, 0>>, 0)
                  /\ Commutes("axis", "g", <<0, 2, 1>>, 0)        \* the axis is a fixed point of this perm
=============================================================================
