SPECIFICATION Spec
CONSTANT Dev = "kernel_not_flipped"
INVARIANT LoweringSound
INVARIANT LengthLaw
CHECK_DEADLOCK FALSE
