---- MODULE MC_Batching ----
EXTENDS J2O_Batching, Json
EmitDone == done => PrintT(ToJson([c |-> case, x |-> Nest(CaseInput(case)), r |-> Nest(expect)]))
====
