---- MODULE MC_Batching ----
EXTENDS J2O_Batching, Json
EmitDone == done => PrintT(ToJson([c |-> case, x |-> InputT(case.bd, case.s), r |-> expect]))
====
