---------------------------------- MODULE J2O_OpSem ----------------------------------
(***************************************************************************)
(* Exact reference semantics, on the exact lattice, of primitives whose    *)
(* lowering is value dependent (property C01, spec-exact part).  Floats are *)
(* half-integers, represented as twice their value (x2); integers as such.  *)
(* A behaviour picks a case (primitive, parameters, input), one step        *)
(* computes the result; TLC prints every (case, result) for the harness,     *)
(* which runs the REAL export of that primitive in ORT on the same input     *)
(* and compares three ways (spec = JAX eager = ORT).  The invariants are     *)
(* algebraic laws that tie the operator definitions to each other.           *)
(***************************************************************************)
EXTENDS Integers, Sequences, FiniteSets, TLC

F2 == {-7, -5, -4, -3, -2, -1, 0, 1, 2, 3, 4, 5, 7}          \* -3.5 .. 3.5 in halves
I == -5..5
D == I \ {0}
V3 == [1..3 -> {-1, 0, 1, 2}]                                  \* length-3 integer vectors

Abs(x) == IF x < 0 THEN -x ELSE x
Sgn(x) == IF x > 0 THEN 1 ELSE IF x < 0 THEN -1 ELSE 0
FloorDiv(a, b) == IF b > 0 THEN a \div b ELSE (-a) \div (-b)
TruncDiv(a, b) == Sgn(a) * Sgn(b) * (Abs(a) \div Abs(b))

\* ---- unary float -> float (x2 in, y2 out)
Floor2(x2) == 2 * FloorDiv(x2, 2)
Ceil2(x2) == -Floor2(-x2)
RoundAway2(x2) == IF x2 % 2 = 0 THEN x2 ELSE x2 + Sgn(x2)            \* half away from zero
RoundEven2(x2) == IF x2 % 2 = 0 THEN x2
                  ELSE LET lo == Floor2(x2) IN IF (lo \div 2) % 2 = 0 THEN lo ELSE lo + 2
Trunc2(x2) == 2 * TruncDiv(x2, 2)                                    \* float -> int conversion truncates

Unary(op, x2) == CASE op = "floor" -> Floor2(x2) [] op = "ceil" -> Ceil2(x2)
                   [] op = "round_away" -> RoundAway2(x2) [] op = "round_even" -> RoundEven2(x2)
                   [] op = "sign" -> 2 * Sgn(x2) [] op = "abs" -> Abs(x2) [] op = "neg" -> -x2
                   [] op = "to_int" -> Trunc2(x2)
UnaryOps == {"floor", "ceil", "round_away", "round_even", "sign", "abs", "neg", "to_int"}

\* ---- binary integer
RECURSIVE IPow(_, _)
IPow(a, n) == IF n = 0 THEN 1 ELSE a * IPow(a, n - 1)
Max2(a, b) == IF a >= b THEN a ELSE b
Min2(a, b) == IF a <= b THEN a ELSE b
Binary(op, a, b) == CASE op = "div" -> TruncDiv(a, b) [] op = "rem" -> a - b * TruncDiv(a, b)
                      [] op = "floor_divide" -> FloorDiv(a, b) [] op = "mod" -> a - b * FloorDiv(a, b)
                      [] op = "max" -> Max2(a, b) [] op = "min" -> Min2(a, b)
DivOps == {"div", "rem", "floor_divide", "mod"}
BinaryOps == DivOps \cup {"max", "min"}

\* ---- vector ops
ArgBest(v, better(_, _)) == CHOOSE i \in 1..3 : /\ (\A j \in 1..3 : ~better(v[j], v[i]))
                                                 /\ (\A m \in 1..(i - 1) : better(v[i], v[m]))   \* first among ties
Gt(a, b) == a > b
Lt(a, b) == a < b
CumSum(v, rev) == IF rev THEN [i \in 1..3 |-> IF i = 3 THEN v[3] ELSE IF i = 2 THEN v[2] + v[3] ELSE v[1] + v[2] + v[3]]
                  ELSE [i \in 1..3 |-> IF i = 1 THEN v[1] ELSE IF i = 2 THEN v[1] + v[2] ELSE v[1] + v[2] + v[3]]
Sorted(v) == CHOOSE s \in [1..3 -> {-1, 0, 1, 2}] :
                /\ s[1] <= s[2] /\ s[2] <= s[3]
                /\ \A x \in {-1, 0, 1, 2} : Cardinality({i \in 1..3 : s[i] = x}) = Cardinality({i \in 1..3 : v[i] = x})
OneHot(i, n) == [k \in 1..n |-> IF k - 1 = i THEN 1 ELSE 0]           \* indices outside 0..n-1 give a zero row

\* ---- dot_general on 2x2 integer matrices: contraction over axis lc of A and axis rc of B (0-based, as in JAX)
M2 == {<<<<a, b>>, <<c, d>>>> : a \in {0, 1}, b \in {1, 2}, c \in {0, -1}, d \in {0, 1}}   \* b # c: never symmetric
AElt(A, lc, i, k) == IF lc = 1 THEN A[i][k] ELSE A[k][i]
BElt(B, rc, k, j) == IF rc = 0 THEN B[k][j] ELSE B[j][k]
DotGeneral(A, B, lc, rc) == [i \in 1..2 |-> [j \in 1..2 |-> AElt(A, lc, i, 1) * BElt(B, rc, 1, j) + AElt(A, lc, i, 2) * BElt(B, rc, 2, j)]]
Tr2(A) == [i \in 1..2 |-> [j \in 1..2 |-> A[j][i]]]

Cases ==
    {[k |-> "unary", op |-> op, x |-> x2] : op \in UnaryOps, x2 \in F2}
    \cup {[k |-> "binary", op |-> op, a |-> a, b |-> b] : op \in BinaryOps, a \in I, b \in D}
    \cup {[k |-> "ipow", a |-> a, n |-> n] : a \in -3..3, n \in 0..3}
    \cup {[k |-> "clamp", lo |-> lo, x |-> x, hi |-> hi] : lo \in -2..1, x \in I, hi \in 1..3}
    \cup {[k |-> "onehot", i |-> i] : i \in -2..4}
    \cup {[k |-> "vec", op |-> op, v |-> v] : op \in {"argmax", "argmin", "cumsum", "cumsum_rev", "sort"}, v \in V3}
    \cup {[k |-> "dot", lc |-> lc, rc |-> rc, A |-> A, B |-> B] : lc \in {0, 1}, rc \in {0, 1}, A \in M2, B \in M2}

Result(c) ==
    CASE c.k = "unary" -> Unary(c.op, c.x)
      [] c.k = "binary" -> Binary(c.op, c.a, c.b)
      [] c.k = "ipow" -> IPow(c.a, c.n)
      [] c.k = "clamp" -> Max2(c.lo, Min2(c.x, c.hi))
      [] c.k = "onehot" -> OneHot(c.i, 3)
      [] c.k = "vec" -> (CASE c.op = "argmax" -> ArgBest(c.v, Gt) - 1 [] c.op = "argmin" -> ArgBest(c.v, Lt) - 1
                          [] c.op = "cumsum" -> CumSum(c.v, FALSE) [] c.op = "cumsum_rev" -> CumSum(c.v, TRUE)
                          [] c.op = "sort" -> Sorted(c.v))
      [] c.k = "dot" -> DotGeneral(c.A, c.B, c.lc, c.rc)

VARIABLES case, res, done
vars == <<case, res, done>>
Init == case \in Cases /\ res = 0 /\ done = FALSE
Evaluate == ~done /\ res' = Result(case) /\ done' = TRUE /\ UNCHANGED case
Next == Evaluate
Spec == Init /\ [][Next]_vars

\* laws tying the definitions together
DivLaws == (done /\ case.k = "binary") =>
    /\ TruncDiv(case.a, case.b) * case.b + (case.a - case.b * TruncDiv(case.a, case.b)) = case.a
    /\ FloorDiv(case.a, case.b) * case.b + (case.a - case.b * FloorDiv(case.a, case.b)) = case.a
    /\ (case.op = "rem" => (res = 0 \/ Sgn(res) = Sgn(case.a)) /\ Abs(res) < Abs(case.b))
    /\ (case.op = "mod" => (res = 0 \/ Sgn(res) = Sgn(case.b)) /\ Abs(res) < Abs(case.b))
RoundLaws == (done /\ case.k = "unary" /\ case.op \in {"floor", "ceil", "round_away", "round_even", "to_int"}) =>
    /\ res % 2 = 0 /\ Abs(res - case.x) <= 2
    /\ (case.op = "round_even" /\ case.x % 2 # 0 => (res \div 2) % 2 = 0)
    /\ (case.op = "floor" => res <= case.x) /\ (case.op = "ceil" => res >= case.x)
VecLaws == (done /\ case.k = "vec") =>
    /\ (case.op = "argmax" => \A j \in 1..3 : case.v[j] <= case.v[res + 1])
    /\ (case.op = "cumsum" => res[3] = case.v[1] + case.v[2] + case.v[3])
    /\ (case.op = "cumsum_rev" => res[1] = case.v[1] + case.v[2] + case.v[3])
DotLaws == (done /\ case.k = "dot") =>
    /\ res = DotGeneral(IF case.lc = 0 THEN Tr2(case.A) ELSE case.A, IF case.rc = 1 THEN Tr2(case.B) ELSE case.B, 1, 0)
    /\ Tr2(res) = DotGeneral(case.B, case.A, case.rc, case.lc)
=============================================================================
