SPECIFICATION Spec
CONSTANT Dev = "squeeze_all_ones"
INVARIANT ElementsPreserved
INVARIANT RankIndependentOfBinding
INVARIANT TileLaw
INVARIANT GrowLaw
INVARIANT AxisSpellings
INVARIANT AllPositive
INVARIANT SlicePartition
CHECK_DEADLOCK FALSE
