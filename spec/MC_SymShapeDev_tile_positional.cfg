SPECIFICATION Spec
CONSTANT Dev = "tile_positional"
INVARIANT ElementsPreserved
INVARIANT RankIndependentOfBinding
INVARIANT TileLaw
INVARIANT GrowLaw
INVARIANT AxisSpellings
INVARIANT AllPositive
INVARIANT SlicePartition
CHECK_DEADLOCK FALSE
