------------------------------ MODULE J2O_CastRules ------------------------------
(***************************************************************************)
(* Constant-free part of the cast specification: number formats and the    *)
(* parametric decision rule Accepts(s, t) = "T -> U -> T preserves every   *)
(* value of T".  J2O_CastTable validates the rule against enumerated value *)
(* sets on a miniature family; J2O_CastReal applies it to the ONNX types.  *)
(***************************************************************************)
EXTENDS Integers

(* Formats *)
BoolFmt == [k |-> "bool"]
IntFmt(sg, b) == [k |-> "int", sg |-> sg, b |-> b]
FloatFmt(p, emin, emax, inf, nz, cx) ==
    [k |-> "float", p |-> p, emin |-> emin, emax |-> emax, inf |-> inf, nz |-> nz, cx |-> cx]

OtherFmt(n) == [k |-> "other", n |-> n]

(* The parametric decision rule (the "lemma"): uses format PARAMETERS only. *)
IntInInt(s, t) ==
    IF s.sg THEN t.sg /\ t.b >= s.b
    ELSE IF t.sg THEN t.b > s.b ELSE t.b >= s.b

IntInFloat(s, t) ==
    LET req == IF s.sg THEN s.b - 1 ELSE s.b
    IN /\ t.p >= req
       /\ t.emax >= s.b - 1
       /\ t.emin <= 0

FloatInFloat(s, t) ==
    /\ t.p >= s.p
    /\ t.emin <= s.emin
    /\ t.emax >= s.emax
    /\ (s.inf => t.inf)
    /\ (s.nz => t.nz)

Accepts(s, t) ==
    IF s = t THEN TRUE
    ELSE CASE s.k = "bool" -> t.k \in {"int", "float"}
           [] s.k = "int" ->
                CASE t.k = "int" -> IntInInt(s, t)
                  [] t.k = "float" -> IntInFloat(s, t)
                  [] OTHER -> FALSE
           [] s.k = "float" ->
                /\ t.k = "float"
                /\ (s.cx => t.cx)
                /\ FloatInFloat(s, t)
           [] OTHER -> FALSE

=============================================================================
