------------------------------- MODULE J2O_Allclose -------------------------------
(***************************************************************************)
(* The bundled validation helper allclose(fn, model, inputs, rtol, atol)    *)
(* (property C18) as a decision procedure over an abstract description of   *)
(* how the stored model deviates from fn.  A case is                        *)
(*   count  : "same" | "fewer" | "more"          (number of outputs)        *)
(*   outs   : per output [shape, refc, modc, dev]                           *)
(*     shape : "same" | "unit_axis" | "dims_swapped" | "flattened"          *)
(*     refc / modc : element class of fn's / the model's output             *)
(*     dev   : "none" | "within_tol" | "beyond_tol" | "fractional"          *)
(*             | "nan_vs_num" | "nonzero_vs_true"                           *)
(* The procedure is implementation shaped: CheckCount, then per output      *)
(* CheckShape, then Compare in the element class the code selects.          *)
(* CompareMode = "common"  : both sides promoted to a common type (the      *)
(*                           repaired code)                                 *)
(* CompareMode = "cast_to_ref" : model output cast to the reference dtype   *)
(*                           first (named deviation Dev_CastModelToRef;     *)
(*                           the behaviour before the fix) -- must violate  *)
(*                           VerdictSound.                                  *)
(***************************************************************************)
EXTENDS Integers, Sequences, FiniteSets, TLC

CONSTANTS NOut, CompareMode

Classes == {"bool", "int", "float"}
Shapes == {"same", "unit_axis", "dims_swapped", "flattened"}
Devs == {"none", "within_tol", "beyond_tol", "fractional", "nan_vs_num", "nonzero_vs_true"}

\* which deviations exist for which pair of element classes
\* the model's class can hold every value of fn's class (otherwise the conversion alone deviates)
Representable(r, m) == <<r, m>> \in {<<"bool", "bool">>, <<"bool", "int">>, <<"bool", "float">>,
                                      <<"int", "int">>, <<"int", "float">>, <<"float", "float">>}
Possible(o) ==
    CASE o.dev = "none" -> Representable(o.refc, o.modc)
      [] o.dev = "within_tol" -> o.modc = "float" /\ Representable(o.refc, o.modc)
      [] o.dev = "beyond_tol" -> TRUE
      [] o.dev = "fractional" -> o.refc = "int" /\ o.modc = "float"
      [] o.dev = "nan_vs_num" -> o.modc = "float"
      [] o.dev = "nonzero_vs_true" -> o.refc = "bool" /\ o.modc = "int"

OutDescr == {o \in [shape : Shapes, refc : Classes, modc : Classes, dev : Devs] : Possible(o)}

VARIABLES case, pc, k, verdict
vars == <<case, pc, k, verdict>>

Init == /\ case \in [count : {"same", "fewer", "more"}, outs : [1..NOut -> OutDescr]]
        /\ pc = "count" /\ k = 1 /\ verdict = "none"

CheckCount == /\ pc = "count"
              /\ IF case.count # "same" THEN pc' = "done" /\ verdict' = "mismatch"
                                         ELSE pc' = "shape" /\ verdict' = verdict
              /\ UNCHANGED <<case, k>>

CheckShape == /\ pc = "shape"
              /\ IF case.outs[k].shape # "same" THEN pc' = "done" /\ verdict' = "mismatch"
                                                 ELSE pc' = "compare" /\ verdict' = verdict
              /\ UNCHANGED <<case, k>>

\* does the comparison the code performs see the deviation?
Sees(o) ==
    LET floatBranch == o.refc = "float" \/ o.modc = "float" IN
    CASE o.dev = "none" -> FALSE
      [] o.dev = "within_tol" -> FALSE
      [] o.dev = "nan_vs_num" -> IF CompareMode = "cast_to_ref" /\ o.refc # "float" THEN FALSE ELSE TRUE
      [] o.dev = "beyond_tol" -> TRUE
      [] o.dev = "fractional" ->          \* +0.9 on an integer valued reference
           IF CompareMode = "cast_to_ref" THEN FALSE    \* float -> int cast truncates it away
           ELSE TRUE
      [] o.dev = "nonzero_vs_true" ->     \* model says 2 where fn says True
           IF CompareMode = "cast_to_ref" THEN FALSE    \* int -> bool cast maps 2 to True
           ELSE TRUE

Compare == /\ pc = "compare"
           /\ IF Sees(case.outs[k])
                THEN pc' = "done" /\ verdict' = "mismatch" /\ k' = k
                ELSE IF k = NOut THEN pc' = "done" /\ verdict' = "match" /\ k' = k
                     ELSE pc' = "shape" /\ verdict' = verdict /\ k' = k + 1
           /\ UNCHANGED case

Next == CheckCount \/ CheckShape \/ Compare
Spec == Init /\ [][Next]_vars

\* what the property demands
Deviates(o) == o.shape # "same" \/ o.dev \in {"beyond_tol", "fractional", "nan_vs_num", "nonzero_vs_true"}
MustMismatch == case.count # "same" \/ \E i \in 1..NOut : Deviates(case.outs[i])
MustMatch == ~MustMismatch

VerdictSound == (pc = "done" /\ verdict = "match") => ~MustMismatch
VerdictComplete == (pc = "done" /\ verdict = "mismatch") => MustMismatch
=============================================================================
