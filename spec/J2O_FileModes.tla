------------------------------- MODULE J2O_FileModes -------------------------------
(***************************************************************************)
(* Return and file modes (property C15): one output path, a sequence of     *)
(* exports to it.  An export has a model id (which request it serialises),  *)
(* an export mode (standard | web) and a parameter size class (small: below *)
(* the 1 MiB spill threshold, large: above).  The file system state is       *)
(*   file    : [model, ext]    the .onnx file; ext = it references a sidecar *)
(*   sidecar : [exists, model] the .onnx.data file and whose bytes it holds  *)
(* Actions follow user_interface._save_model_proto:                         *)
(*   web            -> self-contained file; an existing sidecar is deleted  *)
(*   standard/large -> file references the sidecar; sidecar rewritten        *)
(*   standard/small -> self-contained file; an EMPTY sidecar is deleted, a   *)
(*                     non-empty one from an earlier export is left behind   *)
(*                     (but not referenced)                                  *)
(* Invariants: loading the path yields the model of the LAST export with     *)
(* that export's bytes; web files never reference external data; a stale     *)
(* sidecar is never referenced.                                              *)
(***************************************************************************)
EXTENDS Integers, Sequences, TLC

CONSTANTS MaxExports

Modes == {"standard", "web"}
Sizes == {"small", "large", "edge"}    \* edge: exactly at the threshold, either treatment is allowed
\* where the (only) big parameter lives: a top-level initializer, or an initializer of a Loop body graph
\* (onnx.save_model spills both; the cleanup after a standard save must not confuse "no top-level
\* external tensor" with "no external data")
Locs == {"top", "body"}
\* how the caller spells the mode: the API normalises case and surrounding blanks ("Web", " WEB ")
Spells == {"canonical", "mixed_case"}

VARIABLES file, sidecar, n, hist
vars == <<file, sidecar, n, hist>>

NoFile == [model |-> 0, ext |-> FALSE]
Init == file = NoFile /\ sidecar = [exists |-> FALSE, model |-> 0] /\ n = 0 /\ hist = <<>>

Export(mode, size, loc, spell) ==
    /\ n < MaxExports
    /\ n' = n + 1
    /\ hist' = Append(hist, <<mode, size, loc, spell>>)
    /\ LET id == n + 1 IN
       CASE mode = "web" ->
              /\ file' = [model |-> id, ext |-> FALSE]
              /\ sidecar' = [exists |-> FALSE, model |-> 0]
         [] mode = "standard" /\ size = "large" ->
              /\ file' = [model |-> id, ext |-> TRUE]
              /\ sidecar' = [exists |-> TRUE, model |-> id]
         [] mode = "standard" /\ size = "edge" ->
              \/ /\ file' = [model |-> id, ext |-> TRUE]
                 /\ sidecar' = [exists |-> TRUE, model |-> id]
              \/ /\ file' = [model |-> id, ext |-> FALSE]
                 /\ sidecar' = sidecar
         [] OTHER ->
              /\ file' = [model |-> id, ext |-> FALSE]
              /\ sidecar' = sidecar            \* a non-empty stale sidecar may stay on disk

\* location and spelling do not change what must be on disk afterwards
Next == \E m \in Modes, s \in Sizes, l \in Locs, sp \in Spells :
           /\ (l = "body" => s = "large") /\ (sp = "mixed_case" => m = "web" \/ s = "small")
           /\ Export(m, s, l, sp)
Spec == Init /\ [][Next]_vars

\* what a loader sees: the graph from the file and, when referenced, parameter bytes of the sidecar
Loaded == IF file.ext THEN [graph |-> file.model, params |-> IF sidecar.exists THEN sidecar.model ELSE -1]
          ELSE [graph |-> file.model, params |-> file.model]

LoadIsLastExport == n > 0 => Loaded = [graph |-> n, params |-> n]
WebSelfContained == (n > 0 /\ hist[n][1] = "web") => (~file.ext /\ ~sidecar.exists)
StaleNeverReferenced == file.ext => (sidecar.exists /\ sidecar.model = file.model)
=============================================================================
