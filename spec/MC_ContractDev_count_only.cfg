SPECIFICATION Spec
CONSTANT Dev = "count_only"
INVARIANT TypeOK
INVARIANT ContractSound
INVARIANT NoSpuriousRaise
CHECK_DEADLOCK FALSE
