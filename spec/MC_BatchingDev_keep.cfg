SPECIFICATION Spec
CONSTANT Variant = "Dev_keep"
INVARIANT RuleSound
CHECK_DEADLOCK FALSE
