CONSTANTS
  Bases = {"x", "loop"}
  MaxCtx = 3
  MaxDefs = 4
SPECIFICATION Spec
INVARIANT TwinsOnly
INVARIANT SSA
CHECK_DEADLOCK FALSE
