SPECIFICATION Spec
INVARIANT DivLaws
INVARIANT RoundLaws
INVARIANT VecLaws
INVARIANT DotLaws
INVARIANT EmitDone
CHECK_DEADLOCK FALSE
