SPECIFICATION Spec
INVARIANT DivLaws
INVARIANT RoundLaws
INVARIANT VecLaws
INVARIANT EmitDone
CHECK_DEADLOCK FALSE
