CONSTANTS
  Slots <- MCSlots
  Missing <- MCMissing
  LeafSpecs <- MCLeafSpecs
  FnSlots <- MCFnSlots
  MaxDepth = 2
  MaxConv = 3
  LifoRestore = TRUE
  MaxBuilds = 2
SPECIFICATION Spec
INVARIANT Quiescent
INVARIANT EmitAtIdle
CHECK_DEADLOCK FALSE
