SPECIFICATION Spec
CONSTANT Variant = "leftpad"
INVARIANT RuleSound
CHECK_DEADLOCK FALSE
