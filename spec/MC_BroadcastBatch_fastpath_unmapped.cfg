SPECIFICATION Spec
CONSTANT Variant = "fastpath_unmapped"
INVARIANT RuleSound
CHECK_DEADLOCK FALSE
