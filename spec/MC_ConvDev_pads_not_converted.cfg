SPECIFICATION Spec
CONSTANT Dev = "pads_not_converted"
INVARIANT LoweringSound
INVARIANT LengthLaw
CHECK_DEADLOCK FALSE
