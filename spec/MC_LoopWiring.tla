---- MODULE MC_LoopWiring ----
EXTENDS J2O_LoopWiring
====
