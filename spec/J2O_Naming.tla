--------------------------------- MODULE J2O_Naming ---------------------------------
(***************************************************************************)
(* Value naming and scoping during lowering (property C03, structural      *)
(* part).  Contexts form a tree: the top graph, Loop/If body contexts       *)
(* (make_subgraph_context) and function scopes.  Mechanism transcribed:     *)
(*   * every context owns TWO independent counter families: the context's   *)
(*     fresh_name(base) -> base_i and its builder's fresh_name(base) ->     *)
(*     base_i.  They may hand out the same name for the same base;          *)
(*   * a body context prefixes every fresh name with a prefix obtained from  *)
(*     the PARENT's context counter (prefix_k/base_i), so sibling bodies     *)
(*     and parent/child never clash;                                         *)
(*   * a function scope is a separate namespace;                             *)
(*   * the name_fix pass (first optimizer pass) renames later duplicates so  *)
(*     that the final model is in SSA form.                                  *)
(* Names are tuples <<path, base, index>>; a definition is (scope, name).    *)
(* Invariants: before name_fix duplicates can only be ctx/builder twins of   *)
(* one base in one context (TwinsOnly); after name_fix every name visible    *)
(* along a scope chain is defined once (SSA, no shadowing).                  *)
(***************************************************************************)
EXTENDS Integers, Sequences, FiniteSets, TLC

CONSTANTS Bases, MaxCtx, MaxDefs

VARIABLES ctxs,      \* sequence of contexts [parent, kind, path, cctr, bctr]
          defs,      \* sequence of definitions [ctx, name, fam]
          fixed      \* name_fix has run
vars == <<ctxs, defs, fixed>>

Top == [parent |-> 0, kind |-> "main", path |-> <<>>, cctr |-> [b \in Bases |-> 0], bctr |-> [b \in Bases |-> 0]]
Init == ctxs = <<Top>> /\ defs = <<>> /\ fixed = FALSE

NameOf(c, base, i) == <<ctxs[c].path, base, i>>

FreshCtx(c, base) ==
    /\ ~fixed /\ Len(defs) < MaxDefs
    /\ defs' = Append(defs, [ctx |-> c, name |-> NameOf(c, base, ctxs[c].cctr[base]), fam |-> "ctx", n |-> 0])
    /\ ctxs' = [ctxs EXCEPT ![c].cctr[base] = @ + 1]
    /\ UNCHANGED fixed

FreshBuilder(c, base) ==
    /\ ~fixed /\ Len(defs) < MaxDefs
    /\ defs' = Append(defs, [ctx |-> c, name |-> NameOf(c, base, ctxs[c].bctr[base]), fam |-> "builder", n |-> 0])
    /\ ctxs' = [ctxs EXCEPT ![c].bctr[base] = @ + 1]
    /\ UNCHANGED fixed

OpenBody(c, base) ==       \* make_subgraph_context(parent, prefix=base)
    /\ ~fixed /\ Len(ctxs) < MaxCtx
    /\ ctxs' = [Append(ctxs, [parent |-> c, kind |-> "body", path |-> Append(ctxs[c].path, <<base, ctxs[c].cctr[base]>>),
                              cctr |-> [b \in Bases |-> 0], bctr |-> [b \in Bases |-> 0]])
                 EXCEPT ![c].cctr[base] = @ + 1]
    /\ UNCHANGED <<defs, fixed>>

OpenFunction(c) ==         \* FunctionScope: own namespace, names restart
    /\ ~fixed /\ Len(ctxs) < MaxCtx
    /\ ctxs' = Append(ctxs, [parent |-> 0, kind |-> "function", path |-> <<>>,
                              cctr |-> [b \in Bases |-> 0], bctr |-> [b \in Bases |-> 0]])
    /\ UNCHANGED <<defs, fixed>>

\* scope chain of a context: itself and its ancestors up to the main graph / the function root
RECURSIVE Chain(_)
Chain(c) == IF c = 0 THEN {} ELSE {c} \cup Chain(ctxs[c].parent)
Visible(c, d) == c \in Chain(d) \/ d \in Chain(c)

\* name_fix: the k-th later definition of a name already visible gets a fresh suffix
NameFix ==
    /\ ~fixed
    /\ fixed' = TRUE
    /\ defs' = [i \in 1..Len(defs) |->
                  [defs[i] EXCEPT !.n = Cardinality({j \in 1..(i - 1) : defs[j].name = defs[i].name /\ Visible(defs[j].ctx, defs[i].ctx)})]]
    /\ UNCHANGED ctxs

Next == \/ \E c \in 1..Len(ctxs), b \in Bases : FreshCtx(c, b) \/ FreshBuilder(c, b) \/ OpenBody(c, b)
        \/ \E c \in 1..Len(ctxs) : OpenFunction(c)
        \/ NameFix
Spec == Init /\ [][Next]_vars

Final(i) == <<defs[i].name, defs[i].n>>
Clash(i, j) == i # j /\ Final(i) = Final(j) /\ Visible(defs[i].ctx, defs[j].ctx)

\* before name_fix, two visible definitions can share a name only as ctx/builder twins in ONE context
TwinsOnly == ~fixed => \A i, j \in 1..Len(defs) : Clash(i, j) => (defs[i].ctx = defs[j].ctx /\ defs[i].fam # defs[j].fam)
\* after name_fix: single assignment along every scope chain, no shadowing
SSA == fixed => \A i, j \in 1..Len(defs) : ~Clash(i, j)
=============================================================================
