CONSTANTS
  MaxSites = 2
  Unique = FALSE
  Kws = {"none", "s1", "s2", "traced", "param", "ab", "ba"}
  Scopes = {"top", "body"}
SPECIFICATION Spec
INVARIANT DedupSound
INVARIANT CallArity
INVARIANT CallBinding
INVARIANT NamesUnique
INVARIANT ResolvedSound
INVARIANT DistinctWhenDifferent
INVARIANT EmitDone
CHECK_DEADLOCK FALSE
