CONSTANTS
  MaxSites = 2
  Unique = FALSE
SPECIFICATION Spec
INVARIANT DedupSound
INVARIANT CallArity
INVARIANT DistinctWhenDifferent
INVARIANT EmitDone
CHECK_DEADLOCK FALSE
