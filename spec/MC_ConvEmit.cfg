SPECIFICATION Spec
CONSTANT Dev = "none"
INVARIANT Emit
CHECK_DEADLOCK FALSE
