---- MODULE MC_CFEmit ----
EXTENDS J2O_ControlFlow, Json
\* Emit, for every program whose machines have both halted, the program (as tables) and the
\* result the specification predicts; the harness runs the real exported model on it.
SSeq == [i \in 1..Cardinality(S) |-> i - 1]
Tab(f) == [i \in 1..Cardinality(S) |-> f[i - 1]]
Rec ==
  CASE kind = "while" -> [k |-> kind, tb |-> Tab(prog.b), tc |-> Tab(prog.c), s0 |-> prog.s0, s |-> js, n |-> jn]
    [] kind = "vwhile" -> [k |-> kind, tb |-> Tab(prog.b), tc |-> Tab(prog.c), s0 |-> <<prog.s0[1], prog.s0[2]>>,
                           s |-> <<js[1], js[2]>>, n |-> <<jn[1], jn[2]>>]
    [] kind = "fori" -> [k |-> kind, tb |-> [i \in 1..3 |-> [j \in 1..Cardinality(S) |-> prog.b[<<i - 1, j - 1>>]]],
                         lo |-> prog.bd[1], hi |-> prog.bd[2], s0 |-> prog.s0, s |-> js, n |-> jn]
    [] kind = "scan" -> [k |-> kind, tf |-> [i \in 1..Cardinality(S) |-> <<prog.f[<<i - 1, 0>>], prog.f[<<i - 1, 1>>]>>],
                         c0 |-> prog.c0, xs |-> prog.xs, s |-> js, ys |-> JaxYs, n |-> jn, rev |-> prog.rev, hx |-> prog.hx, reject |-> ScanRejected]
    [] kind = "cond" -> [k |-> kind, idx |-> prog.idx, t0 |-> Tab(prog.br[0]), t1 |-> Tab(prog.br[1]), s0 |-> prog.s, s |-> js]
EmitDone == (JaxDone /\ OnnxDone) => PrintT(ToJson(Rec))
====
