---- MODULE MC_FileModes ----
EXTENDS J2O_FileModes, Json
EmitAll == (n = MaxExports) => PrintT(ToJson([hist |-> hist, ext |-> file.ext, sidecar |-> sidecar.exists, stale |-> (sidecar.exists /\ sidecar.model # file.model)]))
====
