---- MODULE MC_HostFifo ----
EXTENDS J2O_Host, Json, J2O_HostFacts
MCSlots == {"s1", "s2", "s3", "s4"}
\* s4 is inherited from s1 (a subclass method defined by its base class) and patched by a third plugin
MCInherit == ("s4" :> "s1")
MCMissing == {"s3"}
\* s1 is patched by both plugins (like the 28 duplicate keys of the real registry),
\* s3 does not exist before patching (delete-on-restore)
\* FactWithinDup (extracted from the working tree): some plugin patches one key twice in its
\* own spec list, which makes the restore order INSIDE a frame observable
MCLeafSpecs == IF TRUE THEN << <<"s3", "s1", "s3">>, <<"s1", "s2">> >>
               ELSE << <<"s3", "s1">>, <<"s1", "s2">> >>
MCFnSlots == <<"f1", "f2">>
\* simulation: print the history whenever a behaviour is back at quiescence
EmitAtIdle == (pc.s = "idle" /\ nconv >= 1) => PrintT(ToJson(log))
====
