---- MODULE MC_Promotion ----
EXTENDS J2O_Promotion, Json
EmitDone == done => PrintT(ToJson([c |-> case, r |-> [cls |-> res.cls, w |-> res.w]]))
====
