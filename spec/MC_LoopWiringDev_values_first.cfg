SPECIFICATION Spec
CONSTANT Dev = "values_first"
INVARIANT AnnotationsMatchRuntime
INVARIANT ArityMatches
INVARIANT ValuesLast
CHECK_DEADLOCK FALSE
