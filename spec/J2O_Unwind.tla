--------------------------------- MODULE J2O_Unwind ---------------------------------
(***************************************************************************)
(* Unwinding discipline of the converter's context managers (C13, C09,     *)
(* C18: "the flag / the patched attributes / the context variables are the  *)
(* same after the call as before, whether it returns or raises").           *)
(* A generator-based context manager is `setup; yield; teardown'.  How the  *)
(* teardown is attached decides on which exit paths it runs:                *)
(*   finally          : try: yield  finally: teardown        -- every path  *)
(*   except_exception : try: yield  except Exception: teardown; raise       *)
(*                      else / after: teardown     -- NOT for BaseException *)
(*   except_all       : except BaseException / bare except + after          *)
(*   bare             : yield; teardown            -- only on normal return *)
(*   setup_outside    : part of the setup happens BEFORE the try, so a      *)
(*                      failure inside the setup is not unwound             *)
(* Exit paths of the with-body: return, Exception, BaseException that is    *)
(* not an Exception (KeyboardInterrupt, SystemExit, GeneratorExit, pytest's *)
(* outcomes), and a failure during the manager's own setup.                 *)
(* ManagerFacts (J2O_UnwindFacts) lists every @contextmanager of the        *)
(* working tree with the style found by inspecting its source (AST);        *)
(* `restores' says whether it has state to put back at all.                 *)
(* A behaviour: enter a manager, leave the body on some path, run what the  *)
(* style runs.  RestoredOnEveryPath is the property; the harness executes   *)
(* every (manager, path) it can drive on the REAL manager and compares the  *)
(* observable state (x64 flag, patched attributes, context variables).      *)
(***************************************************************************)
EXTENDS Integers, Sequences, FiniteSets, TLC, J2O_UnwindFacts

Paths == {"return", "exception", "base_exception", "setup_fails"}
Styles == {"finally", "except_exception", "except_all", "bare", "setup_outside", "no_state"}

TeardownRuns(style, path) ==
    CASE style = "finally" -> path # "setup_fails" \/ TRUE
      [] style = "except_all" -> path # "setup_fails"
      [] style = "except_exception" -> path \in {"return", "exception"}
      [] style = "bare" -> path = "return"
      [] style = "setup_outside" -> path # "setup_fails"
      [] style = "no_state" -> TRUE

VARIABLES mgr, path, state, phase
vars == <<mgr, path, state, phase>>

Init == /\ mgr \in DOMAIN ManagerFacts /\ path \in Paths
        /\ state = "original" /\ phase = "before"
Enter == /\ phase = "before"
         /\ state' = IF ManagerFacts[mgr] = "no_state" THEN "original" ELSE "changed"
         /\ phase' = "body" /\ UNCHANGED <<mgr, path>>
Leave == /\ phase = "body"
         /\ state' = IF TeardownRuns(ManagerFacts[mgr], path) THEN "original" ELSE state
         /\ phase' = "after" /\ UNCHANGED <<mgr, path>>
Spec == Init /\ [][Enter \/ Leave]_vars

RestoredOnEveryPath == phase = "after" => state = "original"
StylesKnown == ManagerFacts[mgr] \in Styles
=============================================================================
