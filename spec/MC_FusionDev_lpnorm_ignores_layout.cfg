SPECIFICATION Spec
CONSTANT Dev = "lpnorm_ignores_layout"
INVARIANT FusionSound
INVARIANT LpNormSound
INVARIANT DigitizeLaws
CHECK_DEADLOCK FALSE
