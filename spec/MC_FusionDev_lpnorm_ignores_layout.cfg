SPECIFICATION Spec
CONSTANT Dev = "lpnorm_ignores_layout"
INVARIANT FusionSound
INVARIANT LpNormSound
INVARIANT MeanSound
INVARIANT NormLaws
INVARIANT DigitizeLaws
CHECK_DEADLOCK FALSE
