SPECIFICATION Spec
CONSTANT Dev = "lpnorm_ignores_layout"
INVARIANT FusionSound
INVARIANT LpNormSound
INVARIANT MeanSound
INVARIANT DigitizeLaws
CHECK_DEADLOCK FALSE
