---------------------------- MODULE J2O_GraphRewrite ----------------------------
(***************************************************************************)
(* The export-time optimizer as a guarded term-rewriting system over small *)
(* ONNX graphs (properties C02, C08 shapes, C12 boundary transposes, C16    *)
(* abort after any prefix, C17 cast folding).                               *)
(*                                                                         *)
(* State: the current graph g and the initial graph g0.  A graph is         *)
(*   nodes : id -> [op, ins (sequence of refs), perm / axes / to / shape]   *)
(*   ins   : input index -> [sh, dt]      consts : name -> [sh, dt]         *)
(*   outs  : sequence of refs             (a ref is <<"in",k>>, <<"k",c>>,  *)
(*                                          or <<"n",id>>)                  *)
(* Every action is one rewrite rule with the guard that makes it sound;     *)
(* the denotation of every graph output (J2O_Tensor, free term algebra)     *)
(* must not change.  The guards the implementation actually has are         *)
(* compared against this by replaying every initial graph through the real  *)
(* passes (harness), so rule guards here are the SPECIFICATION, not a       *)
(* transcript of the code; known over-eager folds of the code are the       *)
(* named deviations at the end (never enabled in the checked Next).         *)
(***************************************************************************)
EXTENDS J2O_Tensor, J2O_Patterns

VARIABLES g, g0, steps
vars == <<g, g0, steps>>

Ids(gr) == DOMAIN gr.nodes
Node(gr, id) == gr.nodes[id]
NRef(id) == <<"n", id>>

RECURSIVE Val(_, _)
Val(gr, r) ==
    CASE r[1] = "in" -> InputT(r[2], gr.ins[r[2]].sh, gr.ins[r[2]].dt)
      [] r[1] = "k" -> ConstT(r[2], gr.consts[r[2]].sh, gr.consts[r[2]].dt)
      [] r[1] = "n" ->
           LET nd == gr.nodes[r[2]] IN
           CASE nd.op = "Transpose" -> TransposeT(Val(gr, nd.ins[1]), nd.perm)
             [] nd.op = "Reshape" -> ReshapeT(Val(gr, nd.ins[1]), nd.shape)
             [] nd.op = "ReduceMean" -> ReduceT(Val(gr, nd.ins[1]), nd.axes)
             [] nd.op = "Cast" -> CastT(nd.to, Val(gr, nd.ins[1]), SafeCasts)
             [] nd.op = "Capture" -> UnT("capture", Val(gr, nd.ins[1]))     \* an If node whose nested body reads the value
             [] nd.op \in UnaryOps -> UnT(nd.op, Val(gr, nd.ins[1]))
             [] nd.op \in BinaryOps -> BinT(nd.op, Val(gr, nd.ins[1]), Val(gr, nd.ins[2]))
             [] OTHER -> Invalid

Consumers(gr, r) == {id \in Ids(gr) : \E i \in 1..Len(gr.nodes[id].ins) : gr.nodes[id].ins[i] = r}
IsOut(gr, r) == \E i \in 1..Len(gr.outs) : gr.outs[i] = r
IsNode(gr, r) == r[1] = "n" /\ r[2] \in Ids(gr)
OpOf(gr, r) == IF IsNode(gr, r) THEN gr.nodes[r[2]].op ELSE "none"

Subst(seq, old, new) == [i \in 1..Len(seq) |-> IF seq[i] = old THEN new ELSE seq[i]]
ReplaceUses(gr, old, new) ==
    [gr EXCEPT !.nodes = [id \in Ids(gr) |-> [gr.nodes[id] EXCEPT !.ins = Subst(@, old, new)]],
               !.outs = Subst(@, old, new)]
Remove(gr, ids) == [gr EXCEPT !.nodes = [id \in Ids(gr) \ ids |-> gr.nodes[id]]]
SetNode(gr, id, nd) == [gr EXCEPT !.nodes = [i \in Ids(gr) |-> IF i = id THEN nd ELSE gr.nodes[i]]]

\* a side operand that does not care about layout: a constant with one element
ScalarRef(gr, r) == r[1] = "k" /\ Prod(gr.consts[r[2]].sh) = 1
\* value only flows to `to' : single consumer, not observed as a graph output
PrivateTo(gr, r, to) == Consumers(gr, r) = {to} /\ ~IsOut(gr, r)

LayoutFree(gr, id, from) ==      \* node id is elementwise on `from' with layout-free side operands
    LET nd == gr.nodes[id] IN
    \/ nd.op \in UnaryOps \cup {"Cast"} /\ nd.ins[1] = from
    \/ /\ nd.op \in BinaryOps
       /\ \E i \in 1..2 : nd.ins[i] = from
       /\ \A i \in 1..2 : nd.ins[i] = from \/ ScalarRef(gr, nd.ins[i])

\* only graphs that are valid to begin with are in the domain of the property
ValidGraph(gr) == \A i \in 1..Len(gr.outs) : ~Val(gr, gr.outs[i]).bad
ValidPatterns == {p \in Patterns : ValidGraph(p)}

Init == /\ g0 \in ValidPatterns
        /\ g = g0
        /\ steps = 0

---------------------------------------------------------------------------
(* Rewrite rules *)

\* Transpose(p2)(Transpose(p1)(x)) = x  when p2 undoes p1; T1 may have other consumers
FoldTransposePair(t1, t2) ==
    /\ OpOf(g, NRef(t1)) = "Transpose" /\ OpOf(g, NRef(t2)) = "Transpose"
    /\ g.nodes[t2].ins[1] = NRef(t1)
    /\ InversePerm(g.nodes[t1].perm, g.nodes[t2].perm)
    /\ g' = Remove(ReplaceUses(g, NRef(t2), g.nodes[t1].ins[1]), {t2})

\* T1 -> e -> T2 with a layout-free elementwise node in between (chains fold by repetition:
\* the rule moves ONE node in front of T1's layout, so longer chains take several steps)
HoistThroughTranspose(t1, e) ==
    /\ OpOf(g, NRef(t1)) = "Transpose" /\ e \in Ids(g) /\ e # t1
    /\ LayoutFree(g, e, NRef(t1))
    /\ PrivateTo(g, NRef(t1), e)
    \* e(T1(x)) = T1(e(x)): swap the two nodes
    /\ LET x == g.nodes[t1].ins[1]
           nd == g.nodes[e]
           e2 == [nd EXCEPT !.ins = Subst(@, NRef(t1), x)]
           t2 == [g.nodes[t1] EXCEPT !.ins = <<NRef(e)>>]
           swapped == SetNode(SetNode(g, e, e2), t1, t2)
       IN \* consumers of e now read the transposed value from t1
          g' = [swapped EXCEPT
                  !.nodes = [id \in Ids(g) |->
                               IF id = t1 THEN swapped.nodes[id]
                               ELSE [swapped.nodes[id] EXCEPT !.ins = Subst(@, NRef(e), NRef(t1))]],
                  !.outs = Subst(@, NRef(e), NRef(t1))]

\* R1 -> e -> R2 with a layout-free elementwise node in between: e(Reshape(x)) = Reshape(e(x)).
\* (remove_redundant_reshape_pairs folds the whole chain at once and must then refresh the declared
\* shape of every moved node, producer first -- a stale declaration makes a later identity-Reshape
\* test misfire; the RChain patterns with a follow-up Reshape exercise exactly that.)
HoistThroughReshape(r1, e) ==
    /\ OpOf(g, NRef(r1)) = "Reshape" /\ e \in Ids(g) /\ e # r1
    /\ LayoutFree(g, e, NRef(r1))
    /\ PrivateTo(g, NRef(r1), e)
    /\ LET x == g.nodes[r1].ins[1]
           nd == g.nodes[e]
           e2 == [nd EXCEPT !.ins = Subst(@, NRef(r1), x)]
           r2 == [g.nodes[r1] EXCEPT !.ins = <<NRef(e)>>]
           swapped == SetNode(SetNode(g, e, e2), r1, r2)
       IN g' = [swapped EXCEPT
                  !.nodes = [id \in Ids(g) |->
                               IF id = r1 THEN swapped.nodes[id]
                               ELSE [swapped.nodes[id] EXCEPT !.ins = Subst(@, NRef(e), NRef(r1))]],
                  !.outs = Subst(@, NRef(e), NRef(r1))]

\* T1 -> ReduceMean(keepdims) -> T2  ==>  ReduceMean(mapped axes)
FoldTransposeReduce(t1, rd, t2) ==
    /\ OpOf(g, NRef(t1)) = "Transpose" /\ OpOf(g, NRef(rd)) = "ReduceMean" /\ OpOf(g, NRef(t2)) = "Transpose"
    /\ g.nodes[rd].ins[1] = NRef(t1) /\ g.nodes[t2].ins[1] = NRef(rd)
    /\ InversePerm(g.nodes[t1].perm, g.nodes[t2].perm)
    /\ PrivateTo(g, NRef(rd), t2)
    /\ LET p1 == g.nodes[t1].perm
           nr == [g.nodes[rd] EXCEPT !.ins = <<g.nodes[t1].ins[1]>>,
                                     !.axes = {p1[a + 1] : a \in g.nodes[rd].axes}]
       IN g' = Remove(ReplaceUses(SetNode(g, rd, nr), NRef(t2), NRef(rd)), {t2})

\* Add(T(x), T(y)) -> Tinv   ==>  Add(x, y)
LiftAdd(a, t3) ==
    /\ OpOf(g, NRef(a)) = "Add" /\ OpOf(g, NRef(t3)) = "Transpose"
    /\ g.nodes[t3].ins[1] = NRef(a)
    /\ PrivateTo(g, NRef(a), t3)
    /\ LET i1 == g.nodes[a].ins[1]  i2 == g.nodes[a].ins[2] IN
       /\ OpOf(g, i1) = "Transpose" /\ OpOf(g, i2) = "Transpose"
       /\ g.nodes[i1[2]].perm = g.nodes[i2[2]].perm
       /\ InversePerm(g.nodes[i1[2]].perm, g.nodes[t3].perm)
       /\ LET na == [g.nodes[a] EXCEPT !.ins = <<g.nodes[i1[2]].ins[1], g.nodes[i2[2]].ins[1]>>]
          IN g' = Remove(ReplaceUses(SetNode(g, a, na), NRef(t3), NRef(a)), {t3})

\* Reshape(s2)(Reshape(s1)(x)) = x when s2 is x's shape (same concrete sizes AND same symbols)
FoldReshapePair(r1, r2) ==
    /\ OpOf(g, NRef(r1)) = "Reshape" /\ OpOf(g, NRef(r2)) = "Reshape"
    /\ g.nodes[r2].ins[1] = NRef(r1)
    /\ PrivateTo(g, NRef(r1), r2)
    /\ g.nodes[r2].meta = g.nodes[r1].srcmeta          \* declared dims equal token by token
    /\ g.nodes[r2].shape = Val(g, g.nodes[r1].ins[1]).sh
    /\ g' = Remove(ReplaceUses(g, NRef(r2), g.nodes[r1].ins[1]), {r1, r2})

DropIdentityReshape(r) ==
    /\ OpOf(g, NRef(r)) = "Reshape"
    /\ g.nodes[r].static                                 \* target given by integer constants only
    /\ g.nodes[r].shape = Val(g, g.nodes[r].ins[1]).sh
    /\ g.nodes[r].meta = g.nodes[r].srcmeta
    /\ g' = Remove(ReplaceUses(g, NRef(r), g.nodes[r].ins[1]), {r})

\* Cast(T)(Cast(U)(x : T)) = x when the round trip is value preserving; a Cast to the type a
\* value already has is the identity.  An observed intermediate keeps its Cast.
FoldCastPair(c1, c2) ==
    /\ OpOf(g, NRef(c1)) = "Cast" /\ OpOf(g, NRef(c2)) = "Cast"
    /\ g.nodes[c2].ins[1] = NRef(c1)
    /\ LET x == g.nodes[c1].ins[1]  tx == Val(g, x).dt IN
       /\ g.nodes[c2].to = tx
       /\ <<tx, g.nodes[c1].to>> \in SafeCasts
       /\ g' = LET h == ReplaceUses(g, NRef(c2), x)
               IN IF Consumers(h, NRef(c1)) = {} /\ ~IsOut(h, NRef(c1))
                    THEN Remove(h, {c1, c2}) ELSE Remove(h, {c2})

DropNoopCast(c) ==
    /\ OpOf(g, NRef(c)) = "Cast"
    /\ Val(g, g.nodes[c].ins[1]).dt = g.nodes[c].to
    /\ g' = Remove(ReplaceUses(g, NRef(c), g.nodes[c].ins[1]), {c})

\* Mul(x, Sigmoid(x)) ==> Swish(x)
MulSigmoidToSwish(m, sg) ==
    /\ OpOf(g, NRef(m)) = "Mul" /\ OpOf(g, NRef(sg)) = "Sigmoid"
    /\ PrivateTo(g, NRef(sg), m)
    /\ LET x == g.nodes[sg].ins[1] IN
       /\ {g.nodes[m].ins[1], g.nodes[m].ins[2]} = {x, NRef(sg)}
       /\ g' = Remove(SetNode(g, m, [g.nodes[m] EXCEPT !.op = "Swish", !.ins = <<x>>]), {sg})

Dce(id) ==
    /\ id \in Ids(g)
    /\ Consumers(g, NRef(id)) = {} /\ ~IsOut(g, NRef(id))
    /\ g' = Remove(g, {id})

Tick == steps' = steps + 1 /\ UNCHANGED g0
R_FoldTransposePair == (\E a, b \in Ids(g) : FoldTransposePair(a, b)) /\ Tick
R_HoistThroughTranspose == (\E a, b \in Ids(g) : HoistThroughTranspose(a, b)) /\ Tick
R_HoistThroughReshape == (\E a, b \in Ids(g) : HoistThroughReshape(a, b)) /\ Tick
R_LiftAdd == (\E a, b \in Ids(g) : LiftAdd(a, b)) /\ Tick
R_FoldReshapePair == (\E a, b \in Ids(g) : FoldReshapePair(a, b)) /\ Tick
R_FoldCastPair == (\E a, b \in Ids(g) : FoldCastPair(a, b)) /\ Tick
R_MulSigmoidToSwish == (\E a, b \in Ids(g) : MulSigmoidToSwish(a, b)) /\ Tick
R_FoldTransposeReduce == (\E a, b, c \in Ids(g) : FoldTransposeReduce(a, b, c)) /\ Tick
R_DropIdentityReshape == (\E a \in Ids(g) : DropIdentityReshape(a)) /\ Tick
R_DropNoopCast == (\E a \in Ids(g) : DropNoopCast(a)) /\ Tick
R_Dce == (\E a \in Ids(g) : Dce(a)) /\ Tick

Next == \/ R_FoldTransposePair \/ R_HoistThroughTranspose \/ R_HoistThroughReshape \/ R_LiftAdd \/ R_FoldReshapePair
        \/ R_FoldCastPair \/ R_MulSigmoidToSwish \/ R_FoldTransposeReduce
        \/ R_DropIdentityReshape \/ R_DropNoopCast \/ R_Dce
Spec == Init /\ [][Next]_vars

---------------------------------------------------------------------------
(* Properties: evaluated in EVERY state, i.e. after every prefix of rewrites (C16) *)
OutputsPreserved ==
    /\ Len(g.outs) = Len(g0.outs)
    /\ \A i \in 1..Len(g.outs) : Val(g, g.outs[i]) = Val(g0, g0.outs[i])

InitialGraphValid == \A i \in 1..Len(g0.outs) : ~Val(g0, g0.outs[i]).bad

\* well-formedness is kept: refs point to existing nodes
WellFormed ==
    /\ \A id \in Ids(g) : \A i \in 1..Len(g.nodes[id].ins) :
          LET r == g.nodes[id].ins[i] IN r[1] = "n" => r[2] \in Ids(g)
    /\ \A i \in 1..Len(g.outs) : g.outs[i][1] = "n" => g.outs[i][2] \in Ids(g)

---------------------------------------------------------------------------
(* Named deviations: folds the implementation performs today without the guard above.
   They are NOT part of Next; Dev_Next is used by the self test to show that the invariant
   rejects them, and their names label the known findings. *)
Dev_FoldAcrossNonScalarOperand(t1, e) ==      \* Case-1 chain of remove_redundant_transpose_pairs
    /\ OpOf(g, NRef(t1)) = "Transpose" /\ e \in Ids(g) /\ e # t1
    /\ g.nodes[e].op \in BinaryOps /\ g.nodes[e].ins[1] = NRef(t1)
    /\ ~ScalarRef(g, g.nodes[e].ins[2])
    /\ PrivateTo(g, NRef(t1), e)
    /\ LET x == g.nodes[t1].ins[1]
           e2 == [g.nodes[e] EXCEPT !.ins = Subst(@, NRef(t1), x)]
           t2 == [g.nodes[t1] EXCEPT !.ins = <<NRef(e)>>]
           swapped == SetNode(SetNode(g, e, e2), t1, t2)
       IN g' = [swapped EXCEPT
                  !.nodes = [id \in Ids(g) |->
                               IF id = t1 THEN swapped.nodes[id]
                               ELSE [swapped.nodes[id] EXCEPT !.ins = Subst(@, NRef(e), NRef(t1))]],
                  !.outs = Subst(@, NRef(e), NRef(t1))]

Dev_FoldReshapePairWildcardSymbols(r1, r2) == \* symbolic dims compared as wildcards
    /\ OpOf(g, NRef(r1)) = "Reshape" /\ OpOf(g, NRef(r2)) = "Reshape"
    /\ g.nodes[r2].ins[1] = NRef(r1)
    /\ PrivateTo(g, NRef(r1), r2)
    /\ Len(g.nodes[r2].meta) = Len(g.nodes[r1].srcmeta)
    /\ g' = Remove(ReplaceUses(g, NRef(r2), g.nodes[r1].ins[1]), {r1, r2})

D_FoldAcrossNonScalarOperand == (\E a, b \in Ids(g) : Dev_FoldAcrossNonScalarOperand(a, b)) /\ Tick
D_FoldReshapePairWildcardSymbols == (\E a, b \in Ids(g) : Dev_FoldReshapePairWildcardSymbols(a, b)) /\ Tick
DevNext == Next \/ D_FoldAcrossNonScalarOperand \/ D_FoldReshapePairWildcardSymbols
DevSpec == Init /\ [][DevNext]_vars
=============================================================================
