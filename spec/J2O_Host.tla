-------------------------------- MODULE J2O_Host --------------------------------
(***************************************************************************)
(* Host-process state touched by a conversion (properties C13, C09 flag,   *)
(* C14 freshness).  Implementation shaped: one action per step of          *)
(*   user_interface._temporary_x64, conversion_api._force_jax_x64,          *)
(*   plugin_system.apply_monkey_patches (ref-counted function patches),     *)
(*   _patching.apply_patches (leaf specs, LIFO restore, delete-if-missing), *)
(*   conversion_api._activate_plugin_worlds (ExitStack of the above),       *)
(*   plugin_system._activate_full_plugin_worlds_for_body (same stack while  *)
(*   an @onnx_function body is traced during lowering; leaf failures are    *)
(*   swallowed there) and the _IN_FUNCTION_BUILD ContextVar.                *)
(* Failure is possible at every patch application, in the traced body, in  *)
(* lowering and in post-processing; conversions may nest (a traced callable *)
(* that itself converts).  Python context managers are modelled as a stack *)
(* `ctxs' of open frames that is unwound one restoration per step.          *)
(***************************************************************************)
EXTENDS Integers, Sequences, FiniteSets, TLC

CONSTANTS Slots,        \* patched (target, attr) keys of leaf specs
          Missing,      \* subset of Slots that does not exist before patching
          LeafSpecs,    \* sequence (one entry per leaf plugin) of sequences of Slots
          FnSlots,      \* sequence of function-patch keys (the `touched' order)
          MaxDepth,     \* max nesting of conversions
          MaxConv,      \* max conversions started in a behaviour
          MaxBuilds,    \* max function-body builds per behaviour
          LifoRestore,  \* TRUE: restore in reverse order (the code); FALSE: self-test variant
          Inherit,      \* function: slot |-> the slot it INHERITS its value from (a method a class gets from its
                        \*   base, e.g. linen.MultiHeadAttention.__call__ from MultiHeadDotProductAttention): the
                        \*   target's own namespace has no such entry before patching
          SaveResolved  \* FALSE: the code (an inherited attribute is restored by deleting the override);
                        \*   TRUE: deviation -- getattr() result saved and written back with setattr

VARIABLES attr, fn, x64, x64init, inBuild, ctxs, pc, exc, skip, nconv, nbuild, serial, log
vars == <<attr, fn, x64, x64init, inBuild, ctxs, pc, exc, skip, nconv, nbuild, serial, log>>
view == <<attr, fn, x64, x64init, inBuild, ctxs, pc, exc, skip, nconv, nbuild>>

NLeaf == Len(LeafSpecs)
FnSet == {FnSlots[i] : i \in 1..Len(FnSlots)}
Orig(s) == IF s \in Missing THEN <<"missing">> ELSE IF s \in DOMAIN Inherit THEN <<"inherit", Inherit[s]>> ELSE <<"orig">>
\* what getattr(target, attr) returns: an inherited slot resolves through its base
Resolve(a, s) == IF a[s][1] = "inherit" THEN a[a[s][2]] ELSE a[s]
Attr0 == [s \in Slots |-> Orig(s)]
Fn0 == [f \in FnSet |-> [patched |-> FALSE, count |-> 0]]

PC(s, i, j) == [s |-> s, i |-> i, j |-> j]
Top == ctxs[Len(ctxs)]
Pop == SubSeq(ctxs, 1, Len(ctxs) - 1)
Push(c) == Append(ctxs, c)
Depth == Cardinality({k \in 1..Len(ctxs) : ctxs[k].k = "conv"})
OpenWorlds == Cardinality({k \in 1..Len(ctxs) : ctxs[k].k = "world"})
\* kind of the innermost open world ("trace" / "build")
InnerWorldKind ==
    LET ks == {k \in 1..Len(ctxs) : ctxs[k].k = "world"}
    IN IF ks = {} THEN "none" ELSE ctxs[CHOOSE k \in ks : \A m \in ks : m <= k].kind
\* history variable (hidden by VIEW): the choices taken plus the abstract state the
\* implementation must show at that point -- replayed into the real code by the harness
Snap(a, f, x, b) == [attr |-> a, fn |-> f, x64 |-> x, inb |-> b]
Ev(e) == log' = Append(log, [e |-> e, st |-> Snap(attr', fn', x64', inBuild')])

Init == /\ attr = Attr0
        /\ fn = Fn0
        /\ x64init \in BOOLEAN
        /\ x64 = x64init
        /\ inBuild = 0
        /\ ctxs = <<>>
        /\ pc = PC("idle", 0, 0)
        /\ exc = FALSE /\ skip = FALSE
        /\ nconv = 0 /\ nbuild = 0 /\ serial = 0
        /\ log = <<>>

---------------------------------------------------------------------------
(* Entering a conversion *)
BeginConversion(enable) ==
    /\ \/ pc.s = "idle"
       \/ pc.s = "body" /\ Depth < MaxDepth          \* re-entrant conversion from a traced body
    /\ nconv < MaxConv
    /\ nconv' = nconv + 1
    /\ ctxs' = Push([k |-> "conv", en |-> enable])
    /\ pc' = PC("tmp", 0, 0)
    /\ UNCHANGED <<attr, fn, x64, x64init, inBuild, exc, skip, nbuild, serial>>
    /\ Ev(<<"Begin", enable>>)

ConvEnable == LET ks == {k \in 1..Len(ctxs) : ctxs[k].k = "conv"}
              IN ctxs[CHOOSE k \in ks : \A m \in ks : m <= k].en

EnterTempX64 ==          \* user_interface._temporary_x64.__enter__
    /\ pc.s = "tmp"
    /\ ctxs' = Push([k |-> "tmpx64", prev |-> x64])
    /\ x64' = ConvEnable
    /\ pc' = PC("force", 0, 0)
    /\ UNCHANGED <<attr, fn, x64init, inBuild, exc, skip, nconv, nbuild, serial, log>>

EnterForceX64 ==         \* conversion_api._force_jax_x64.__enter__
    /\ pc.s = "force"
    /\ ctxs' = Push([k |-> "forcex64", prev |-> x64, target |-> ConvEnable])
    /\ x64' = ConvEnable
    /\ pc' = PC("world", 0, 0)
    /\ UNCHANGED <<attr, fn, x64init, inBuild, exc, skip, nconv, nbuild, serial, log>>

OpenWorld(kind) ==       \* _activate_plugin_worlds / _activate_full_plugin_worlds_for_body
    /\ ctxs' = ctxs \o <<[k |-> "world", kind |-> kind], [k |-> "fn", touched |-> <<>>]>>
    /\ serial' = serial + 1
    /\ pc' = PC("fn", 1, 0)

OpenTraceWorld ==
    /\ pc.s = "world"
    /\ OpenWorld("trace")
    /\ UNCHANGED <<attr, fn, x64, x64init, inBuild, exc, skip, nconv, nbuild, log>>

---------------------------------------------------------------------------
(* Function patches: apply_monkey_patches *)
ApplyFnPatch ==
    /\ pc.s = "fn" /\ pc.i <= Len(FnSlots)
    /\ LET f == FnSlots[pc.i] IN
       /\ fn' = [fn EXCEPT ![f] = IF @.count = 0 THEN [patched |-> TRUE, count |-> 1]
                                     ELSE [patched |-> @.patched, count |-> @.count + 1]]
       /\ ctxs' = [ctxs EXCEPT ![Len(ctxs)].touched = Append(@, f)]
    /\ pc' = PC("fn", pc.i + 1, 0)
    /\ UNCHANGED <<attr, x64, x64init, inBuild, exc, skip, nconv, nbuild, serial, log>>

FailFnPatch ==           \* patch_fn(orig) / getattr raises for the pc.i-th target
    /\ pc.s = "fn" /\ pc.i <= Len(FnSlots)
    /\ fn[FnSlots[pc.i]].count = 0         \* only a first application calls patch_fn
    /\ exc' = TRUE
    /\ pc' = PC("unwind", 0, 0)
    /\ UNCHANGED <<attr, fn, x64, x64init, inBuild, ctxs, skip, nconv, nbuild, serial>>
    /\ Ev(<<"FnFail", pc.i>>)

FnPatchesDone ==
    /\ pc.s = "fn" /\ pc.i > Len(FnSlots)
    /\ pc' = PC("leaf", 1, 1)
    /\ UNCHANGED <<attr, fn, x64, x64init, inBuild, ctxs, exc, skip, nconv, nbuild, serial, log>>

---------------------------------------------------------------------------
(* Leaf plugin bindings: apply_patches(cls.binding_specs()) per plugin *)
EnterLeaf ==
    /\ pc.s = "leaf" /\ pc.i <= NLeaf /\ pc.j = 1
    /\ ~(Top.k = "leaf" /\ Top.p = pc.i /\ Top.w = serial)
    /\ ctxs' = Push([k |-> "leaf", p |-> pc.i, w |-> serial, applied |-> <<>>])
    /\ UNCHANGED <<attr, fn, x64, x64init, inBuild, pc, exc, skip, nconv, nbuild, serial, log>>

LeafOpen == Top.k = "leaf" /\ Top.p = pc.i /\ Top.w = serial

ApplyLeafSpec ==
    /\ pc.s = "leaf" /\ pc.i <= NLeaf /\ LeafOpen
    /\ pc.j <= Len(LeafSpecs[pc.i])
    /\ LET s == LeafSpecs[pc.i][pc.j] IN
       /\ attr' = [attr EXCEPT ![s] = <<"sub", pc.i, pc.j, serial>>]
       /\ ctxs' = [ctxs EXCEPT ![Len(ctxs)].applied = Append(@, <<s, IF SaveResolved THEN Resolve(attr, s) ELSE attr[s]>>)]
    /\ pc' = PC("leaf", pc.i, pc.j + 1)
    /\ UNCHANGED <<fn, x64, x64init, inBuild, exc, skip, nconv, nbuild, serial, log>>

FailLeafSpec ==          \* make_value raises for spec pc.j of plugin pc.i
    /\ pc.s = "leaf" /\ pc.i <= NLeaf /\ LeafOpen
    /\ pc.j <= Len(LeafSpecs[pc.i])
    /\ IF InnerWorldKind = "build"
         THEN /\ skip' = TRUE /\ exc' = exc       \* swallowed: this frame unwinds, activation goes on
         ELSE /\ exc' = TRUE /\ skip' = skip
    /\ pc' = PC("unwind", pc.i, 0)
    /\ UNCHANGED <<attr, fn, x64, x64init, inBuild, ctxs, nconv, nbuild, serial>>
    /\ Ev(<<"LeafFail", pc.i, pc.j>>)

LeafPluginDone ==
    /\ pc.s = "leaf" /\ pc.i <= NLeaf /\ LeafOpen
    /\ pc.j > Len(LeafSpecs[pc.i])
    /\ pc' = PC("leaf", pc.i + 1, 1)
    /\ UNCHANGED <<attr, fn, x64, x64init, inBuild, ctxs, exc, skip, nconv, nbuild, serial, log>>

AllLeavesDone ==
    /\ pc.s = "leaf" /\ pc.i > NLeaf
    /\ pc' = PC("body", 0, 0)
    /\ UNCHANGED <<attr, fn, x64, x64init, inBuild, ctxs, exc, skip, nconv, nbuild, serial>>
    /\ Ev(<<"Active", InnerWorldKind>>)

---------------------------------------------------------------------------
(* The traced body (jax.make_jaxpr under the patches) *)
BodyOk ==
    /\ pc.s = "body"
    /\ pc' = PC("unwind", 0, 0)
    /\ UNCHANGED <<attr, fn, x64, x64init, inBuild, ctxs, exc, skip, nconv, nbuild, serial>>
    /\ Ev(<<"BodyOk">>)

BodyRaise ==
    /\ pc.s = "body"
    /\ exc' = TRUE
    /\ pc' = PC("unwind", 0, 0)
    /\ UNCHANGED <<attr, fn, x64, x64init, inBuild, ctxs, skip, nconv, nbuild, serial>>
    /\ Ev(<<"BodyRaise">>)

---------------------------------------------------------------------------
(* Lowering phase: patches are off; function bodies re-activate them *)
BeginBodyBuild ==
    /\ pc.s = "lower" /\ nbuild < MaxBuilds
    /\ nbuild' = nbuild + 1
    /\ inBuild' = inBuild + 1
    /\ ctxs' = ctxs \o <<[k |-> "inbuild", prev |-> inBuild],
                         [k |-> "world", kind |-> "build"], [k |-> "fn", touched |-> <<>>]>>
    /\ serial' = serial + 1
    /\ pc' = PC("fn", 1, 0)
    /\ UNCHANGED <<attr, fn, x64, x64init, exc, skip, nconv>>
    /\ Ev(<<"Build">>)

LowerRaise ==
    /\ pc.s = "lower"
    /\ exc' = TRUE
    /\ pc' = PC("unwind", 0, 0)
    /\ UNCHANGED <<attr, fn, x64, x64init, inBuild, ctxs, skip, nconv, nbuild, serial>>
    /\ Ev(<<"LowerRaise">>)

LowerDone ==
    /\ pc.s = "lower"
    /\ pc' = PC("post", 0, 0)
    /\ UNCHANGED <<attr, fn, x64, x64init, inBuild, ctxs, exc, skip, nconv, nbuild, serial>>
    /\ Ev(<<"LowerDone">>)

PostRaise ==             \* optimizer(strict) / postprocess / serialization raises
    /\ pc.s = "post"
    /\ exc' = TRUE
    /\ pc' = PC("unwind", 0, 0)
    /\ UNCHANGED <<attr, fn, x64, x64init, inBuild, ctxs, skip, nconv, nbuild, serial>>
    /\ Ev(<<"PostRaise">>)

PostOk ==
    /\ pc.s = "post"
    /\ pc' = PC("unwind", 1, 0)       \* i = 1: normal completion, unwind the x64 frames
    /\ UNCHANGED <<attr, fn, x64, x64init, inBuild, ctxs, exc, skip, nconv, nbuild, serial>>
    /\ Ev(<<"PostOk">>)

---------------------------------------------------------------------------
(* Unwinding: one restoration per step *)
RestoreLeafSpec ==
    /\ pc.s = "unwind" /\ Top.k = "leaf" /\ Top.applied # <<>>
    /\ LET n == Len(Top.applied)
           k == IF LifoRestore THEN n ELSE 1
           e == Top.applied[k] IN
       /\ attr' = [attr EXCEPT ![e[1]] = e[2]]     \* saved "missing" => delattr
       /\ ctxs' = [ctxs EXCEPT ![Len(ctxs)].applied =
                      SubSeq(Top.applied, 1, k - 1) \o SubSeq(Top.applied, k + 1, n)]
    /\ UNCHANGED <<fn, x64, x64init, inBuild, pc, exc, skip, nconv, nbuild, serial, log>>

PopLeafFrame ==
    /\ pc.s = "unwind" /\ Top.k = "leaf" /\ Top.applied = <<>>
    /\ ctxs' = Pop
    /\ IF skip THEN /\ skip' = FALSE
                    /\ pc' = PC("leaf", Top.p + 1, 1)   \* swallowed failure: next plugin
               ELSE UNCHANGED <<skip, pc>>
    /\ UNCHANGED <<attr, fn, x64, x64init, inBuild, exc, nconv, nbuild, serial, log>>

ReleaseFnPatch ==
    /\ pc.s = "unwind" /\ Top.k = "fn" /\ Top.touched # <<>>
    /\ LET f == Top.touched[Len(Top.touched)] IN
       fn' = [fn EXCEPT ![f] = IF @.count = 1 THEN [patched |-> FALSE, count |-> 0]
                                    ELSE [patched |-> @.patched, count |-> @.count - 1]]
    /\ ctxs' = [ctxs EXCEPT ![Len(ctxs)].touched = SubSeq(@, 1, Len(@) - 1)]
    /\ UNCHANGED <<attr, x64, x64init, inBuild, pc, exc, skip, nconv, nbuild, serial, log>>

PopFnFrame ==
    /\ pc.s = "unwind" /\ Top.k = "fn" /\ Top.touched = <<>>
    /\ ctxs' = Pop
    /\ UNCHANGED <<attr, fn, x64, x64init, inBuild, pc, exc, skip, nconv, nbuild, serial, log>>

PopWorld ==
    /\ pc.s = "unwind" /\ Top.k = "world"
    /\ ctxs' = Pop
    /\ pc' = IF ~exc /\ Top.kind = "trace" THEN PC("lower", 0, 0) ELSE pc
    /\ UNCHANGED <<attr, fn, x64, x64init, inBuild, exc, skip, nconv, nbuild, serial, log>>

PopInBuild ==            \* finally: _IN_FUNCTION_BUILD.set(active)
    /\ pc.s = "unwind" /\ Top.k = "inbuild"
    /\ inBuild' = Top.prev
    /\ ctxs' = Pop
    /\ pc' = IF ~exc THEN PC("lower", 0, 0) ELSE pc
    /\ UNCHANGED <<attr, fn, x64, x64init, exc, skip, nconv, nbuild, serial, log>>

ExitForceX64 ==
    /\ pc.s = "unwind" /\ Top.k = "forcex64"
    /\ x64' = IF Top.prev # Top.target THEN Top.prev ELSE x64
    /\ ctxs' = Pop
    /\ UNCHANGED <<attr, fn, x64init, inBuild, pc, exc, skip, nconv, nbuild, serial, log>>

ExitTempX64 ==
    /\ pc.s = "unwind" /\ Top.k = "tmpx64"
    /\ x64' = Top.prev
    /\ ctxs' = Pop
    /\ UNCHANGED <<attr, fn, x64init, inBuild, pc, exc, skip, nconv, nbuild, serial, log>>

EndConversion(caught) ==
    /\ pc.s = "unwind" /\ Top.k = "conv"
    /\ (caught => exc /\ Depth > 1)
    /\ ctxs' = Pop
    /\ IF Depth = 1
         THEN /\ pc' = PC("idle", 0, 0) /\ exc' = FALSE
         ELSE IF exc /\ ~caught
                THEN /\ pc' = PC("unwind", 0, 0) /\ exc' = TRUE       \* propagates through outer body
                ELSE /\ pc' = PC("body", 0, 0) /\ exc' = FALSE
    /\ UNCHANGED <<attr, fn, x64, x64init, inBuild, skip, nconv, nbuild, serial>>
    /\ Ev(<<"End", exc, caught>>)

Next ==
    \/ \E en \in BOOLEAN : BeginConversion(en)
    \/ EnterTempX64 \/ EnterForceX64 \/ OpenTraceWorld
    \/ ApplyFnPatch \/ FailFnPatch \/ FnPatchesDone
    \/ EnterLeaf \/ ApplyLeafSpec \/ FailLeafSpec \/ LeafPluginDone \/ AllLeavesDone
    \/ BodyOk \/ BodyRaise
    \/ BeginBodyBuild \/ LowerRaise \/ LowerDone \/ PostRaise \/ PostOk
    \/ RestoreLeafSpec \/ PopLeafFrame \/ ReleaseFnPatch \/ PopFnFrame \/ PopWorld \/ PopInBuild
    \/ ExitForceX64 \/ ExitTempX64
    \/ \E c \in BOOLEAN : EndConversion(c)

Spec == Init /\ [][Next]_vars

---------------------------------------------------------------------------
(* Properties *)
Pristine == attr = Attr0 /\ fn = Fn0

\* every attribute RESOLVES to the object it resolved to before (what a user of the library observes)
ResolvesAsBefore == pc.s = "idle" => \A s \in Slots : Resolve(attr, s) = Resolve(Attr0, s)

\* C13: at quiescence the process is as it was found
Quiescent == pc.s = "idle" => (Pristine /\ x64 = x64init /\ inBuild = 0 /\ ctxs = <<>>)

\* outside any activation (lowering, post-processing) no substitute is installed
NoLeakOutsideWorlds == OpenWorlds = 0 => Pristine

\* inside an activation that reached its body every slot is substituted by the
\* innermost activation (what tracing relies on)
ActiveInBody ==
    (pc.s = "body" /\ InnerWorldKind = "trace") =>
        /\ \A i \in 1..NLeaf : \A j \in 1..Len(LeafSpecs[i]) : attr[LeafSpecs[i][j]][1] = "sub"
        /\ \A f \in FnSet : fn[f].patched /\ fn[f].count >= 1

RefCounts == \A f \in FnSet : fn[f].count >= 0 /\ (fn[f].count = 0 <=> ~fn[f].patched)

\* C09 / C13: the flag seen by traced code is the requested one
FlagInBody == pc.s \in {"body", "lower", "post"} => x64 = ConvEnable

\* action property: a leaf frame is only popped when everything it applied is restored
FramesRestored == [][(Len(ctxs') < Len(ctxs) /\ Top.k = "leaf") => Top.applied = <<>>]_vars

StateConstraint == Len(log) <= 60
=============================================================================
