CONSTANTS
  Kinds <- MCKinds
  FailKinds <- MCFail
  TargetOf <- MCTarget
  MaxHist = 3
  Deviation = "none"
SPECIFICATION Spec
INVARIANT HistoryIndependent
INVARIANT EmitHist
CHECK_DEADLOCK FALSE
