SPECIFICATION Spec
INVARIANT OpsetHonoured
POSTCONDITION PostAccepted
CHECK_DEADLOCK FALSE
