SPECIFICATION Spec
CONSTANT Dev = "none"
INVARIANT AnnotationsMatchRuntime
INVARIANT ArityMatches
INVARIANT ValuesLast
CHECK_DEADLOCK FALSE
