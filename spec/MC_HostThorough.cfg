CONSTANTS
  Slots <- MCSlots
  Missing <- MCMissing
  LeafSpecs <- MCLeafSpecs
  FnSlots <- MCFnSlots
  MaxDepth = 2
  MaxConv = 3
  LifoRestore = TRUE
  MaxBuilds = 2
SPECIFICATION Spec
VIEW view
INVARIANT Quiescent
INVARIANT NoLeakOutsideWorlds
INVARIANT ActiveInBody
INVARIANT RefCounts
INVARIANT FlagInBody
PROPERTY FramesRestored
CHECK_DEADLOCK FALSE
