CONSTANTS
  MaxBits = 4
  MaxPrec = 4
  EMinMag = 3
  EMaxHi = 3
SPECIFICATION Spec
INVARIANT RoundTripSafe
INVARIANT ForwardExact
INVARIANT LemmaExact
CHECK_DEADLOCK FALSE
