#!/bin/sh
# setup_cmd: offline; parse every specification module, create scratch dirs.
cd "$(dirname "$0")" || exit 2
mkdir -p .work evidence replays
rc=0
for f in spec/*.tla; do
  case "$f" in
    *Facts*) continue;;
  esac
  # modules that EXTEND generated fact modules are parsed with empty stand-ins
  :
done
/venv/bin/python -m harness.sanity || rc=$?
exit $rc
