#!/bin/sh
# usage: seedqueue.sh C02 C14 ...   -- confirm + check every delivered variant of the listed properties, sequentially
cd "$(dirname "$0")/.." || exit 2
for p in "$@"; do
  git -C /repo worktree remove --force /tmp/seed/wt_$p >/dev/null 2>&1
  for d in /tmp/seed/out_$p/*/; do
    x=$(basename "$d")
    [ -f "$d/patch.diff" ] || continue
    tools/seedtest.py "$d" "$p-$x" "$p" > .work/seed_$p-$x.log 2>&1
  done
done
