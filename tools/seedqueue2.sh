#!/bin/sh
# wave 2: /tmp/seed2/out_<P>/{A,B} -> seeded/<P>-C, <P>-D
cd "$(dirname "$0")/.." || exit 2
for p in "$@"; do
  git -C /repo worktree remove --force /tmp/seed2/wt_$p >/dev/null 2>&1
  for x in A B; do
    d=/tmp/seed2/out_$p/$x
    [ -f "$d/patch.diff" ] || continue
    y=C; [ "$x" = "B" ] && y=D
    tools/seedtest.py "$d" "$p-$y" "$p" > .work/seed_$p-$y.log 2>&1
  done
done
