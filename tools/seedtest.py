#!/venv/bin/python
"""Confirm a seeded change and run checks against it.

usage: seedtest.py <src_dir> <seed_id> <property> [--checks C06,C01] [--tier quick] [--no-suite] [--no-check]

<src_dir> holds patch.diff, demo.py, meta.json (written by an independent sub-agent).  Steps:
  1. fresh detached worktree of /repo HEAD under /tmp/seedchk/<seed_id>
  2. demo.py on the clean tree must exit 0; apply patch; demo.py must exit non-zero
  3. pinned suite (808 tests) must still pass with the change   (skipped with --no-suite)
  4. J2O_REPO=<worktree> ./check <ID> --tier <tier> for every listed check: caught iff exit 1 + VIOLATION line
  5. results recorded in /verif/seeded/<seed_id>/ (patch.diff, demo.py, meta.json); worktree removed
Nothing is ever applied to /repo itself.
"""
import json
import os
import shutil
import subprocess
import sys
import time
from pathlib import Path

VERIF = Path(__file__).resolve().parent.parent


def sh(cmd, **kw):
    return subprocess.run(cmd, shell=isinstance(cmd, str), capture_output=True, text=True, **kw)


def main() -> int:
    a = sys.argv[1:]
    src, sid, prop = Path(a[0]), a[1], a[2]
    checks = [prop]
    tier = "quick"
    suite = True
    docheck = True
    i = 3
    while i < len(a):
        if a[i] == "--checks":
            checks = a[i + 1].split(",")
            i += 2
        elif a[i] == "--tier":
            tier = a[i + 1]
            i += 2
        elif a[i] == "--no-suite":
            suite = False
            i += 1
        elif a[i] == "--no-check":
            docheck = False
            i += 1
        else:
            raise SystemExit(f"bad arg {a[i]}")
    wt = Path("/tmp/seedchk") / sid
    wt.parent.mkdir(parents=True, exist_ok=True)
    if wt.exists():
        sh(f"git -C /repo worktree remove --force {wt}")
        shutil.rmtree(wt, ignore_errors=True)
    r = sh(f"git -C /repo worktree add --detach {wt} HEAD")
    if r.returncode:
        print(r.stderr)
        return 2
    dst = VERIF / "seeded" / sid
    dst.mkdir(parents=True, exist_ok=True)
    meta = {}
    if (src / "meta.json").exists():
        try:
            meta = json.loads((src / "meta.json").read_text())
        except Exception:  # noqa: BLE001
            meta = {"raw_meta": (src / "meta.json").read_text()[:2000]}
    old = {}
    if (dst / "meta.json").exists():
        try:
            old = json.loads((dst / "meta.json").read_text())
        except Exception:  # noqa: BLE001
            old = {}
    res = dict(old.get("confirmation", {}))
    res["repo_head"] = sh("git -C /repo rev-parse --short HEAD").stdout.strip()
    env = dict(os.environ, PYTHONPATH=str(wt), JAX_PLATFORMS="cpu")
    env.pop("J2O_VERIF_TRACE", None)
    try:
        if src.resolve() != dst.resolve():
            shutil.copy(src / "patch.diff", dst / "patch.diff")
            shutil.copy(src / "demo.py", dst / "demo.py")
        shutil.copy(dst / "demo.py", wt / "_seed_demo.py")
        t0 = time.time()
        r0 = sh(["/venv/bin/python", "_seed_demo.py"], cwd=wt, env=env, timeout=1800)
        res["demo_unchanged_rc"] = r0.returncode
        ap = sh(f"git -C {wt} apply {dst / 'patch.diff'}")
        res["patch_applies"] = ap.returncode == 0
        if ap.returncode:
            print("patch does not apply:", ap.stderr[:500])
        else:
            r1 = sh(["/venv/bin/python", "_seed_demo.py"], cwd=wt, env=env, timeout=1800)
            res["demo_changed_rc"] = r1.returncode
            res["demo_changed_tail"] = (r1.stdout + r1.stderr)[-600:]
            res["demo_wall_s"] = round(time.time() - t0, 1)
            if suite:
                rs = sh(["/venv/bin/python", str(VERIF / "tools" / "pinned.py"), str(wt), "-n", "6"], timeout=7200)
                res["pinned_suite"] = rs.stdout.strip().splitlines()[-1] if rs.returncode == 0 else rs.stdout[-1500:]
                res["pinned_suite_ok"] = rs.returncode == 0
            if docheck:
                cr = res.setdefault("checks", {})
                for c in checks:
                    t1 = time.time()
                    e2 = dict(os.environ, J2O_REPO=str(wt))
                    rc = sh([str(VERIF / "check"), c, "--tier", tier], env=e2, timeout=4 * 3600)
                    out = rc.stdout + rc.stderr
                    vio = [l for l in out.splitlines() if l.startswith("VIOLATION")]
                    whats = [l.strip()[:400] for l in out.splitlines() if l.strip().startswith("what:")]
                    cr[f"{c}:{tier}"] = {"rc": rc.returncode, "violations": len(vio), "caught": rc.returncode == 1 and bool(vio),
                                        "what": whats[:6], "wall_s": round(time.time() - t1, 1)}
                    (dst / f"check_{c}_{tier}.log").write_text(out[-20000:])
                    print(f"[{sid}] check {c} {tier}: rc={rc.returncode} violations={len(vio)}")
                    for w in whats[:4]:
                        print("    ", w[:300])
    finally:
        sh(f"git -C /repo worktree remove --force {wt}")
        shutil.rmtree(wt, ignore_errors=True)
        alt = VERIF / ".work" / "alt" / str(wt).strip("/").replace("/", "_")
        shutil.rmtree(alt, ignore_errors=True)
    meta["property"] = prop
    meta["seed_id"] = sid
    meta["confirmation"] = res
    (dst / "meta.json").write_text(json.dumps(meta, indent=1))
    ok = res.get("demo_unchanged_rc") == 0 and res.get("demo_changed_rc", 0) != 0 and res.get("pinned_suite_ok", True)
    print(f"[{sid}] confirmed={ok} demo {res.get('demo_unchanged_rc')}->{res.get('demo_changed_rc')} suite={res.get('pinned_suite')}")
    return 0 if ok else 1


if __name__ == "__main__":
    sys.exit(main())
