#!/venv/bin/python
"""Run the pinned test suite (808 stable tests of /root/.vp/BASELINE.json) in a given tree.

usage: pinned.py <tree> [-n WORKERS] [pytest args / paths ...]
Exit 0 iff every pinned test that was selected passed.  Prints the pinned tests that did not pass.
The tree is put first on PYTHONPATH so the editable install of /repo is shadowed.
"""
import json
import os
import subprocess
import sys
import tempfile
import xml.etree.ElementTree as ET


def main() -> int:
    tree = os.path.abspath(sys.argv[1])
    args = sys.argv[2:]
    nw = "8"
    if args[:1] == ["-n"]:
        nw = args[1]
        args = args[2:]
    stable = set(json.load(open("/root/.vp/BASELINE.json"))["stable_pass"])
    with tempfile.TemporaryDirectory() as td:
        xml = os.path.join(td, "r.xml")
        env = dict(os.environ)
        env.pop("J2O_VERIF_TRACE", None)
        env["PYTHONPATH"] = tree
        env["JAX_PLATFORMS"] = "cpu"
        cmd = ["/venv/bin/python", "-m", "pytest", "-q", "-p", "no:cacheprovider", "--timeout=900",
               "--continue-on-collection-errors", "-n", nw, f"--junitxml={xml}"] + args
        p = subprocess.run(cmd, cwd=tree, env=env, capture_output=True, text=True)
        tail = "\n".join(p.stdout.splitlines()[-3:])
        if not os.path.exists(xml):
            print(p.stdout[-3000:], p.stderr[-3000:])
            return 2
        seen = {}
        for tc in ET.parse(xml).getroot().iter("testcase"):
            tid = f"{tc.get('classname')}::{tc.get('name')}"
            bad = any(ch.tag in ("failure", "error", "skipped") for ch in tc)
            seen[tid] = not bad
    sel = [t for t in stable if t in seen] if args else sorted(stable)
    missing = [t for t in sel if not seen.get(t, False)]
    print(tail)
    print(f"pinned selected={len(sel)} passed={len(sel) - len(missing)} not_passed={len(missing)}")
    for t in missing[:40]:
        print("  NOT PASSED:", t)
    return 1 if missing else 0


if __name__ == "__main__":
    sys.exit(main())
