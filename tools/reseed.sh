#!/bin/sh
# re-run every kept seed against its property's check (and the extra checks named in seeded/<id>/also) on the
# current machinery; results land in seeded/<id>/meta.json
cd "$(dirname "$0")/.." || exit 2
for d in seeded/*/; do
  id=$(basename "$d"); p=$(echo "$id" | cut -d- -f1)
  extra=""
  [ -f "$d/also" ] && extra=",$(cat "$d/also")"
  tools/seedtest.py "$d" "$id" "$p" --no-suite --checks "$p$extra" > .work/reseed_$id.log 2>&1
done
