#!/venv/bin/python
"""Record the content hash of every plugin source file of /repo (baseline for C19's quick tier: substitutes
whose file changed since are always executed).  Re-run after every commit to /repo."""
import hashlib
import json
from pathlib import Path

root = Path("/repo")
out = {}
for f in sorted((root / "jax2onnx").rglob("*.py")):
    out[str(f.relative_to(root))] = hashlib.sha256(f.read_bytes()).hexdigest()[:16]
Path("/verif/harness/plugin_hashes.json").write_text(json.dumps(out, indent=0, sort_keys=True) + "\n")
print(len(out), "files")
