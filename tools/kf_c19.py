#!/usr/bin/env python3
"""Known-finding entries for C19 from the violation dump of an (exhaustive) thorough run on the
UNCHANGED tree (.work/C19.violations.json).  Used by hand after triage; checks never call it.

Per (substitute, what) the failing call forms are covered by a small set of argument changes
("alpha:pos", "x:kw", "strides:omitted", ...): every failing form contains at least one of them, so the
entry `delta__subset` explains exactly the forms that include that change.  Signature-level
rejections and non-default variations are listed one by one.
"""
import collections
import hashlib
import json
from pathlib import Path

root = Path(__file__).resolve().parent.parent
vs = json.loads((root / ".work" / "C19.violations.json").read_text())
kfp = root / "known_findings.json"
kf = [k for k in json.loads(kfp.read_text()) if not (k["property"] == "C19" and k.get("status", "open") == "open")]
new = []
groups = collections.defaultdict(list)
for v in vs:
    s = v["signature"]
    if s["engine"] == "callforms_sig" or "nondefault" in s:
        new.append((s, v["what"]))
    else:
        groups[(s["substitute"], s["what"])].append(v)
for (sub, what), items in sorted(groups.items()):
    left = list(items)
    while left:
        cnt = collections.Counter(d for v in left for d in v["signature"]["delta"])
        if not cnt:
            for v in left:
                new.append((v["signature"], v["what"]))
            break
        # prefer the change that explains most forms; ties: the lexicographically first
        best = sorted(cnt.items(), key=lambda kv: (-kv[1], kv[0]))[0][0]
        ex = [v for v in left if best in v["signature"]["delta"]]
        new.append(({"engine": "callforms", "substitute": sub, "what": what, "delta__subset": [best]}, ex[0]["what"] + f" [{len(ex)} failing form(s) include {best}]"))
        left = [v for v in left if best not in v["signature"]["delta"]]
pos = next((i for i, k in enumerate(kf) if k.get("status") == "fixed"), len(kf))
ents = []
for sig, what in new:
    h = hashlib.sha256(json.dumps(sig, sort_keys=True).encode()).hexdigest()[:8]
    ents.append({"property": "C19", "id": f"KF-C19-{h}", "status": "open", "signature": sig, "what": what[:420],
                 "repro": "to_onnx of a one-call program calling the named library function with the named call form (see ./check C19 --replay)",
                 "why_not_fixed": "one of several dozen substitutes that do not bind every call form of the function they replace (the property statement itself counts 47); each repair is a per-plugin signature change, listed individually instead"})
kf[pos:pos] = ents
kfp.write_text(json.dumps(kf, indent=1) + "\n")
print(f"C19: {len(ents)} open known findings written")
