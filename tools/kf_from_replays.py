#!/usr/bin/env python3
"""Turn triaged violation records (replays/<ID>/*.json of a run on the UNCHANGED tree) into
known-finding entries.  Used by hand after triage; checks never call it (the known-findings file is
never extended at run time).

usage: tools/kf_from_replays.py <property> <replays dir> <id prefix> [--keys k1,k2,...] [--note text]
"""
import json
import sys
from pathlib import Path

prop, rdir, prefix = sys.argv[1], Path(sys.argv[2]), sys.argv[3]
keys = None
note = "listed from a whole-corpus sweep; not repaired"
for i, a in enumerate(sys.argv):
    if a == "--keys":
        keys = sys.argv[i + 1].split(",")
    if a == "--note":
        note = sys.argv[i + 1]
kfp = Path(__file__).resolve().parent.parent / "known_findings.json"
kf = json.loads(kfp.read_text())
have = {json.dumps(k["signature"], sort_keys=True) for k in kf if k["property"] == prop}
n = 0
for f in sorted(rdir.glob("*.json")):
    v = json.loads(f.read_text())
    sig = v["signature"]
    if keys:
        sig = {k: sig[k] for k in keys if k in sig}
    s = json.dumps(sig, sort_keys=True)
    if s in have:
        continue
    have.add(s)
    n += 1
    # insert open findings before the fixed entries
    pos = next((i for i, k in enumerate(kf) if k.get("status") == "fixed"), len(kf))
    kf.insert(pos, {"property": prop, "id": f"{prefix}-{v['digest'][:8]}", "status": "open", "signature": sig, "what": v["what"][:400], "repro": "registered testcase / configuration named in the signature", "why_not_fixed": note})
kfp.write_text(json.dumps(kf, indent=1))
print(f"added {n} known findings for {prop}")
