#!/bin/sh
# usage: tools/soak.sh "<ids>" "<seeds>" [tier]  -- runs checks under several seeds, prints one line each
cd "$(dirname "$0")/.." || exit 2
tier="${3:-quick}"
for id in $1; do
  for seed in $2; do
    out=$(VERIF_SEED=$seed ./check "$id" --tier "$tier" 2>&1)
    rc=$?
    echo "SOAK $id seed=$seed rc=$rc $(echo "$out" | tail -1)"
    if [ $rc -ne 0 ]; then echo "$out" | grep -E "VIOLATION|what:|MACHINERY" | head -6; fi
  done
done
